import DesperProofs.Lemmas.TreeC12
/-
  C11: field-by-field description of the mutating operations of the heap model, the invariants
  (one kind per name, back-links) and their preservation.
-/
namespace Desper.Tree
open Desper

/-! ### ChainMap lookups -/

theorem chainGet_cons (l : Dict String HId) (ls : List (Dict String HId)) (k : String) :
    chainGet? (l :: ls) k = match Dict.get? l k with
      | some h => some h
      | none => chainGet? ls k := by
  simp only [chainGet?, List.findSome?_cons]
  cases Dict.get? l k <;> rfl

theorem chainGet_none (ls : List (Dict String HId)) (k : String) :
    chainGet? ls k = none ↔ ∀ l ∈ ls, Dict.get? l k = none := by
  simp [chainGet?, List.findSome?_eq_none_iff]

theorem chainGet_some (ls : List (Dict String HId)) (k : String) (h : HId)
    (e : chainGet? ls k = some h) : ∃ l ∈ ls, Dict.get? l k = some h := by
  induction ls with
  | nil => simp [chainGet?] at e
  | cons l ls ih =>
    rw [chainGet_cons] at e
    cases hl : Dict.get? l k with
    | some g => rw [hl] at e; cases e; exact ⟨l, by simp, hl⟩
    | none =>
      rw [hl] at e
      obtain ⟨l', h1, h2⟩ := ih e
      exact ⟨l', List.mem_cons_of_mem _ h1, h2⟩

theorem chainGet_erase_self (ls : List (Dict String HId)) (k : String) :
    chainGet? (ls.map (Dict.erase · k)) k = none := by
  rw [chainGet_none]
  intro l hl
  simp only [List.mem_map] at hl
  obtain ⟨l0, _, rfl⟩ := hl
  simp [dget_erase]

theorem chainGet_erase_other (ls : List (Dict String HId)) (k k' : String) (hk : k ≠ k') :
    chainGet? (ls.map (Dict.erase · k)) k' = chainGet? ls k' := by
  induction ls with
  | nil => rfl
  | cons l ls ih =>
    simp only [List.map_cons, chainGet_cons, dget_erase, hk, if_false, ih]

/-! ### field lemmas: `assign` -/

theorem layers_def (n : MapNode) : n.layers = n.layer0 :: n.lower := rfl

theorem assign_map_maps (st : St) (t c j : MId) (k : String) :
    ((assign st t k (.map c)).m j).maps
      = if j = t then Dict.set (st.m t).maps k c else (st.m j).maps := by
  simp only [assign, m_setM]
  by_cases h1 : c = j <;> by_cases h2 : t = j <;> simp_all <;> grind

theorem assign_map_layers (st : St) (t c j : MId) (k : String) :
    ((assign st t k (.map c)).m j).layers
      = if j = t then (st.m t).layers.map (Dict.erase · k) else (st.m j).layers := by
  simp only [assign, m_setM, MapNode.layers]
  by_cases h1 : c = j <;> by_cases h2 : t = j <;> simp_all <;> grind

theorem assign_map_parent (st : St) (t c j : MId) (k : String) :
    ((assign st t k (.map c)).m j).parent = if j = c then some t else (st.m j).parent := by
  simp only [assign, m_setM]
  by_cases h1 : c = j <;> by_cases h2 : t = j <;> simp_all <;> grind

theorem assign_map_key (st : St) (t c j : MId) (k : String) :
    ((assign st t k (.map c)).m j).key = if j = c then some k else (st.m j).key := by
  simp only [assign, m_setM]
  by_cases h1 : c = j <;> by_cases h2 : t = j <;> simp_all <;> grind

@[simp] theorem assign_map_h (st : St) (t c : MId) (k : String) (g : HId) :
    (assign st t k (.map c)).h g = st.h g := by
  simp [assign]

theorem assign_h_maps (st : St) (t j : MId) (g : HId) (k : String) :
    ((assign st t k (.handle g)).m j).maps
      = if j = t then Dict.erase (st.m t).maps k else (st.m j).maps := by
  simp only [assign, m_setH, m_setM]
  by_cases h2 : t = j <;> simp_all <;> grind

theorem assign_h_layers (st : St) (t j : MId) (g : HId) (k : String) :
    ((assign st t k (.handle g)).m j).layers
      = if j = t then Dict.set (st.m t).layer0 k g :: (st.m t).lower else (st.m j).layers := by
  simp only [assign, m_setH, m_setM, MapNode.layers]
  by_cases h2 : t = j <;> simp_all <;> grind

theorem assign_h_parent (st : St) (t j : MId) (g : HId) (k : String) :
    ((assign st t k (.handle g)).m j).parent = (st.m j).parent ∧
    ((assign st t k (.handle g)).m j).key = (st.m j).key := by
  simp only [assign, m_setH, m_setM]
  by_cases h2 : t = j <;> simp_all

theorem assign_h_h (st : St) (t : MId) (g g' : HId) (k : String) :
    ((assign st t k (.handle g)).h g').parent = (if g' = g then some t else (st.h g').parent) ∧
    ((assign st t k (.handle g)).h g').key = (if g' = g then some k else (st.h g').key) := by
  simp only [assign, h_setH, h_setM]
  by_cases h2 : g = g' <;> simp_all <;> grind

@[simp] theorem assign_next (st : St) (t : MId) (k : String) (v : Ref) :
    (assign st t k v).next = st.next := by
  cases v <;> simp [assign]

/-! ### field lemmas: `addLayer`, `clearMap` -/

theorem addLayer_m (st : St) (i j : MId) :
    ((addLayer st i).m j).maps = (st.m j).maps ∧
    ((addLayer st i).m j).layers = (if j = i then [] :: (st.m i).layers else (st.m j).layers) ∧
    ((addLayer st i).m j).parent = (st.m j).parent ∧ ((addLayer st i).m j).key = (st.m j).key := by
  simp only [addLayer, m_setM, MapNode.layers]
  by_cases h : i = j <;> simp_all <;> grind

@[simp] theorem addLayer_h (st : St) (i : MId) (g : HId) : (addLayer st i).h g = st.h g := by
  simp [addLayer]

@[simp] theorem addLayer_next (st : St) (i : MId) : (addLayer st i).next = st.next := by
  simp [addLayer]

theorem detachM_shape (i : MId) (st : St) (c j : MId) :
    ((detachM i st c).m j).maps = (st.m j).maps ∧ ((detachM i st c).m j).layer0 = (st.m j).layer0 ∧
    ((detachM i st c).m j).lower = (st.m j).lower := by
  unfold detachM
  split
  · by_cases h : c = j <;> simp_all
  · simp

theorem detachM_link (i : MId) (st : St) (c j : MId) :
    ((detachM i st c).m j).parent = (if j = c ∧ (st.m j).parent = some i then none else (st.m j).parent) ∧
    ((detachM i st c).m j).key = (if j = c ∧ (st.m j).parent = some i then none else (st.m j).key) := by
  unfold detachM
  split
  · by_cases h : c = j
    · subst h; simp_all
    · have : ¬ j = c := fun e => h e.symm
      simp [h, this]
  · by_cases h : j = c
    · subst h; simp_all
    · simp [h]

@[simp] theorem detachM_h (i : MId) (st : St) (c : MId) (g : HId) : (detachM i st c).h g = st.h g := by
  unfold detachM; split <;> simp

@[simp] theorem detachM_next (i : MId) (st : St) (c : MId) : (detachM i st c).next = st.next := by
  unfold detachM; split <;> simp

@[simp] theorem detachH_m (i : MId) (st : St) (g : HId) (j : MId) : (detachH i st g).m j = st.m j := by
  unfold detachH; split <;> simp

@[simp] theorem detachH_next (i : MId) (st : St) (g : HId) : (detachH i st g).next = st.next := by
  unfold detachH; split <;> simp

theorem detachH_link (i : MId) (st : St) (g g' : HId) :
    ((detachH i st g).h g').parent = (if g' = g ∧ (st.h g').parent = some i then none else (st.h g').parent) ∧
    ((detachH i st g).h g').key = (if g' = g ∧ (st.h g').parent = some i then none else (st.h g').key) := by
  unfold detachH
  split
  · by_cases h : g = g'
    · subst h; simp_all
    · have : ¬ g' = g := fun e => h e.symm
      simp [h, this]
  · by_cases h : g' = g
    · subst h; simp_all
    · simp [h]

theorem foldl_detachM (i : MId) (l : List MId) (st : St) (j : MId) :
    ((l.foldl (detachM i) st).m j).maps = (st.m j).maps ∧
    ((l.foldl (detachM i) st).m j).layer0 = (st.m j).layer0 ∧
    ((l.foldl (detachM i) st).m j).lower = (st.m j).lower ∧
    ((l.foldl (detachM i) st).m j).parent
      = (if j ∈ l ∧ (st.m j).parent = some i then none else (st.m j).parent) ∧
    ((l.foldl (detachM i) st).m j).key
      = (if j ∈ l ∧ (st.m j).parent = some i then none else (st.m j).key) ∧
    (∀ g, (l.foldl (detachM i) st).h g = st.h g) ∧ (l.foldl (detachM i) st).next = st.next := by
  induction l generalizing st with
  | nil => simp
  | cons c l ih =>
    simp only [List.foldl_cons]
    obtain ⟨a1, a2, a3, a4, a5, a6, a7⟩ := ih (detachM i st c)
    obtain ⟨b1, b2, b3⟩ := detachM_shape i st c j
    obtain ⟨c1, c2⟩ := detachM_link i st c j
    refine ⟨a1.trans b1, a2.trans b2, a3.trans b3, ?_, ?_, fun g => by rw [a6, detachM_h], by rw [a7, detachM_next]⟩
    · rw [a4, c1]
      by_cases h1 : j = c <;> by_cases h2 : (st.m j).parent = some i <;> by_cases h3 : j ∈ l <;>
        simp [h1, h2, h3]
      all_goals (first | (subst h1; simp_all) | simp_all)
    · rw [a5, c1, c2]
      by_cases h1 : j = c <;> by_cases h2 : (st.m j).parent = some i <;> by_cases h3 : j ∈ l <;>
        simp [h1, h2, h3]
      all_goals (first | (subst h1; simp_all) | simp_all)

theorem foldl_detachH (i : MId) (l : List HId) (st : St) (g : HId) :
    ((l.foldl (detachH i) st).h g).parent
      = (if g ∈ l ∧ (st.h g).parent = some i then none else (st.h g).parent) ∧
    ((l.foldl (detachH i) st).h g).key
      = (if g ∈ l ∧ (st.h g).parent = some i then none else (st.h g).key) ∧
    (∀ j, (l.foldl (detachH i) st).m j = st.m j) ∧ (l.foldl (detachH i) st).next = st.next := by
  induction l generalizing st with
  | nil => simp
  | cons c l ih =>
    simp only [List.foldl_cons]
    obtain ⟨a4, a5, a6, a7⟩ := ih (detachH i st c)
    obtain ⟨c1, c2⟩ := detachH_link i st c g
    refine ⟨?_, ?_, fun j => by rw [a6, detachH_m], by rw [a7, detachH_next]⟩
    · rw [a4, c1]
      by_cases h1 : g = c <;> by_cases h2 : (st.h g).parent = some i <;> by_cases h3 : g ∈ l <;>
        simp [h1, h2, h3]
      all_goals (first | (subst h1; simp_all) | simp_all)
    · rw [a5, c1, c2]
      by_cases h1 : g = c <;> by_cases h2 : (st.h g).parent = some i <;> by_cases h3 : g ∈ l <;>
        simp [h1, h2, h3]
      all_goals (first | (subst h1; simp_all) | simp_all)

/-- the handles and sub-maps that `clear` visits -/
def childHandles (st : St) (i : MId) : List HId := (st.m i).layers.flatMap Dict.values
def childMaps (st : St) (i : MId) : List MId := Dict.values (st.m i).maps

theorem clearMap_m (st : St) (i j : MId) :
    ((clearMap st i).m j).maps = (if j = i then [] else (st.m j).maps) ∧
    ((clearMap st i).m j).layers = (if j = i then [[]] else (st.m j).layers) ∧
    ((clearMap st i).m j).parent
      = (if j ∈ childMaps st i ∧ (st.m j).parent = some i then none else (st.m j).parent) ∧
    ((clearMap st i).m j).key
      = (if j ∈ childMaps st i ∧ (st.m j).parent = some i then none else (st.m j).key) := by
  obtain ⟨_, _, h3, _⟩ := foldl_detachH i (childHandles st i) st 0
  obtain ⟨a1, a2, a3, a4, a5, _, _⟩ := foldl_detachM i (childMaps st i)
    (List.foldl (detachH i) st (childHandles st i)) j
  rw [h3] at a1 a2 a3 a4 a5
  have e : clearMap st i = (List.foldl (detachM i) (List.foldl (detachH i) st (childHandles st i))
      (childMaps st i)).setM i { (List.foldl (detachM i) (List.foldl (detachH i) st (childHandles st i))
      (childMaps st i)).m i with maps := [], layer0 := [], lower := [] } := rfl
  rw [e]
  by_cases h : i = j
  · subst h
    rw [m_setM, if_pos rfl]
    refine ⟨by simp, by simp [layers_def], ?_, ?_⟩
    · exact a4
    · exact a5
  · have h' : ¬ j = i := fun e => h e.symm
    rw [m_setM, if_neg h, if_neg h', if_neg h']
    exact ⟨a1, by rw [layers_def, layers_def, a2, a3], a4, a5⟩

theorem clearMap_h (st : St) (i : MId) (g : HId) :
    ((clearMap st i).h g).parent
      = (if g ∈ childHandles st i ∧ (st.h g).parent = some i then none else (st.h g).parent) ∧
    ((clearMap st i).h g).key
      = (if g ∈ childHandles st i ∧ (st.h g).parent = some i then none else (st.h g).key) := by
  obtain ⟨h1, h2, _, _⟩ := foldl_detachH i (childHandles st i) st g
  obtain ⟨_, _, _, _, _, a6, _⟩ := foldl_detachM i (childMaps st i)
    (List.foldl (detachH i) st (childHandles st i)) i
  have e : clearMap st i = (List.foldl (detachM i) (List.foldl (detachH i) st (childHandles st i))
      (childMaps st i)).setM i { (List.foldl (detachM i) (List.foldl (detachH i) st (childHandles st i))
      (childMaps st i)).m i with maps := [], layer0 := [], lower := [] } := rfl
  rw [e, h_setM, a6]
  exact ⟨h1, h2⟩

@[simp] theorem clearMap_next (st : St) (i : MId) : (clearMap st i).next = st.next := by
  obtain ⟨_, _, _, h4⟩ := foldl_detachH i (childHandles st i) st 0
  obtain ⟨_, _, _, _, _, _, a7⟩ := foldl_detachM i (childMaps st i)
    (List.foldl (detachH i) st (childHandles st i)) i
  have e : clearMap st i = (List.foldl (detachM i) (List.foldl (detachH i) st (childHandles st i))
      (childMaps st i)).setM i { (List.foldl (detachM i) (List.foldl (detachH i) st (childHandles st i))
      (childMaps st i)).m i with maps := [], layer0 := [], lower := [] } := rfl
  rw [e, next_setM, a7, h4]

end Desper.Tree
