import DesperProofs.Lemmas.CoroFrame
/-
  Wait records and the shared clock: a record stays in the heap, untouched, until its deadline
  has passed or its generator is started again (used by Props/C08.lean).
-/
set_option linter.unusedSimpArgs false
set_option linter.unusedVariables false
namespace Desper.Coro
open Desper

/-- from `s` to `s'` the wait record `⟨g, d⟩` survives, unless `g` was started again -/
structure Keeps (g : Gen) (d : Int) (s s' : St) : Prop where
  mono : nStart s g ≤ nStart s' g
  keep : (⟨some g, d⟩ : Rec) ∈ s.waiting →
    (⟨some g, d⟩ : Rec) ∈ s'.waiting ∨ nStart s g < nStart s' g

theorem Keeps.refl (g : Gen) (d : Int) (s : St) : Keeps g d s s := ⟨Nat.le_refl _, fun h => .inl h⟩

theorem Keeps.trans {g : Gen} {d : Int} {a b c : St} (h1 : Keeps g d a b) (h2 : Keeps g d b c) :
    Keeps g d a c := by
  refine ⟨Nat.le_trans h1.mono h2.mono, fun h => ?_⟩
  rcases h1.keep h with h | h
  · rcases h2.keep h with h | h
    · exact .inl h
    · exact .inr (Nat.lt_of_le_of_lt h1.mono h)
  · exact .inr (Nat.lt_of_lt_of_le h h2.mono)

/-- same log and same heap -/
theorem Keeps.of_eq {g : Gen} {d : Int} {s s' : St} (h1 : s'.log = s.log) (h2 : s'.waiting = s.waiting) :
    Keeps g d s s' := by
  refine ⟨by simp [nStart, h1], fun h => .inl (by rw [h2]; exact h)⟩

theorem start_keeps (U : Universe) (s : St) (h g : Gen) (d : Int) : Keeps g d s (start U s h).1 := by
  unfold start
  split
  · exact Keeps.refl g d s
  · split
    · exact Keeps.refl g d s
    · split
      · simp only []
        split
        · exact Keeps.of_eq rfl rfl
        · refine ⟨by simp [nStart, startCommit, List.countP_cons], fun hm => .inl (by simpa [startCommit] using hm)⟩
        · refine ⟨by simp [nStart, startCommit, List.countP_cons], fun hm => ?_⟩
          by_cases hg : g = h
          · subst hg; exact .inr (by simp [nStart, startCommit, List.countP_cons, isStarted])
          · exact .inl (by simp only [startCommit, mem_void]; exact ⟨hg, hm⟩)
      · refine ⟨by simp [nStart, startCommit, List.countP_cons], fun hm => .inl (by simpa [startCommit] using hm)⟩

theorem kill_keeps (U : Universe) (s : St) (h g : Gen) (d : Int) : Keeps g d s (kill U s h).1 := by
  unfold kill
  split
  · exact Keeps.refl g d s
  · split
    · exact Keeps.refl g d s
    · exact ⟨by simp [nStart, List.countP_cons, isStarted], fun hm => .inl hm⟩

theorem push_keeps (s : St) (e : Entry) (g : Gen) (d : Int) (he : isStarted g e = false) :
    Keeps g d s (s.push e) :=
  ⟨by simp [nStart, St.push, List.countP_cons, he], fun hm => .inl hm⟩

theorem execAct_keeps (U : Universe) (x : Gen) (i : Nat) (s : St) (a : Act) (g : Gen) (d : Int) :
    Keeps g d s (execAct U x i s a) := by
  cases a with
  | start h => exact (start_keeps U s h g d).trans (push_keeps _ _ g d rfl)
  | kill h => exact (kill_keeps U s h g d).trans (push_keeps _ _ g d rfl)
  | state h => simp only [execAct]; split <;> exact push_keeps _ _ g d rfl

theorem execActs_keeps (U : Universe) (x : Gen) (i : Nat) (s : St) (acts : List Act) (g : Gen) (d : Int) :
    Keeps g d s (execActs U x i s acts) := by
  induction acts generalizing s with
  | nil => exact Keeps.refl g d s
  | cons a as ih => exact (execAct_keeps U x i s a g d).trans (ih _)

theorem runBody_keeps (U : Universe) (s : St) (x g : Gen) (d : Int) : Keeps g d s (runBody U s x).1 := by
  unfold runBody
  split
  · exact Keeps.refl g d s
  · dsimp only
    split
    · exact Keeps.of_eq rfl rfl
    · rename_i st _
      have k0 : Keeps g d s { s with pc := upd s.pc x (s.pc x + 1), log := .step x (s.pc x) :: s.log } :=
        ⟨by simp [nStart, List.countP_cons, isStarted], fun hm => .inl hm⟩
      have k1 := execActs_keeps U x (s.pc x)
        { s with pc := upd s.pc x (s.pc x + 1), log := .step x (s.pc x) :: s.log } st.acts g d
      split
      · exact (k0.trans k1).trans (push_keeps _ _ g d rfl)
      · exact (k0.trans k1).trans ⟨by simp [nStart, List.countP_cons, isStarted], fun hm => .inl hm⟩
      · exact (k0.trans k1).trans ⟨by simp [nStart, List.countP_cons, isStarted], fun hm => .inl hm⟩

theorem afterBody_keeps (b : St × Next) (x : Gen) (p : Nat) (g : Gen) (d : Int) :
    Keeps g d b.1 (afterBody b x p) := by
  unfold afterBody
  split
  · exact ⟨by simp [nStart, finishHead, dropHead, List.countP_cons, isStarted], fun hm => .inl hm⟩
  · split
    · exact ⟨by simp [nStart, pauseHead], fun hm => .inl (by simp [pauseHead, hm])⟩
    · exact Keeps.of_eq rfl rfl
  · exact Keeps.refl g d _

theorem turn_keeps (U : Universe) [NoRaise U] {c : St} (I : Inv c) {x : Gen} {pend : List Gen}
    {done : List (Option Gen)} (h : Split c (x :: pend) done) (g : Gen) (d : Int) :
    Keeps g d c (turn U c) := by
  obtain ⟨_, hc⟩ := turn_cases U I h
  rcases hc with ⟨_, ht, _⟩ | ⟨_, _, p, _, _, _, _, ht, _⟩
  · rw [ht]; exact Keeps.of_eq rfl rfl
  · rw [ht]; exact (runBody_keeps U c x g d).trans (afterBody_keeps _ x p g d)

theorem turns_keeps (U : Universe) [NoRaise U] {c : St} (I : Inv c) {before rest : List Gen}
    {done : List (Option Gen)} (h : Split c (before ++ rest) done) (g : Gen) (d : Int) :
    Keeps g d c (turns U before.length c) :=
  (turns_rel U (Keeps g d) (Keeps.refl g d) (fun _ _ _ => Keeps.trans) (before := before)
    (fun c x pend done I hs _ => turn_keeps U I hs g d) I h).1

/-! ### the wake-up phase and the clock -/

theorem wake_time {s : St} (I : Inv s) (dt : Int) (hint : List Gen) :
    (wakePhase s dt hint).1.waiting = s.waiting.filter (fun r => !decide (r.deadline ≤ s.timer + dt)) ∧
    ((wakePhase s dt hint).1.waiting ≠ [] → (wakePhase s dt hint).1.timer = s.timer + dt) := by
  unfold wakePhase
  split
  · rename_i he
    simp only [List.isEmpty_iff] at he
    simp [he]
  · simp only []
    have hperm : (sortRecs hint (s.waiting.filter (fun r => decide (r.deadline ≤ s.timer + dt))) ++
        s.waiting.filter (fun r => !decide (r.deadline ≤ s.timer + dt))).Perm s.waiting :=
      ((sortRecs_perm hint _).append_right _).trans (List.filter_append_perm _ _)
    have I2 : InvP ({ s with waiting := s.waiting.filter (fun r => !decide (r.deadline ≤ s.timer + dt)),
                             timer := s.timer + dt } : St)
        (sortRecs hint (s.waiting.filter (fun r => decide (r.deadline ≤ s.timer + dt)))) :=
      (I.perm hperm).frame rfl rfl rfl rfl rfl
    obtain ⟨k1, _, k3⟩ := wakeAll_spec I2
    obtain ⟨_, _, f3, _⟩ := wakeAll_frame I2
    cases hw : wakeAll _ _ with | mk s' o =>
    rw [hw] at k1 k3 f3
    simp only at k1 k3 f3
    subst k1
    simp only []
    split
    · rename_i he
      simp only [List.isEmpty_iff] at he
      exact ⟨k3, fun hne => absurd he hne⟩
    · exact ⟨k3, fun _ => f3⟩

theorem countP_two {α : Type} {p : α → Bool} {l : List α} {a b : α} (hab : a ≠ b) (ha : a ∈ l)
    (hb : b ∈ l) (pa : p a = true) (pb : p b = true) : 2 ≤ l.countP p := by
  induction l with
  | nil => simp at ha
  | cons x t ih =>
    rw [List.countP_cons]
    rcases List.mem_cons.mp ha with ha1 | ha1 <;> rcases List.mem_cons.mp hb with hb1 | hb1
    · exact absurd (ha1.trans hb1.symm) hab
    · have : 0 < t.countP p := List.countP_pos_iff.mpr ⟨b, hb1, pb⟩
      have hx : p x = true := ha1 ▸ pa
      simp only [hx, if_true]; omega
    · have : 0 < t.countP p := List.countP_pos_iff.mpr ⟨a, ha1, pa⟩
      have hx : p x = true := hb1 ▸ pb
      simp only [hx, if_true]; omega
    · have := ih ha1 hb1; omega

/-- a generator has at most one wait record -/
theorem Inv.rec_unique {s : St} (I : Inv s) {g : Gen} {d d' : Int}
    (h1 : (⟨some g, d⟩ : Rec) ∈ s.waiting) (h2 : (⟨some g, d'⟩ : Rec) ∈ s.waiting) : d = d' := by
  apply Classical.byContradiction
  intro hne
  have : 2 ≤ cntW s g := countP_two (by intro e; cases e; exact hne rfl) h1 h2 (by simp) (by simp)
  have := I.once g
  omega

theorem Inv.not_active_of_waiting {s : St} (I : Inv s) {g : Gen} {d : Int}
    (h : (⟨some g, d⟩ : Rec) ∈ s.waiting) : some g ∉ s.active := by
  intro hm
  have h1 : 0 < cntA s g := List.count_pos_iff.mpr hm
  have h2 := cntW_pos_of_mem h
  have := I.once g
  omega

/-- **never earlier.**  A frame whose dt does not bring the clock up to the deadline leaves the
record where it is (unless the generator is started again), advances the clock by exactly dt and
does not run the generator. -/
theorem process_not_due (U : Universe) [NoRaise U] {s : St} (T : Top s) (dt : Int) (hint : List Gen) {g : Gen}
    {d : Int} (hm : (⟨some g, d⟩ : Rec) ∈ s.waiting) (hd : s.timer + dt < d) :
    (process U s dt hint).1.timer = s.timer + dt ∧ Keeps g d s (process U s dt hint).1 ∧
    (process U s dt hint).1.pc g = s.pc g := by
  obtain ⟨pend, _, I1, hsp, hp⟩ := process_frame U T dt hint
  obtain ⟨w1, w2⟩ := wake_time T.inv dt hint
  obtain ⟨_, _, wlog, _⟩ := wake_frame T.inv dt hint
  obtain ⟨_, _, htm, _⟩ := turns_effect U I1 hsp
  have hk := turns_keeps U I1 (before := pend) (rest := []) (by simpa using hsp) g d
  have hmw : (⟨some g, d⟩ : Rec) ∈ (wakePhase s dt hint).1.waiting := by
    rw [w1, List.mem_filter]
    exact ⟨hm, by simp; omega⟩
  have hkw : Keeps g d s (rotHead (wakePhase s dt hint).1) :=
    ⟨by simp [nStart, rotHead, wlog], fun _ => .inl hmw⟩
  refine ⟨?_, ?_, ?_⟩
  · rw [hp]; simp only []; rw [htm]; exact w2 (List.ne_nil_of_mem hmw)
  · rw [hp]; exact hkw.trans hk
  · apply (one_step U T dt hint g).2.2.1 _ |>.1
    rintro (h | ⟨d', h1, h2, _⟩)
    · exact T.inv.not_active_of_waiting hm h
    · have := T.inv.rec_unique hm h1; omega

/-! ### after the step: parked with the full wait, or runnable in the next frame -/

theorem runBody_next (U : Universe) {s : St} {g : Gen} {st : Step} (hc : hasCode U s g)
    (hs : curStep U s g = some st) :
    (runBody U s g).2 = (match st.fin with
      | .yield w => Next.yield w | .ret v => Next.stop v | .raise e => Next.crash e) := by
  unfold runBody
  unfold hasCode at hc
  unfold curStep at hs
  simp only [hc.1, Bool.false_eq_true, if_false, hs]
  cases st.fin <;> rfl

theorem mem_rotl {α : Type} (a : α) (l : List α) : a ∈ rotl l ↔ a ∈ l := by
  cases l with
  | nil => simp [rotl]
  | cons h t => simp [rotl, or_comm]

/-- `g` stays in the deque across the turn of another generator -/
theorem turn_stays (U : Universe) [NoRaise U] {c : St} (I : Inv c) {x : Gen} {pend : List Gen}
    {done : List (Option Gen)} (h : Split c (x :: pend) done) {g : Gen} (hne : x ≠ g)
    (hm : some g ∈ c.active) : some g ∈ (turn U c).active := by
  have hm' : some g ∈ pend.map some ++ none :: done := by
    unfold Split at h
    rw [h] at hm
    simp only [List.map_cons, List.cons_append, List.mem_cons, Option.some.injEq] at hm
    rcases hm with e | hm
    · exact absurd e.symm hne
    · exact hm
  obtain ⟨_, hc⟩ := turn_cases U I h
  rcases hc with ⟨_, _, hs⟩ | ⟨_, _, _, _, _, _, _, _, e, hs⟩
  · unfold Split at hs; rw [hs]; exact hm'
  · unfold Split at hs; rw [hs]
    simp only [List.mem_append, List.mem_cons] at hm' ⊢
    rcases hm' with h1 | h1 | h1
    · exact .inl h1
    · exact .inr (.inl h1)
    · exact .inr (.inr (.inl h1))

/-- **after a step that ends in `yield w`** (of a generator that runs in this frame): a positive
`w = n` leaves the record `⟨g, n + clock⟩` in the heap at the end of the frame, i.e. a remaining
wait of exactly `n` (unless `g` is started again); anything else leaves `g` in the deque: it is
runnable when the next frame starts. -/
theorem process_after_yield (U : Universe) [NoRaise U] {s : St} (T : Top s) (dt : Int) (hint : List Gen)
    {g : Gen} {st : Step} {w : Option Int} (hr : runnableIn s dt g) (hk : s.kill g = false)
    (hcode : hasCode U s g) (hst : curStep U s g = some st) (hw : st.fin = .yield w)
    (hno : ∀ h, runnableIn s dt h → ∀ st, curStep U s h = some st → Act.kill g ∉ st.acts) :
    (positive w = true →
      ((⟨some g, w.getD 0 + (process U s dt hint).1.timer⟩ : Rec) ∈ (process U s dt hint).1.waiting ∨
        nStart s g < nStart (process U s dt hint).1 g)) ∧
    (positive w = false → some g ∈ (process U s dt hint).1.active) := by
  obtain ⟨pend, hact, I0, hsp, hp⟩ := process_frame U T dt hint
  obtain ⟨w1, w2, wlog, w4, _, woken, hwa, hwm⟩ := wake_frame T.inv dt hint
  have hmem : ∀ x, x ∈ pend ↔ runnableIn s dt x := by
    intro x
    have : some x ∈ (wakePhase s dt hint).1.active ↔ x ∈ pend := by rw [hact]; simp
    rw [← this, hwa, List.mem_append, List.mem_map]
    unfold runnableIn
    constructor
    · rintro (h | ⟨y, hy, e⟩)
      · exact .inl h
      · cases e; exact .inr ((hwm x).mp hy)
    · rintro (h | h)
      · exact .inl h
      · exact .inr ⟨x, (hwm x).mpr h, rfl⟩
  have hpc : (rotHead (wakePhase s dt hint).1).pc = s.pc := w1
  have hfin : (rotHead (wakePhase s dt hint).1).fin = s.fin := w2
  have hkill0 : (rotHead (wakePhase s dt hint).1).kill g = false := by
    show (wakePhase s dt hint).1.kill g = false
    cases hq : (wakePhase s dt hint).1.kill g with
    | false => rfl
    | true => have := w4 g hq; simp [hk] at this
  have hlog0 : nStart (rotHead (wakePhase s dt hint).1) g = nStart s g := by
    simp [nStart, rotHead, wlog]
  rw [hp]
  generalize rotHead (wakePhase s dt hint).1 = c0 at *
  simp only []
  obtain ⟨before, after, hsplit⟩ := List.append_of_mem ((hmem g).mpr hr)
  subst hsplit
  have hnd := Split.nodup I0 hsp
  have hgb : g ∉ before := by
    intro hm
    have := (List.nodup_append.mp hnd).2.2 g hm g List.mem_cons_self
    exact this rfl
  have hga : g ∉ after := (List.nodup_cons.mp (List.nodup_append.mp hnd).2.1).1
  -- the turns before g's
  obtain ⟨I1, ⟨d1, hs1⟩, htm1, hx1⟩ := turns_prefix U I0 (before := before) (rest := g :: after) hsp
  obtain ⟨p1, p2, p3⟩ := (hx1 g).1 hgb
  have hk1 := p3 hkill0 (fun h hh st' hst' => by
    rw [curStep_congr U (congrFun hpc h)] at hst'
    exact hno h ((hmem h).mp (List.mem_append_left _ hh)) st' hst')
  have keeps1 := fun d => turns_keeps U I0 (before := before) (rest := g :: after) hsp g d
  have hfinal : turns U (before ++ g :: after).length c0 =
      turns U after.length (turn U (turns U before.length c0)) := by
    rw [List.length_append, List.length_cons, turns_add]
    simp only [turns]
  rw [hfinal]
  generalize turns U before.length c0 = c1 at *
  have hcode1 : hasCode U c1 g := (hasCode_congr U (p1.trans (congrFun hpc g)) (p2.trans (congrFun hfin g))).mpr hcode
  have hst1 : curStep U c1 g = some st := by
    rw [curStep_congr U (p1.trans (congrFun hpc g))]; exact hst
  -- g's own turn
  obtain ⟨I2, hc⟩ := turn_cases U I1 hs1
  rcases hc with ⟨hkt, _, _⟩ | ⟨_, extra, p, hba, _, _, Ib, ht, e2, hs2⟩
  · simp [hk1] at hkt
  have hnext := runBody_next U hcode1 hst1
  rw [hw] at hnext
  have hbt : (runBody U c1 g).1.timer = c1.timer := (runBody_spec U I1 g).2.timer
  have keepsb := fun d => runBody_keeps U c1 g g d
  have hs2' : Split (turn U c1) (after ++ []) (([] ++ d1) ++ e2) := by simpa using hs2
  obtain ⟨_, _, htm3, _⟩ := turns_prefix U I2 (before := after) (rest := []) hs2'
  have keeps3 := fun d => turns_keeps U I2 (before := after) (rest := []) hs2' g d
  have stays3 := (turns_rel U (fun a b => some g ∈ a.active → some g ∈ b.active) (fun _ h => h)
    (fun _ _ _ h1 h2 h => h2 (h1 h)) (before := after)
    (fun c x pend done I hs hx => turn_stays U I hs (fun e => hga (e ▸ hx))) I2 hs2').1
  have hat := afterBody_fields (runBody U c1 g) g p
  rw [ht] at htm3 keeps3 stays3 ⊢
  refine ⟨fun hpos => ?_, fun hpos => ?_⟩
  · have hab : afterBody (runBody U c1 g) g p =
        pauseHead (runBody U c1 g).1 g (w.getD 0 + (runBody U c1 g).1.timer) := by
      simp [afterBody, hnext, hpos]
    have hmem2 : (⟨some g, w.getD 0 + (runBody U c1 g).1.timer⟩ : Rec) ∈
        (afterBody (runBody U c1 g) g p).waiting := by rw [hab]; simp [pauseHead]
    have htimer : (turns U after.length (afterBody (runBody U c1 g) g p)).timer =
        (runBody U c1 g).1.timer := by rw [htm3, hat.2.2.1]
    rw [htimer]
    have k3 := keeps3 (w.getD 0 + (runBody U c1 g).1.timer)
    have kb := keepsb 0
    have ka := afterBody_keeps (runBody U c1 g) g p g 0
    have k1 := keeps1 0
    rcases k3.keep hmem2 with h | h
    · exact .inl h
    · right
      have := k1.mono; have := kb.mono; have := ka.mono
      omega
  · have hab : afterBody (runBody U c1 g) g p = rotHead (runBody U c1 g).1 := by
      simp [afterBody, hnext, hpos]
    apply stays3
    rw [hab]
    simp only [rotHead, mem_rotl, hba]
    exact List.mem_cons_self

/-! ### across arbitrary histories -/

theorem process_mono (U : Universe) [NoRaise U] {s : St} (T : Top s) (dt : Int) (hint : List Gen) (g : Gen) :
    nStart s g ≤ nStart (process U s dt hint).1 g := by
  obtain ⟨pend, _, I1, hsp, hp⟩ := process_frame U T dt hint
  obtain ⟨_, _, wlog, _⟩ := wake_frame T.inv dt hint
  have hk := turns_keeps U I1 (before := pend) (rest := []) (by simpa using hsp) g 0
  rw [hp]
  have : nStart (rotHead (wakePhase s dt hint).1) g = nStart s g := by simp [nStart, rotHead, wlog]
  have := hk.mono
  simp only at this ⊢
  omega

theorem execOp_mono (U : Universe) [NoRaise U] {s : St} (T : Top s) (op : Op) (g : Gen) :
    nStart s g ≤ nStart (execOp U s op) g := by
  cases op with
  | start h => exact ((start_keeps U s h g 0).trans (push_keeps _ _ g 0 rfl)).mono
  | kill h => exact ((kill_keeps U s h g 0).trans (push_keeps _ _ g 0 rfl)).mono
  | state h => simp only [execOp]; split <;> exact (push_keeps _ _ g 0 rfl).mono
  | process dt hint =>
    have := process_mono U T dt hint g
    simpa [execOp, nStart, St.push, List.countP_cons, isStarted] using this
  | value h => exact (push_keeps _ _ g 0 rfl).mono

theorem run_mono (U : Universe) [NoRaise U] {s : St} (T : Top s) (ops : List Op) (g : Gen) :
    nStart s g ≤ nStart (run U s ops) g := by
  induction ops generalizing s with
  | nil => exact Nat.le_refl _
  | cons op rest ih =>
    exact Nat.le_trans (execOp_mono U T op g) (ih (execOp_top U T op))

theorem elapsed_nonneg {ops : List Op} (h : ∀ op ∈ ops, nonnegDt op) : 0 ≤ elapsed ops := by
  induction ops with
  | nil => simp [elapsed]
  | cons op rest ih =>
    have h1 := h op List.mem_cons_self
    have h2 := ih (fun o ho => h o (List.mem_cons_of_mem _ ho))
    cases op <;> simp [elapsed, nonnegDt] at h1 ⊢ <;> omega

/-- one top-level operation while the record is not due -/
theorem execOp_not_due (U : Universe) [NoRaise U] {s : St} (T : Top s) (op : Op) {g : Gen} {d : Int}
    (hm : (⟨some g, d⟩ : Rec) ∈ s.waiting) (hd : s.timer + elapsed [op] < d) :
    (execOp U s op).timer = s.timer + elapsed [op] ∧ Keeps g d s (execOp U s op) ∧
    (execOp U s op).pc g = s.pc g := by
  cases op with
  | start h =>
    have := start_same U s h
    exact ⟨by simp [execOp, St.push, elapsed, this.timer],
      (start_keeps U s h g d).trans (push_keeps _ _ g d rfl), by simp [execOp, St.push, this.pc]⟩
  | kill h =>
    have := kill_same U s h
    exact ⟨by simp [execOp, St.push, elapsed, this.timer],
      (kill_keeps U s h g d).trans (push_keeps _ _ g d rfl), by simp [execOp, St.push, this.pc]⟩
  | state h =>
    simp only [execOp]
    split <;> exact ⟨by simp [St.push, elapsed], push_keeps _ _ g d rfl, rfl⟩
  | value h => exact ⟨by simp [execOp, St.push, elapsed], push_keeps _ _ g d rfl, rfl⟩
  | process dt hint =>
    simp only [elapsed, Int.add_zero] at hd
    obtain ⟨h1, h2, h3⟩ := process_not_due U T dt hint hm hd
    exact ⟨by simpa [execOp, St.push, elapsed] using h1,
      h2.trans (push_keeps _ _ g d rfl), by simpa [execOp, St.push] using h3⟩

/-- **never earlier, over any history.**  While the dt accumulated since a state in which the
record `⟨g, d⟩` is in the heap has not brought the clock up to `d`, and `g` has not been started
again, the record is still there, the clock has advanced by exactly the accumulated dt, and no
step of `g` has run. -/
theorem wake_exact (U : Universe) [NoRaise U] {s : St} (T : Top s) (ops : List Op) {g : Gen} {d : Int}
    (hm : (⟨some g, d⟩ : Rec) ∈ s.waiting) (hnn : ∀ op ∈ ops, nonnegDt op)
    (hd : s.timer + elapsed ops < d) (hns : nStart (run U s ops) g = nStart s g) :
    (⟨some g, d⟩ : Rec) ∈ (run U s ops).waiting ∧ (run U s ops).timer = s.timer + elapsed ops ∧
    (run U s ops).pc g = s.pc g := by
  induction ops generalizing s with
  | nil => exact ⟨hm, by simp [run, elapsed], rfl⟩
  | cons op rest ih =>
    have hrest := elapsed_nonneg (fun o ho => hnn o (List.mem_cons_of_mem _ ho))
    have hsplit : elapsed (op :: rest) = elapsed [op] + elapsed rest := by
      cases op <;> simp [elapsed]
    rw [hsplit] at hd
    obtain ⟨h1, h2, h3⟩ := execOp_not_due U T op hm (by omega)
    have T1 := execOp_top U T op
    have hm1 := run_mono U T1 rest g
    have hm0 := h2.mono
    simp only [run, List.foldl_cons] at hns ⊢
    change nStart (run U (execOp U s op) rest) g = nStart s g at hns
    have hmem1 : (⟨some g, d⟩ : Rec) ∈ (execOp U s op).waiting := by
      rcases h2.keep hm with h | h
      · exact h
      · omega
    obtain ⟨k1, k2, k3⟩ := ih T1 hmem1 (fun o ho => hnn o (List.mem_cons_of_mem _ ho))
      (by rw [h1]; omega) (by omega)
    exact ⟨k1, by rw [show List.foldl (execOp U) (execOp U s op) rest = run U (execOp U s op) rest from rfl, k2, h1, hsplit]; omega,
      by rw [show List.foldl (execOp U) (execOp U s op) rest = run U (execOp U s op) rest from rfl, k3, h3]⟩

end Desper.Coro
