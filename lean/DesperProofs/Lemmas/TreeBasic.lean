import DesperModel.Tree
/-
  Basic facts about the heap model of `desper/model/tree.py`: the dictionary laws it needs, the
  store accessors, `key.split('/')`.
-/
namespace Desper.Tree
open Desper

/-! ### Dict -/
section dict
variable {κ ν : Type} [DecidableEq κ]

@[simp] theorem dget_nil (k : κ) : Dict.get? ([] : Dict κ ν) k = none := rfl

theorem dget_set (d : Dict κ ν) (k k' : κ) (v : ν) :
    Dict.get? (Dict.set d k v) k' = if k = k' then some v else Dict.get? d k' := by
  induction d with
  | nil => simp [Dict.set, Dict.get?]
  | cons p rest ih =>
    obtain ⟨a, b⟩ := p
    simp only [Dict.set]
    by_cases h : a = k
    · subst h
      by_cases h2 : a = k' <;> simp [Dict.get?, h2]
    · simp only [h, if_false, Dict.get?]
      by_cases h2 : a = k'
      · subst h2
        have : ¬ k = a := fun e => h e.symm
        simp [this]
      · simp [h2, ih]

theorem dget_erase (d : Dict κ ν) (k k' : κ) :
    Dict.get? (Dict.erase d k) k' = if k = k' then none else Dict.get? d k' := by
  induction d with
  | nil => simp [Dict.erase, Dict.get?]
  | cons p rest ih =>
    obtain ⟨a, b⟩ := p
    simp only [Dict.erase]
    by_cases h : a = k
    · subst h
      by_cases h2 : a = k'
      · subst h2; simpa using ih
      · simp [h2, ih, Dict.get?]
    · simp only [h, if_false, Dict.get?]
      by_cases h2 : a = k'
      · subst h2
        have : ¬ k = a := fun e => h e.symm
        simp [this]
      · simp [h2, ih]

theorem dget_mem_values (d : Dict κ ν) (k : κ) (v : ν) (h : Dict.get? d k = some v) :
    v ∈ Dict.values d := by
  induction d with
  | nil => simp at h
  | cons p rest ih =>
    obtain ⟨a, b⟩ := p
    simp only [Dict.get?] at h
    by_cases h2 : a = k
    · simp [h2] at h; simp [Dict.values, h]
    · simp [h2] at h
      have := ih h
      simp only [Dict.values, List.map_cons, List.mem_cons]
      exact Or.inr this

end dict

/-! ### store accessors -/

@[simp] theorem m_setM (st : St) (i j : MId) (n : MapNode) :
    (st.setM i n).m j = if i = j then n else st.m j := by
  simp only [St.m, St.setM, dget_set]
  by_cases h : i = j <;> simp [h]

@[simp] theorem h_setM (st : St) (i : MId) (n : MapNode) (g : HId) : (st.setM i n).h g = st.h g := rfl
@[simp] theorem s_setM (st : St) (i : MId) (n : MapNode) (s : Nat) : (st.setM i n).s s = st.s s := rfl
@[simp] theorem next_setM (st : St) (i : MId) (n : MapNode) : (st.setM i n).next = st.next := rfl
@[simp] theorem snaps_setM (st : St) (i : MId) (n : MapNode) : (st.setM i n).snaps = st.snaps := rfl
@[simp] theorem snext_setM (st : St) (i : MId) (n : MapNode) : (st.setM i n).snext = st.snext := rfl

@[simp] theorem h_setH (st : St) (g g' : HId) (n : HNode) :
    (st.setH g n).h g' = if g = g' then n else st.h g' := by
  simp only [St.h, St.setH, dget_set]
  by_cases h : g = g' <;> simp [h]

@[simp] theorem failing_setH (st : St) (g : HId) (n : HNode) : (st.setH g n).failing = st.failing := rfl
@[simp] theorem failing_setM (st : St) (i : MId) (n : MapNode) : (st.setM i n).failing = st.failing := rfl
@[simp] theorem m_setH (st : St) (g : HId) (n : HNode) (i : MId) : (st.setH g n).m i = st.m i := rfl
@[simp] theorem s_setH (st : St) (g : HId) (n : HNode) (s : Nat) : (st.setH g n).s s = st.s s := rfl
@[simp] theorem next_setH (st : St) (g : HId) (n : HNode) : (st.setH g n).next = st.next := rfl
@[simp] theorem snaps_setH (st : St) (g : HId) (n : HNode) : (st.setH g n).snaps = st.snaps := rfl
@[simp] theorem snext_setH (st : St) (g : HId) (n : HNode) : (st.setH g n).snext = st.snext := rfl

@[simp] theorem m_next (st : St) (n : Nat) (i : MId) : ({ st with next := n } : St).m i = st.m i := rfl
@[simp] theorem h_next (st : St) (n : Nat) (g : HId) : ({ st with next := n } : St).h g = st.h g := rfl

@[simp] theorem m_bump (st : St) (i : MId) : st.bump.m i = st.m i := rfl
@[simp] theorem h_bump (st : St) (g : HId) : st.bump.h g = st.h g := rfl
@[simp] theorem next_bump (st : St) : st.bump.next = st.next + 1 := rfl

@[simp] theorem m_initF (F : HId → Nat → Bool) (i : MId) : (init F).m i = {} := rfl
@[simp] theorem h_initF (F : HId → Nat → Bool) (g : HId) : (init F).h g = {} := rfl
@[simp] theorem m_init (i : MId) : ({} : St).m i = {} := rfl
@[simp] theorem h_init (g : HId) : ({} : St).h g = {} := rfl

/-! ### `key.split('/')` -/

theorem splitChars_ne_nil (sep : Char) (cs : List Char) : splitChars sep cs ≠ [] := by
  induction cs with
  | nil => simp [splitChars]
  | cons c cs ih =>
    simp only [splitChars]
    split
    · simp
    · split <;> simp

theorem splitChars_single (sep : Char) (w : List Char) (hw : sep ∉ w) : splitChars sep w = [w] := by
  induction w with
  | nil => rfl
  | cons c cs ih =>
    simp only [List.mem_cons, not_or] at hw
    have hc : ¬ c = sep := fun e => hw.1 e.symm
    simp [splitChars, hc, ih hw.2]

theorem splitChars_append (sep : Char) (w rest : List Char) (hw : sep ∉ w) :
    splitChars sep (w ++ sep :: rest) = w :: splitChars sep rest := by
  induction w with
  | nil => simp [splitChars]
  | cons c cs ih =>
    simp only [List.mem_cons, not_or] at hw
    have hc : ¬ c = sep := fun e => hw.1 e.symm
    simp [splitChars, hc, ih hw.2]

theorem splitChars_intercalate (sep : Char) (ws : List (List Char)) (hne : ws ≠ [])
    (hw : ∀ w ∈ ws, sep ∉ w) : splitChars sep (List.intercalate [sep] ws) = ws := by
  induction ws with
  | nil => exact absurd rfl hne
  | cons w rest ih =>
    cases rest with
    | nil => simpa [List.intercalate] using splitChars_single sep w (hw w (by simp))
    | cons w2 rest2 =>
      have h1 : List.intercalate [sep] (w :: w2 :: rest2)
          = w ++ sep :: List.intercalate [sep] (w2 :: rest2) := by
        simp [List.intercalate, List.intersperse]
      rw [h1, splitChars_append sep w _ (hw w (by simp))]
      rw [ih (by simp) (fun x hx => hw x (List.mem_cons_of_mem _ hx))]

/-- a name that can be a path component -/
def NoSlash (k : String) : Prop := '/' ∉ k.toList

theorem splitKey_joinKey (ks : List String) (hne : ks ≠ []) (hk : ∀ k ∈ ks, NoSlash k) :
    splitKey (joinKey ks) = ks := by
  unfold splitKey joinKey
  rw [String.toList_ofList, splitChars_intercalate]
  · simp [List.map_map, Function.comp_def, String.ofList_toList]
  · simpa using hne
  · intro w hw
    simp only [List.mem_map] at hw
    obtain ⟨k, hk1, rfl⟩ := hw
    exact hk k hk1

theorem keyPath_joinKey (ks : List String) (last : String) (hk : ∀ k ∈ ks ++ [last], NoSlash k) :
    keyPath (joinKey (ks ++ [last])) = (ks, last) := by
  unfold keyPath
  rw [splitKey_joinKey _ (by simp) hk]
  simp

end Desper.Tree
