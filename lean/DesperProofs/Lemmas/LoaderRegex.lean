import DesperModel.Loader
/-
  Lemmas about the regular-expression functions and the argument transformers of the loader model.
-/
namespace Desper.Loader

/-! ### `stripPrefix`, `group`, `reMatch` -/

theorem stripPrefix_append (p s : Str) : stripPrefix p (p ++ s) = some s := by
  induction p with
  | nil => cases s <;> rfl
  | cons c p ih => simp [stripPrefix, ih]

theorem stripPrefix_eq_some {p s r : Str} (h : stripPrefix p s = some r) : s = p ++ r := by
  induction p generalizing s with
  | nil => cases s <;> simp_all [stripPrefix]
  | cons c p ih =>
    cases s with
    | nil => simp [stripPrefix] at h
    | cons d s =>
      simp only [stripPrefix] at h
      split at h
      · rename_i hcd; subst hcd; simp [ih h]
      · simp at h

/-- a string that does not begin with the marker is not matched (`re.match` is anchored) -/
theorem reMatch_none_of_not_prefix {marker s : Str} (h : marker.isPrefixOf s = false) :
    reMatch marker s = none := by
  unfold reMatch
  cases hs : stripPrefix marker s with
  | none => rfl
  | some r =>
    have := stripPrefix_eq_some hs
    subst this
    have hp : marker <+: marker ++ r := List.prefix_append _ _
    rw [← List.isPrefixOf_iff_prefix] at hp
    rw [hp] at h
    cases h

theorem firstLine_of_no_newline {cs : Str} (h : '\n' ∉ cs) : firstLine cs = cs := by
  unfold firstLine
  induction cs with
  | nil => rfl
  | cons c cs ih =>
    have hc : c ≠ '\n' := fun e => h (e ▸ List.mem_cons_self ..)
    have := ih (fun hm => h (List.mem_cons_of_mem _ hm))
    simp only [ne_eq, decide_not] at this ⊢
    simp [List.takeWhile, hc, this]

theorem beforeLastBrace_append_brace (name : Str) : beforeLastBrace (name ++ ['}']) = some name := by
  induction name with
  | nil => simp [beforeLastBrace]
  | cons c name ih => simp [beforeLastBrace, ih]

/-- `(.+)\}` on `name}`: the group is the whole non-empty, newline-free `name`, also when the name
itself contains `}` (the greedy `.+` goes to the last one) -/
theorem group_name_brace {name : Str} (hne : name ≠ []) (hnl : '\n' ∉ name) :
    group (name ++ ['}']) = some name := by
  have h1 : '\n' ∉ name ++ ['}'] := by
    simp only [List.mem_append, List.mem_singleton, not_or]
    exact ⟨hnl, by decide⟩
  unfold group
  rw [firstLine_of_no_newline h1, beforeLastBrace_append_brace]
  cases name with
  | nil => exact absurd rfl hne
  | cons c r => rfl

theorem reMatch_exact (marker : Str) {name : Str} (hne : name ≠ []) (hnl : '\n' ∉ name) :
    reMatch marker (marker ++ (name ++ ['}'])) = some name := by
  unfold reMatch
  rw [stripPrefix_append]
  exact group_name_brace hne hnl

/-! ### the markers exclude each other -/

theorem reMatch_obj_of_res (s : Str) : reMatch objMarker (resMarker ++ s) = none := by
  simp [reMatch, objMarker, resMarker, stripPrefix]

theorem reMatch_obj_of_handle (s : Str) : reMatch objMarker (handleMarker ++ s) = none := by
  simp [reMatch, objMarker, handleMarker, stripPrefix]

theorem reMatch_res_of_handle (s : Str) : reMatch resMarker (handleMarker ++ s) = none := by
  simp [reMatch, resMarker, handleMarker, stripPrefix]

theorem reMatch_res_of_obj (s : Str) : reMatch resMarker (objMarker ++ s) = none := by
  simp [reMatch, objMarker, resMarker, stripPrefix]

theorem reMatch_handle_of_obj (s : Str) : reMatch handleMarker (objMarker ++ s) = none := by
  simp [reMatch, objMarker, handleMarker, stripPrefix]

/-! ### `'/'.join(name.split('.'))` replaces every dot by a slash -/

theorem splitOn_ne_nil (sep : Char) (cs : Str) : splitOn sep cs ≠ [] := by
  cases cs with
  | nil => simp [splitOn]
  | cons c cs =>
    simp only [splitOn]
    split <;> split <;> simp

theorem joinWith_cons_cons (sep : Char) (c : Char) (w : Str) (ws : List Str) :
    joinWith sep ((c :: w) :: ws) = c :: joinWith sep (w :: ws) := by
  cases ws <;> simp [joinWith]

theorem resPath_eq_map (name : Str) :
    resPath name = name.map (fun c => if c = '.' then '/' else c) := by
  unfold resPath
  induction name with
  | nil => simp [splitOn, joinWith]
  | cons c cs ih =>
    simp only [splitOn]
    cases h : splitOn '.' cs with
    | nil => exact absurd h (splitOn_ne_nil _ _)
    | cons w ws =>
      rw [h] at ih
      by_cases hc : c = '.'
      · subst hc
        simp only [ite_true, List.map_cons, joinWith, List.nil_append]
        rw [ih]
      · simp only [hc, ite_false, List.map_cons]
        rw [joinWith_cons_cons, ih]

/-! ### the two `map_function`s -/

/-- does the string begin with `${`, `$res{` or `$handle{` -/
def beginsWithMarker (s : Str) : Bool :=
  objMarker.isPrefixOf s || resMarker.isPrefixOf s || handleMarker.isPrefixOf s

/-- does the string begin with `$res{` or `$handle{` -/
def beginsWithResourceMarker (s : Str) : Bool :=
  resMarker.isPrefixOf s || handleMarker.isPrefixOf s

/-- a value the resource transformer leaves alone -/
def NotResourceRef : Val → Prop
  | .json (.str s) => beginsWithResourceMarker s = false
  | _ => True

theorem resourceMap_of_notResourceRef (U : Universe) {v : Val} (h : NotResourceRef v) :
    resourceMap U v = .ok v := by
  cases v with
  | json j =>
    cases j with
    | str s =>
      simp only [NotResourceRef, beginsWithResourceMarker, Bool.or_eq_false_iff] at h
      simp [resourceMap, reMatch_none_of_not_prefix h.1, reMatch_none_of_not_prefix h.2]
    | _ => rfl
  | _ => rfl

theorem transformArg_passthrough (U : Universe) (v : Val)
    (h : ∀ s, v = .json (.str s) → beginsWithMarker s = false) : transformArg U v = .ok v := by
  cases v with
  | json j =>
    cases j with
    | str s =>
      have hs := h s rfl
      simp only [beginsWithMarker, Bool.or_eq_false_iff] at hs
      obtain ⟨⟨h1, h2⟩, h3⟩ := hs
      simp [transformArg, objectMap, resourceMap, reMatch_none_of_not_prefix h1,
        reMatch_none_of_not_prefix h2, reMatch_none_of_not_prefix h3]
    | _ => rfl
  | _ => rfl

/-! ### `mapE` -/

/-- pointwise relation between two lists of the same length -/
inductive All₂ {α β : Type} (R : α → β → Prop) : List α → List β → Prop
  | nil : All₂ R [] []
  | cons {a b as bs} : R a b → All₂ R as bs → All₂ R (a :: as) (b :: bs)

theorem mapE_ok_forall₂ {α β : Type} {f : α → Except Exc β} {l : List α} {r : List β}
    (h : mapE f l = .ok r) : All₂ (fun a b => f a = .ok b) l r := by
  induction l generalizing r with
  | nil => simp [mapE] at h; subst h; exact .nil
  | cons a as ih =>
    simp only [mapE] at h
    split at h
    · simp at h
    · rename_i b hb
      split at h
      · simp at h
      · rename_i bs hbs
        simp at h; subst h
        exact .cons hb (ih hbs)

theorem mapE_ok_of_forall {α β : Type} {f : α → Except Exc β} {g : α → β} {l : List α}
    (h : ∀ a ∈ l, f a = .ok (g a)) : mapE f l = .ok (l.map g) := by
  induction l with
  | nil => rfl
  | cons a as ih =>
    simp only [mapE, h a (List.mem_cons_self ..)]
    rw [ih (fun x hx => h x (List.mem_cons_of_mem _ hx))]
    rfl

theorem all₂_comp_ok {f g : Val → Except Exc Val} {l m r : List Val}
    (h1 : All₂ (fun a b => f a = .ok b) l m) (h2 : All₂ (fun a b => g a = .ok b) m r) :
    All₂ (fun a c => ∃ b, f a = .ok b ∧ g b = .ok c) l r := by
  induction h1 generalizing r with
  | nil => cases h2; exact .nil
  | cons hab _ ih =>
    cases h2 with
    | cons hbc h2' => exact .cons ⟨_, hab, hbc⟩ (ih h2')

end Desper.Loader
