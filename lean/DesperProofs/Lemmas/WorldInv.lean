import DesperProofs.Lemmas.WorldLog
/-
  The component tables invariant: `_components` is the transpose of `_entities`.
-/
namespace Desper.World
open Desper

structure TabInv (U : Universe) (s : St) : Prop where
  /-- index and rows tell the same story -/
  transpose : ∀ e t, e ∈ idx s t ↔ (Dict.get? (row s e) t).isSome
  idxNodup : ∀ t, (idx s t).Nodup
  /-- a component is filed under its exact type -/
  rowTyped : ∀ e t c, Dict.get? (row s e) t = some c → tyOf U c = t
  /-- empty rows are dropped -/
  noEmptyRow : ∀ e r, Dict.get? s.ents e = some r → r ≠ []
  entKeys : (Dict.keys s.ents).Nodup
  rowKeys : ∀ e, (Dict.keys (row s e)).Nodup

theorem tabInv_init (U : Universe) (hints : List (List Ent)) : TabInv U { sweepHints := hints } := by
  refine ⟨?_, ?_, ?_, ?_, ?_, ?_⟩ <;> simp [idx, row, Dict.keys]

theorem tabInv_of_tables {U : Universe} {s s' : St} (h : TabInv U s) (he : s'.ents = s.ents)
    (hc : s'.comps = s.comps) : TabInv U s' := by
  have hr : ∀ e, row s' e = row s e := fun e => row_of_ents he e
  have hi : ∀ t, idx s' t = idx s t := fun t => idx_of_comps hc t
  refine ⟨?_, ?_, ?_, ?_, ?_, ?_⟩
  · intro e t; rw [hi, hr]; exact h.transpose e t
  · intro t; rw [hi]; exact h.idxNodup t
  · intro e t c; rw [hr]; exact h.rowTyped e t c
  · intro e r; rw [he]; exact h.noEmptyRow e r
  · rw [he]; exact h.entKeys
  · intro e; rw [hr]; exact h.rowKeys e

theorem tabInv_sameTables {U : Universe} {s s' : St} (h : TabInv U s) (t : SameTables U s s') :
    TabInv U s' := tabInv_of_tables h t.ents t.comps

theorem row_eq_of_get? {s : St} {e : Ent} {r : Dict Ty Obj} (h : Dict.get? s.ents e = some r) :
    row s e = r := by simp [row, h]

theorem tabInv_detach {U : Universe} {s : St} (h : TabInv U s) (e : Ent) (st : Ty) :
    TabInv U (detach s e st) := by
  refine ⟨?_, ?_, ?_, ?_, ?_, ?_⟩
  · intro e' t
    rw [idx_detach, row_detach]
    by_cases hst : st = t
    · subst hst
      simp only [if_true, List.mem_filter, and_true]
      by_cases hee : e = e'
      · subst hee; simp
      · have : ¬ e' = e := fun x => hee x.symm
        simp only [hee, if_false, ne_eq, this, not_false_eq_true, decide_true, and_true]
        exact h.transpose e' st
    · simp only [hst, if_false, and_false]
      exact h.transpose e' t
  · intro t
    rw [idx_detach]
    split
    · exact (h.idxNodup st).sublist List.filter_sublist
    · exact h.idxNodup t
  · intro e' t c hc
    rw [row_detach] at hc
    split at hc
    · simp at hc
    · exact h.rowTyped e' t c hc
  · intro e' r hr
    rw [detach_ents] at hr
    split at hr
    · rw [Dict.get?_erase] at hr
      split at hr
      · simp at hr
      · exact h.noEmptyRow e' r hr
    · rename_i hne
      rw [Dict.get?_set] at hr
      split at hr
      · simp only [Option.some.injEq] at hr
        subst hr
        intro hnil
        apply hne; rw [hnil]; rfl
      · exact h.noEmptyRow e' r hr
  · rw [detach_ents]
    split
    · exact Dict.keys_nodup_erase _ _ h.entKeys
    · exact Dict.keys_nodup_set _ _ _ h.entKeys
  · intro e'
    have hrow : row (detach s e st) e' = if e = e' then Dict.erase (row s e) st else row s e' := by
      show ((Dict.get? (detach s e st).ents e').getD []) = _
      rw [detach_ents]
      by_cases hr : (Dict.erase (row s e) st).isEmpty = true
      · simp only [hr, if_true, Dict.get?_erase]
        split
        · simp only [Option.getD_none]
          exact (List.isEmpty_iff.mp hr).symm
        · rfl
      · simp only [hr, Bool.false_eq_true, if_false, Dict.get?_set]
        split
        · rfl
        · rfl
    rw [hrow]
    split
    · exact Dict.keys_nodup_erase _ _ (h.rowKeys e)
    · exact h.rowKeys e'

theorem row_attachTables (U : Universe) (s : St) (e e' : Ent) (c : Obj) (t : Ty) :
    Dict.get? (row (attachTables U s e c) e') t =
      if e = e' ∧ tyOf U c = t then some c else Dict.get? (row s e') t := by
  have hrow : row (attachTables U s e c) e' =
      if e = e' then Dict.set (row s e) (tyOf U c) c else row s e' := by
    show ((Dict.get? (Dict.set s.ents e (Dict.set (row s e) (tyOf U c) c)) e').getD []) = _
    rw [Dict.get?_set]
    split
    · rfl
    · rfl
  rw [hrow]
  by_cases he : e = e'
  · subst he
    simp only [if_true, true_and, Dict.get?_set]
  · simp [he]

theorem idx_attachTables (U : Universe) (s : St) (e : Ent) (c : Obj) (t : Ty) :
    idx (attachTables U s e c) t = if tyOf U c = t then setAdd (idx s (tyOf U c)) e else idx s t := by
  show ((Dict.get? (Dict.set s.comps (tyOf U c) (setAdd (idx s (tyOf U c)) e)) t).getD []) = _
  rw [Dict.get?_set]
  split
  · rfl
  · rfl

theorem setAdd_nodup {α : Type} [DecidableEq α] (l : List α) (a : α) (h : l.Nodup) :
    (setAdd l a).Nodup := by
  unfold setAdd
  split
  · exact h
  · rename_i hn
    rw [List.nodup_append]
    refine ⟨h, by simp, ?_⟩
    intro x hx y hy
    simp only [List.mem_singleton] at hy
    subst hy
    intro e; subst e; exact hn hx

theorem tabInv_attachTables {U : Universe} {s : St} (h : TabInv U s) (e : Ent) (c : Obj) :
    TabInv U (attachTables U s e c) := by
  refine ⟨?_, ?_, ?_, ?_, ?_, ?_⟩
  · intro e' t
    rw [idx_attachTables, row_attachTables]
    by_cases ht : tyOf U c = t
    · subst ht
      simp only [if_true, mem_setAdd, and_true]
      by_cases hee : e = e'
      · subst hee; simp
      · have : ¬ e' = e := fun x => hee x.symm
        simp only [hee, if_false, this, or_false]
        exact h.transpose e' _
    · simp only [ht, if_false, and_false]
      exact h.transpose e' t
  · intro t
    rw [idx_attachTables]
    split
    · exact setAdd_nodup _ _ (h.idxNodup _)
    · exact h.idxNodup t
  · intro e' t c' hc
    rw [row_attachTables] at hc
    split at hc
    · rename_i hh
      simp only [Option.some.injEq] at hc
      subst hc; exact hh.2
    · exact h.rowTyped e' t c' hc
  · intro e' r hr
    have : (attachTables U s e c).ents = Dict.set s.ents e (Dict.set (row s e) (tyOf U c) c) := rfl
    rw [this, Dict.get?_set] at hr
    split at hr
    · simp only [Option.some.injEq] at hr
      subst hr
      intro hnil
      have := Dict.get?_set (row s e) (tyOf U c) (tyOf U c) c
      rw [hnil] at this
      simp at this
    · exact h.noEmptyRow e' r hr
  · exact Dict.keys_nodup_set _ _ _ h.entKeys
  · intro e'
    have hrow : row (attachTables U s e c) e' =
        if e = e' then Dict.set (row s e) (tyOf U c) c else row s e' := by
      show ((Dict.get? (Dict.set s.ents e (Dict.set (row s e) (tyOf U c) c)) e').getD []) = _
      rw [Dict.get?_set]
      split
      · rfl
      · rfl
    rw [hrow]
    split
    · exact Dict.keys_nodup_set _ _ _ (h.rowKeys e)
    · exact h.rowKeys e'

end Desper.World

namespace Desper.World
open Desper

theorem tabInv_removeComponent {U : Universe} [U.NoReenter] {s : St} (h : TabInv U s) (e : Ent) (t : Ty) :
    TabInv U (removeComponent U s e t).1 := by
  rcases removeComponent_spec U s e t with ⟨_, heq⟩ | ⟨st, c, _, _, _, hsame⟩
  · rw [heq]; exact h
  · exact tabInv_sameTables (tabInv_detach h e st) hsame

theorem tabInv_removeTypes {U : Universe} [U.NoReenter] {s : St} (h : TabInv U s) (e : Ent) (ts : List Ty) :
    TabInv U (removeTypes U s e ts).1 := by
  induction ts generalizing s with
  | nil => exact h
  | cons t ts ih =>
    simp only [removeTypes]
    have h1 := tabInv_removeComponent h e t
    cases hx : removeComponent U s e t with
    | mk s' r =>
      obtain ⟨o, c⟩ := r
      rw [hx] at h1
      cases o <;> simp only
      · exact ih h1
      all_goals exact h1

theorem tabInv_foldAttach {U : Universe} (e : Ent) (cs : List Obj) {s : St} (h : TabInv U s) :
    TabInv U (cs.foldl (fun s c => attachTables U s e c) s) := by
  induction cs generalizing s with
  | nil => exact h
  | cons c cs ih => exact ih (tabInv_attachTables h e c)

theorem tabInv_createEntity {U : Universe} [U.NoReenter] {s : St} (h : TabInv U s) (id? : Option Ent)
    (cs : List Obj) : TabInv U (createEntity U s id? cs).1 := by
  unfold createEntity
  have key : ∀ (s0 : St) (e : Ent), TabInv U s0 →
      TabInv U (match removeTypes U s0 e ((Dict.keys (row s0 e)).filter
          (fun t => cs.any (fun c => tyOf U c = t))) with
        | (s, .ok) =>
          match attachAll U (cs.foldl (fun s c => attachTables U s e c) s) e cs with
          | (s, o) => (s, o, e)
        | (s, o) => (s, o, e)).1 := by
    intro s0 e h0
    have h1 := tabInv_removeTypes h0 e ((Dict.keys (row s0 e)).filter
      (fun t => cs.any (fun c => tyOf U c = t)))
    cases hx : removeTypes U s0 e ((Dict.keys (row s0 e)).filter
        (fun t => cs.any (fun c => tyOf U c = t))) with
    | mk s' o =>
      rw [hx] at h1
      cases o <;> simp only
      · exact tabInv_sameTables (tabInv_foldAttach e cs h1) (attachAll_tables U _ e cs)
      all_goals exact h1
  cases id? with
  | some e => exact key s e h
  | none =>
    simp only
    exact key _ _ (tabInv_of_tables h rfl rfl)

theorem tabInv_addComponent {U : Universe} [U.NoReenter] {s : St} (h : TabInv U s) (e : Ent) (c : Obj) :
    TabInv U (addComponent U s e c).1 := by
  unfold addComponent
  simp only
  split
  · rename_i s' hx
    have h1 : TabInv U s' := by
      split at hx
      · have := tabInv_removeComponent h e (tyOf U c)
        simp only [Prod.mk.injEq] at hx
        rw [← hx.1]; exact this
      · simp only [Prod.mk.injEq] at hx; rw [← hx.1]; exact h
    exact tabInv_sameTables (tabInv_attachTables h1 e c) (attachEvents_tables U _ c (some e))
  · rename_i r hne
    split
    · exact tabInv_removeComponent h e (tyOf U c)
    · exact h

theorem tabInv_deleteEntity {U : Universe} [U.NoReenter] {s : St} (h : TabInv U s) (e : Ent) (imm : Bool) :
    TabInv U (deleteEntity U s e imm).1 := by
  unfold deleteEntity
  split
  · split
    · exact h
    · exact tabInv_removeTypes h e _
  · exact tabInv_of_tables h rfl rfl

theorem tabInv_sweep {U : Universe} [U.NoReenter] {s : St} (h : TabInv U s) (es : List Ent) :
    TabInv U (sweep U s es).1 := by
  induction es generalizing s with
  | nil => exact h
  | cons e es ih =>
    simp only [sweep]
    split
    · exact h
    · rename_i r hr
      have h1 := tabInv_removeTypes h e (Dict.keys r)
      cases hx : removeTypes U s e (Dict.keys r) with
      | mk s' o =>
        rw [hx] at h1
        cases o <;> simp only
        · exact ih h1
        all_goals exact h1

theorem tabInv_process {U : Universe} [U.NoReenter] {s : St} (h : TabInv U s) (dt : String) :
    TabInv U (process U s dt).1 := by
  unfold process
  have h1 : TabInv U (clearDead U s).1 := by
    unfold clearDead
    split
    · exact h
    · exact tabInv_sweep (s := { s with dead := [], sweepHints := s.sweepHints.drop 1 })
        (tabInv_of_tables h rfl rfl) _
  cases hx : clearDead U s with
  | mk s' o =>
    rw [hx] at h1
    cases o <;> simp only
    · exact tabInv_sameTables h1 (runProcs_tables U s' dt _)
    all_goals exact h1

theorem removeProcessor_ents (U : Universe) [U.NoReenter] (s : St) (t : Ty) :
    (removeProcessor U s t).1.ents = s.ents ∧ (removeProcessor U s t).1.comps = s.comps ∧
    (U.Passive → (removeProcessor U s t).1.dead = s.dead) ∧ (removeProcessor U s t).1.nextId = s.nextId := by
  rcases removeProcessor_spec U s t with ⟨_, heq⟩ | ⟨st, p, _, _, _, hsame⟩
  · rw [heq]; exact ⟨rfl, rfl, fun _ => rfl, rfl⟩
  · exact ⟨hsame.ents, hsame.comps, hsame.dead, hsame.nextId⟩

theorem addProcessor_ents (U : Universe) [U.NoReenter] (s : St) (p : Obj) (prio? : Option Int) :
    (addProcessor U s p prio?).1.ents = s.ents ∧ (addProcessor U s p prio?).1.comps = s.comps ∧
    (U.Passive → (addProcessor U s p prio?).1.dead = s.dead) ∧
    (addProcessor U s p prio?).1.nextId = s.nextId := by
  unfold addProcessor
  simp only
  have hsp : ∀ s1 : St, (setPrio s1 p prio?).ents = s1.ents ∧ (setPrio s1 p prio?).comps = s1.comps ∧
      (setPrio s1 p prio?).dead = s1.dead ∧ (setPrio s1 p prio?).nextId = s1.nextId := by
    intro s1; cases prio? <;> exact ⟨rfl, rfl, rfl, rfl⟩
  split
  · rename_i s1 hx
    have h1 : s1.ents = s.ents ∧ s1.comps = s.comps ∧ (U.Passive → s1.dead = s.dead) ∧
        s1.nextId = s.nextId := by
      split at hx
      · simp only [Prod.mk.injEq] at hx
        rw [← hx.1]; exact removeProcessor_ents U s _
      · simp only [Prod.mk.injEq] at hx; rw [← hx.1]; exact ⟨rfl, rfl, fun _ => rfl, rfl⟩
    have h2 := attachEvents_tables U (insertProc U (setPrio s1 p prio?) p) p none
    obtain ⟨a, b, c, d⟩ := hsp s1
    exact ⟨h2.ents.trans (a.trans h1.1), h2.comps.trans (b.trans h1.2.1),
      fun hp => (h2.dead hp).trans (c.trans (h1.2.2.1 hp)), h2.nextId.trans (d.trans h1.2.2.2)⟩
  · rename_i r hne
    split
    · exact removeProcessor_ents U s _
    · exact ⟨rfl, rfl, fun _ => rfl, rfl⟩

theorem tabInv_deleteAll {U : Universe} [U.NoReenter] {s : St} (h : TabInv U s) (es : List Ent) :
    TabInv U (deleteAll U s es).1 := by
  induction es generalizing s with
  | nil => exact h
  | cons e es ih =>
    simp only [deleteAll]
    have h1 := tabInv_deleteEntity h e true
    cases hx : deleteEntity U s e true with
    | mk s' o =>
      rw [hx] at h1
      cases o <;> simp only
      · exact ih h1
      all_goals exact h1

theorem tabInv_removeProcs {U : Universe} [U.NoReenter] {s : St} (h : TabInv U s) (ps : List Obj) :
    TabInv U (removeProcs U s ps).1 := by
  induction ps generalizing s with
  | nil => exact h
  | cons p ps ih =>
    simp only [removeProcs]
    have h1 : TabInv U (removeProcessor U s (tyOf U p)).1 :=
      tabInv_of_tables h (removeProcessor_ents U s _).1 (removeProcessor_ents U s _).2.1
    cases hx : removeProcessor U s (tyOf U p) with
    | mk s' r =>
      obtain ⟨o, c⟩ := r
      rw [hx] at h1
      cases o <;> simp only
      · exact ih h1
      all_goals exact h1

theorem tabInv_clear {U : Universe} [U.NoReenter] {s : St} (h : TabInv U s) : TabInv U (clear U s).1 := by
  unfold clear
  have h1 := tabInv_deleteAll h (Dict.keys s.ents)
  cases hx : deleteAll U s (Dict.keys s.ents) with
  | mk s1 o =>
    rw [hx] at h1
    cases o <;> simp only
    · have h2 : TabInv U { s1 with dead := [] } := tabInv_of_tables h1 rfl rfl
      have h3 := tabInv_removeProcs h2 { s1 with dead := [] }.sorted
      cases hy : removeProcs U { s1 with dead := [] } { s1 with dead := [] }.sorted with
      | mk s2 o2 =>
        rw [hy] at h3
        cases o2 <;> simp only
        · exact tabInv_of_tables h3 rfl rfl
        all_goals exact h3
    all_goals exact h1

theorem tabInv_step {U : Universe} [U.NoReenter] {s : St} (h : TabInv U s) (op : Op) : TabInv U (step U s op).1 := by
  cases op with
  | create id? cs => exact tabInv_createEntity h id? cs
  | add e c => exact tabInv_addComponent h e c
  | remove e t => exact tabInv_removeComponent h e t
  | delete e imm => exact tabInv_deleteEntity h e imm
  | process dt => exact tabInv_process h dt
  | clear => exact tabInv_clear h
  | addProc p prio? =>
    exact tabInv_of_tables h (addProcessor_ents U s p prio?).1 (addProcessor_ents U s p prio?).2.1
  | rmProc t => exact tabInv_of_tables h (removeProcessor_ents U s t).1 (removeProcessor_ents U s t).2.1
  | enable b => exact tabInv_sameTables h (setEnabled_tables U s b)
  | dispatch ev args => exact tabInv_sameTables h (dispatchPlain_tables U s ev args)

theorem tabInv_run {U : Universe} [U.NoReenter] {s : St} (h : TabInv U s) (ops : List Op) : TabInv U (run U s ops) := by
  induction ops generalizing s with
  | nil => exact h
  | cons op ops ih => exact ih (tabInv_step h op)

end Desper.World
