import DesperProofs.Lemmas.CoroOrder
/-
  Lifecycle: a terminated (killed or unknown) generator stays terminated and does not run until it
  is started again; what is gone from the tables stays gone (used by Props/C09.lean).
-/
set_option linter.unusedSimpArgs false
set_option linter.unusedVariables false
namespace Desper.Coro
open Desper

/-- from `s` to `s'`, as long as `g` is not started again: terminated stays terminated, its code
does not run, and once it has no table entry it gets none -/
structure Frozen (g : Gen) (s s' : St) : Prop where
  mono : nStart s g ≤ nStart s' g
  dead : nStart s' g = nStart s g → Dead g s → Dead g s' ∧ s'.pc g = s.pc g
  gone : nStart s' g = nStart s g → s.gens g = none → s'.gens g = none

theorem Frozen.refl (g : Gen) (s : St) : Frozen g s s := ⟨Nat.le_refl _, fun _ h => ⟨h, rfl⟩, fun _ h => h⟩

theorem Frozen.trans {g : Gen} {a b c : St} (h1 : Frozen g a b) (h2 : Frozen g b c) : Frozen g a c := by
  have m1 := h1.mono; have m2 := h2.mono
  refine ⟨Nat.le_trans m1 m2, fun hn hd => ?_, fun hn hg => ?_⟩
  · obtain ⟨d1, p1⟩ := h1.dead (by omega) hd
    obtain ⟨d2, p2⟩ := h2.dead (by omega) d1
    exact ⟨d2, p2.trans p1⟩
  · exact h2.gone (by omega) (h1.gone (by omega) hg)

/-- nothing about `g` changed -/
theorem Frozen.of_eq {g : Gen} {s s' : St} (h1 : nStart s' g = nStart s g) (h2 : s'.gens g = s.gens g)
    (h3 : s'.kill g = s.kill g) (h4 : s'.pc g = s.pc g) : Frozen g s s' := by
  refine ⟨by omega, fun _ hd => ⟨?_, h4⟩, fun _ hg => by rw [h2]; exact hg⟩
  unfold Dead at *; rw [h2, h3]; exact hd

theorem start_frozen (U : Universe) (s : St) (h g : Gen) : Frozen g s (start U s h).1 := by
  unfold start
  split
  · exact Frozen.refl g s
  · split
    · exact Frozen.refl g s
    · have hinc : ∀ t : St, t.log = s.log → Frozen h s (startCommit t h).1 := by
        intro t ht
        have : nStart (startCommit t h).1 h = nStart s h + 1 := by
          rw [nStart_commit]; simp [nStart, ht]
        exact ⟨by omega, fun hn => by omega, fun hn => by omega⟩
      have hoth : ∀ t : St, t.log = s.log → t.gens g = s.gens g → t.kill g = s.kill g → t.pc = s.pc →
          h ≠ g → Frozen g s (startCommit t h).1 := by
        intro t h1 h2 h3 h4 hne
        exact Frozen.of_eq (by rw [nStart_commit]; simp [nStart, h1, hne])
          (by simp [startCommit, Ne.symm hne, h2]) (by simp [startCommit, h3]) (by simp [startCommit, h4])
      by_cases hg : h = g
      · subst hg
        split
        · simp only []
          cases hgens : s.gens h with
          | none => exact ⟨Nat.le_refl _, fun _ _ => ⟨.inl hgens, rfl⟩, fun _ hg => hg⟩
          | some w => cases w <;> exact hinc _ rfl
        · exact hinc _ rfl
      · split
        · simp only []
          cases hgens : s.gens h with
          | none => exact Frozen.of_eq rfl rfl (by simp [Ne.symm hg]) rfl
          | some w =>
            cases w
            · exact hoth _ rfl rfl (by simp [Ne.symm hg]) rfl hg
            · exact hoth _ rfl rfl (by simp [Ne.symm hg]) rfl hg
        · exact hoth _ rfl rfl rfl rfl hg

theorem kill_frozen (U : Universe) (s : St) (h g : Gen) : Frozen g s (kill U s h).1 := by
  unfold kill
  split
  · exact Frozen.refl g s
  · split
    · exact Frozen.refl g s
    · refine ⟨by simp [nStart, List.countP_cons, isStarted], fun _ hd => ⟨?_, rfl⟩, fun _ hg => hg⟩
      unfold Dead at *
      rcases hd with hd | hd
      · exact .inl hd
      · right; simp only [upd_apply]; split <;> simp [hd]

theorem push_frozen (s : St) (e : Entry) (g : Gen) (he : isStarted g e = false) : Frozen g s (s.push e) :=
  Frozen.of_eq (by simp [nStart, St.push, List.countP_cons, he]) rfl rfl rfl

theorem execAct_frozen (U : Universe) (x : Gen) (i : Nat) (s : St) (a : Act) (g : Gen) :
    Frozen g s (execAct U x i s a) := by
  cases a with
  | start h => exact (start_frozen U s h g).trans (push_frozen _ _ g rfl)
  | kill h => exact (kill_frozen U s h g).trans (push_frozen _ _ g rfl)
  | state h => simp only [execAct]; split <;> exact push_frozen _ _ g rfl

theorem execActs_frozen (U : Universe) (x : Gen) (i : Nat) (s : St) (acts : List Act) (g : Gen) :
    Frozen g s (execActs U x i s acts) := by
  induction acts generalizing s with
  | nil => exact Frozen.refl g s
  | cons a as ih => exact (execAct_frozen U x i s a g).trans (ih _)

/-- a body runs: nothing happens to a terminated `g` (the body is that of a live generator) -/
theorem runBody_frozen (U : Universe) (s : St) (x g : Gen) (hx : x = g → ¬ Dead g s) :
    Frozen g s (runBody U s x).1 := by
  unfold runBody
  split
  · exact Frozen.refl g s
  · dsimp only
    split
    · exact Frozen.of_eq rfl rfl rfl rfl
    · rename_i st _
      have k0 : Frozen g s { s with pc := upd s.pc x (s.pc x + 1), log := .step x (s.pc x) :: s.log } := by
        by_cases hxg : x = g
        · have hnd := hx hxg
          refine ⟨by simp [nStart, List.countP_cons, isStarted], fun _ hd => absurd hd hnd, fun _ hg => hg⟩
        · exact Frozen.of_eq (by simp [nStart, List.countP_cons, isStarted]) rfl rfl (by simp [Ne.symm hxg])
      have k1 := execActs_frozen U x (s.pc x)
        { s with pc := upd s.pc x (s.pc x + 1), log := .step x (s.pc x) :: s.log } st.acts g
      split
      · exact (k0.trans k1).trans (push_frozen _ _ g rfl)
      · exact (k0.trans k1).trans
          (Frozen.of_eq (by simp [nStart, List.countP_cons, isStarted]) rfl rfl rfl)
      · exact (k0.trans k1).trans
          (Frozen.of_eq (by simp [nStart, List.countP_cons, isStarted]) rfl rfl rfl)

theorem afterBody_frozen (b : St × Next) (x : Nat) (p : Nat) (g : Gen) (hg : x = g → b.1.gens g ≠ none) :
    Frozen g b.1 (afterBody b x p) := by
  have hn := nStart_afterBody b x p g
  by_cases hxg : x = g
  · subst hxg
    have hne := hg rfl
    refine ⟨by omega, fun _ hd => ?_, fun _ h0 => absurd h0 hne⟩
    unfold Dead at hd
    have hk : b.1.kill x = true := by
      rcases hd with h | h
      · exact absurd h hne
      · exact h
    unfold afterBody
    split
    · exact ⟨.inl (by simp [finishHead, dropHead]), rfl⟩
    · split
      · exact ⟨.inr (by simpa [pauseHead] using hk), rfl⟩
      · exact ⟨.inr (by simpa [rotHead] using hk), rfl⟩
    · exact ⟨.inr hk, rfl⟩
  · apply Frozen.of_eq hn
    · unfold afterBody
      split
      · simp [finishHead, dropHead, Ne.symm hxg]
      · split <;> simp [pauseHead, rotHead, Ne.symm hxg]
      · rfl
    · exact (afterBody_fields b x p).2.2.2 g (Ne.symm hxg)
    · rw [(afterBody_fields b x p).1]

theorem turn_frozen (U : Universe) [NoRaise U] {c : St} (I : Inv c) {x : Gen} {pend : List Gen}
    {done : List (Option Gen)} (h : Split c (x :: pend) done) (g : Gen) : Frozen g c (turn U c) := by
  obtain ⟨_, hc⟩ := turn_cases U I h
  rcases hc with ⟨hk, ht, _⟩ | ⟨hk, _, p, _, _, hg, _, ht, _⟩
  · rw [ht]
    by_cases hxg : x = g
    · subst hxg
      exact ⟨by simp [nStart, dropHead], fun _ _ => ⟨.inl (by simp [dropHead]), rfl⟩,
        fun _ _ => by simp [dropHead]⟩
    · exact Frozen.of_eq (by simp [nStart, dropHead]) (by simp [dropHead, Ne.symm hxg])
        (by simp [dropHead, Ne.symm hxg]) rfl
  · rw [ht]
    have hgc : c.gens x = some none := I.gens_of_active (by unfold Split at h; simp [h])
    refine (runBody_frozen U c x g (fun e => ?_)).trans (afterBody_frozen _ x p g (fun e => ?_))
    · subst e; unfold Dead; simp [hgc, hk]
    · subst e; simp [hg]

/-! ### the wake-up phase -/

theorem wakeOne_life {s : St} {r : Rec} {rs : List Rec} (I : InvP s (r :: rs)) (x : Gen) :
    (isRec x r = false → (wakeOne s r).1.gens x = s.gens x ∧ (wakeOne s r).1.kill x = s.kill x) ∧
    (isRec x r = true → s.gens x ≠ none ∧
      (s.kill x = true → (wakeOne s r).1.gens x = none) ∧
      (s.kill x = false → (wakeOne s r).1.gens x = some none ∧ (wakeOne s r).1.kill x = false)) := by
  unfold wakeOne
  cases r with | mk rg rd =>
  cases rg with
  | none => simp
  | some g =>
    unfold InvP at I
    have hmem : (⟨some g, rd⟩ : Rec) ∈ ({ s with waiting := (⟨some g, rd⟩ :: rs) ++ s.waiting } : St).waiting := by
      simp
    obtain ⟨d', hg⟩ := I.gens_of_waiting hmem
    obtain ⟨p, hp⟩ := I.promise_of_gens hg
    simp only at hg hp
    simp only [isRec_some, decide_eq_false_iff_not, decide_eq_true_eq]
    by_cases hk : s.kill g = true
    · simp only [hk, if_true, hg, hp, upd_apply]
      refine ⟨fun hne => ⟨by simp [Ne.symm hne], by simp [Ne.symm hne]⟩, fun e => ?_⟩
      subst e; simp [hg, hk]
    · simp only [hk, Bool.false_eq_true, if_false, upd_apply]
      refine ⟨fun hne => ⟨by simp [Ne.symm hne], by triv⟩, fun e => ?_⟩
      subst e; simp [hg]; simpa using hk

theorem wakeAll_life {s : St} {l : List Rec} (I : InvP s l) (x : Gen) :
    (Dead x s → Dead x (wakeAll s l).1) ∧ (s.gens x = none → (wakeAll s l).1.gens x = none) ∧
    ((∀ r ∈ l, isRec x r = false) → (wakeAll s l).1.gens x = s.gens x) ∧
    (s.kill x = true → (∃ r ∈ l, isRec x r = true) → (wakeAll s l).1.gens x = none) := by
  induction l generalizing s with
  | nil => simp [wakeAll]
  | cons r rs ih =>
    obtain ⟨h1, h2, _⟩ := wakeOne_spec I
    obtain ⟨f1, f2⟩ := wakeOne_life I x
    unfold wakeAll
    cases hw : wakeOne s r with | mk s' o =>
    rw [hw] at h1 h2 f1 f2
    simp only at h1 h2 f1 f2
    subst h1
    simp only []
    obtain ⟨g1, g2, g3, g4⟩ := ih h2
    cases hr : isRec x r with
    | false =>
      obtain ⟨e1, e2⟩ := f1 hr
      refine ⟨fun hd => g1 (by unfold Dead at *; rw [e1, e2]; exact hd), fun hg => g2 (by rw [e1]; exact hg),
        fun hall => by rw [g3 (fun r' hr' => hall r' (List.mem_cons_of_mem _ hr')), e1], fun hk hex => ?_⟩
      apply g4 (by rw [e2]; exact hk)
      obtain ⟨r', hr', hp⟩ := hex
      rcases List.mem_cons.mp hr' with e | e
      · subst e; simp [hr] at hp
      · exact ⟨r', e, hp⟩
    | true =>
      obtain ⟨e0, e1, e2⟩ := f2 hr
      have htail := I.tail_no_rec hr
      refine ⟨fun hd => ?_, fun hg => absurd hg e0, fun hall => ?_, fun hk _ => ?_⟩
      · unfold Dead at hd
        rcases hd with hd | hd
        · exact absurd hd e0
        · exact g1 (.inl (e1 hd))
      · have := hall r List.mem_cons_self; simp [hr] at this
      · rw [g3 htail]; exact e1 hk

theorem wake_frozen {s : St} (I : Inv s) (dt : Int) (hint : List Gen) (g : Gen) :
    Frozen g s (wakePhase s dt hint).1 ∧
    (s.kill g = true → (∃ d, (⟨some g, d⟩ : Rec) ∈ s.waiting ∧ d ≤ s.timer + dt) →
      (wakePhase s dt hint).1.gens g = none) := by
  unfold wakePhase
  split
  · rename_i he
    simp only [List.isEmpty_iff] at he
    exact ⟨Frozen.refl g s, fun _ ⟨d, hm, _⟩ => by simp [he] at hm⟩
  · simp only []
    have hperm : (sortRecs hint (s.waiting.filter (fun r => decide (r.deadline ≤ s.timer + dt))) ++
        s.waiting.filter (fun r => !decide (r.deadline ≤ s.timer + dt))).Perm s.waiting :=
      ((sortRecs_perm hint _).append_right _).trans (List.filter_append_perm _ _)
    have I2 : InvP ({ s with waiting := s.waiting.filter (fun r => !decide (r.deadline ≤ s.timer + dt)),
                             timer := s.timer + dt } : St)
        (sortRecs hint (s.waiting.filter (fun r => decide (r.deadline ≤ s.timer + dt)))) :=
      (I.perm hperm).frame rfl rfl rfl rfl rfl
    obtain ⟨k1, _, _⟩ := wakeAll_spec I2
    obtain ⟨l1, l2, _, l4⟩ := wakeAll_life I2 g
    obtain ⟨f1, _, _, f4, _⟩ := wakeAll_frame I2
    cases hw : wakeAll _ _ with | mk s' o =>
    rw [hw] at k1 l1 l2 l4 f1 f4
    simp only at k1 l1 l2 l4 f1 f4
    subst k1
    simp only []
    have hres : ∀ (t : St), (if s'.waiting.isEmpty = true then { s' with timer := 0 } else s') = t →
        t.pc = s'.pc ∧ t.gens = s'.gens ∧ t.log = s'.log ∧ t.kill = s'.kill := by
      intro t ht; subst ht; split <;> exact ⟨rfl, rfl, rfl, rfl⟩
    obtain ⟨r1, r2, r3, r4⟩ := hres _ rfl
    have hn : ∀ t : St, t.log = s'.log → nStart t g = nStart s g := by
      intro t ht; simp [nStart, ht, f4]
    have hn := hn _ r3
    refine ⟨⟨by omega, fun _ hd => ⟨?_, by rw [r1, f1]⟩, fun _ hg => by rw [r2]; exact l2 hg⟩,
      fun hk ⟨d, hm, hd⟩ => ?_⟩
    · have := l1 hd
      unfold Dead at *; rw [r2, r4]; exact this
    · rw [r2]
      apply l4 hk
      exact ⟨⟨some g, d⟩, (sortRecs_perm hint _).mem_iff.mpr (List.mem_filter.mpr ⟨hm, by simpa using hd⟩),
        by simp⟩

theorem turns_frozen (U : Universe) [NoRaise U] {c : St} (I : Inv c) {before rest : List Gen}
    {done : List (Option Gen)} (h : Split c (before ++ rest) done) (g : Gen) :
    Frozen g c (turns U before.length c) :=
  (turns_rel U (Frozen g) (Frozen.refl g) (fun _ _ _ => Frozen.trans) (before := before)
    (fun c x pend done I hs _ => turn_frozen U I hs g) I h).1

theorem process_frozen (U : Universe) [NoRaise U] {s : St} (T : Top s) (dt : Int) (hint : List Gen) (g : Gen) :
    Frozen g s (process U s dt hint).1 := by
  obtain ⟨pend, _, I1, hsp, hp⟩ := process_frame U T dt hint
  have hw := (wake_frozen T.inv dt hint g).1
  have hr : Frozen g (wakePhase s dt hint).1 (rotHead (wakePhase s dt hint).1) :=
    Frozen.of_eq rfl rfl rfl rfl
  have ht := turns_frozen U I1 (before := pend) (rest := []) (by simpa using hsp) g
  rw [hp]
  exact (hw.trans hr).trans ht

theorem execOp_frozen (U : Universe) [NoRaise U] {s : St} (T : Top s) (op : Op) (g : Gen) :
    Frozen g s (execOp U s op) := by
  cases op with
  | start h => exact (start_frozen U s h g).trans (push_frozen _ _ g rfl)
  | kill h => exact (kill_frozen U s h g).trans (push_frozen _ _ g rfl)
  | state h => simp only [execOp]; split <;> exact push_frozen _ _ g rfl
  | value h => exact push_frozen _ _ g rfl
  | process dt hint => exact (process_frozen U T dt hint g).trans (push_frozen _ _ g rfl)

theorem run_frozen (U : Universe) [NoRaise U] {s : St} (T : Top s) (ops : List Op) (g : Gen) :
    Frozen g s (run U s ops) := by
  induction ops generalizing s with
  | nil => exact Frozen.refl g s
  | cons op rest ih => exact (execOp_frozen U T op g).trans (ih (execOp_top U T op))

/-! ### released no later than the frame in which it would next have run -/

theorem Inv.nowhere {s : St} (I : Inv s) (g : Gen) (hg : s.gens g = none) :
    some g ∉ s.active ∧ (∀ r ∈ s.waiting, r.gen ≠ some g) ∧ s.kill g = false ∧ s.promises g = none := by
  have habs := I.absent g hg
  refine ⟨fun hm => ?_, fun r hr he => ?_, ?_, (I.promised g).mpr hg⟩
  · have : 0 < cntA s g := List.count_pos_iff.mpr hm
    omega
  · have : 0 < cntW s g := List.countP_pos_iff.mpr ⟨r, hr, by simp [isRec, he]⟩
    omega
  · cases hk : s.kill g with
    | false => rfl
    | true => exact absurd hg (I.marked g hk)


theorem runBody_next_none (U : Universe) {s : St} {g : Gen} (hc : ¬ hasCode U s g) :
    (runBody U s g).2 = .stop none := by
  unfold runBody
  unfold hasCode at hc
  split
  · rfl
  · rename_i h
    simp only [Bool.not_eq_true] at h
    dsimp only
    have : ¬ s.pc g < ((U.script g).getD []).length := fun hlt => hc ⟨h, hlt⟩
    rw [List.getElem?_eq_none (by omega)]

theorem pend_mem (U : Universe) [NoRaise U] {s : St} (T : Top s) (dt : Int) (hint : List Gen) {pend : List Gen}
    (hact : (wakePhase s dt hint).1.active = none :: pend.map some) (x : Gen) :
    x ∈ pend ↔ runnableIn s dt x := by
  obtain ⟨_, _, _, _, _, woken, hwa, hwm⟩ := wake_frame T.inv dt hint
  have : some x ∈ (wakePhase s dt hint).1.active ↔ x ∈ pend := by rw [hact]; simp
  rw [← this, hwa, List.mem_append, List.mem_map]
  unfold runnableIn
  constructor
  · rintro (h | ⟨y, hy, e⟩)
    · exact .inl h
    · cases e; exact .inr ((hwm x).mp hy)
  · rintro (h | h)
    · exact .inl h
    · exact .inr ⟨x, (hwm x).mpr h, rfl⟩

/-- the state in which `g` (in the deque of this frame) gets its turn -/
theorem before_turn (U : Universe) [NoRaise U] {c0 : St} (I0 : Inv c0) {before after : List Gen} {g : Gen}
    (hsp : Split c0 (before ++ g :: after) []) :
    ∃ c1 d1, c1 = turns U before.length c0 ∧ Inv c1 ∧ Split c1 (g :: after) d1 ∧ g ∉ before ∧ g ∉ after ∧
      Frozen g c0 c1 ∧ c1.pc g = c0.pc g ∧ c1.fin g = c0.fin g ∧
      (c0.kill g = false →
        (∀ h ∈ before, ∀ st, curStep U c0 h = some st → Act.kill g ∉ st.acts) → c1.kill g = false) ∧
      turns U (before ++ g :: after).length c0 = turns U after.length (turn U c1) := by
  have hnd := Split.nodup I0 hsp
  have hgb : g ∉ before := by
    intro hm
    exact (List.nodup_append.mp hnd).2.2 g hm g List.mem_cons_self rfl
  have hga : g ∉ after := (List.nodup_cons.mp (List.nodup_append.mp hnd).2.1).1
  obtain ⟨I1, ⟨d1, hs1⟩, _, hx1⟩ := turns_prefix U I0 (before := before) (rest := g :: after) hsp
  obtain ⟨p1, p2, p3⟩ := (hx1 g).1 hgb
  refine ⟨_, _, rfl, I1, hs1, hgb, hga, turns_frozen U I0 hsp g, p1, p2, p3, ?_⟩
  rw [List.length_append, List.length_cons, turns_add]
  simp only [turns]

theorem process_released (U : Universe) [NoRaise U] {s : St} (T : Top s) (dt : Int) (hint : List Gen) (g : Gen)
    (hns : nStart (process U s dt hint).1 g = nStart s g) :
    (some g ∈ s.active → s.kill g = true → (process U s dt hint).1.gens g = none) ∧
    (s.kill g = true → (∃ d, (⟨some g, d⟩ : Rec) ∈ s.waiting ∧ d ≤ s.timer + dt) →
      (process U s dt hint).1.gens g = none) ∧
    (runnableIn s dt g → s.kill g = false →
      (∀ h, runnableIn s dt h → ∀ st, curStep U s h = some st → Act.kill g ∉ st.acts) →
      (∀ st, hasCode U s g → curStep U s g = some st → ∃ v, st.fin = .ret v) →
      (process U s dt hint).1.gens g = none) := by
  obtain ⟨pend, hact, I0, hsp, hp⟩ := process_frame U T dt hint
  obtain ⟨w1, w2, wlog, w4, w5, _⟩ := wake_frame T.inv dt hint
  obtain ⟨hwf, hwdue⟩ := wake_frozen T.inv dt hint g
  have hmem := pend_mem U T dt hint hact
  have hr0 : Frozen g (wakePhase s dt hint).1 (rotHead (wakePhase s dt hint).1) :=
    Frozen.of_eq rfl rfl rfl rfl
  have hall := turns_frozen U I0 (before := pend) (rest := []) (by simpa using hsp) g
  have hpc : (rotHead (wakePhase s dt hint).1).pc = s.pc := w1
  have hfin : (rotHead (wakePhase s dt hint).1).fin = s.fin := w2
  have hkill : (rotHead (wakePhase s dt hint).1).kill = (wakePhase s dt hint).1.kill := rfl
  have hn0 : nStart (rotHead (wakePhase s dt hint).1) g = nStart s g := by simp [nStart, rotHead, wlog]
  rw [hp] at hns ⊢
  simp only [] at hns ⊢
  refine ⟨fun hm hk => ?_, fun hk hdue => ?_, fun hr hk hno hret => ?_⟩
  · -- marked and in the deque: dropped at its turn
    have hgp : g ∈ pend := (hmem g).mpr (.inl hm)
    have hk0 : (rotHead (wakePhase s dt hint).1).kill g = true := by
      rw [hkill, w5 g (fun d hd => T.inv.not_active_of_waiting hd hm)]; exact hk
    generalize rotHead (wakePhase s dt hint).1 = c0 at *
    obtain ⟨before, after, hsplit⟩ := List.append_of_mem hgp
    subst hsplit
    obtain ⟨c1, d1, _, I1, hs1, _, hga, hf1, _, _, _, hfinal⟩ := before_turn U I0 hsp
    rw [hfinal] at hns ⊢
    obtain ⟨I2, hc⟩ := turn_cases U I1 hs1
    have hs2 : ∃ d2, Split (turn U c1) (after ++ []) d2 := by
      rcases hc with ⟨_, _, hs⟩ | ⟨_, _, _, _, _, _, _, _, e, hs⟩
      · exact ⟨_, by simpa using hs⟩
      · exact ⟨_, by simpa using hs⟩
    obtain ⟨d2, hs2⟩ := hs2
    have hf2 := turn_frozen U I1 hs1 g
    have hf3 := turns_frozen U I2 hs2 g
    have m1 := hf1.mono; have m2 := hf2.mono; have m3 := hf3.mono
    have hd1 := (hf1.dead (by omega) (.inr hk0)).1
    have hg1 : c1.gens g = some none := I1.gens_of_active (by unfold Split at hs1; simp [hs1])
    have hk1 : c1.kill g = true := by
      rcases hd1 with h | h
      · simp [hg1] at h
      · exact h
    have hgone : (turn U c1).gens g = none := by
      rcases hc with ⟨_, ht, _⟩ | ⟨hkf, _⟩
      · rw [ht]; simp [dropHead]
      · simp [hk1] at hkf
    exact hf3.gone (by omega) hgone
  · -- marked and due: dropped by the wake-up loop
    have hg0 := hwdue hk hdue
    have m1 := hall.mono
    exact hall.gone (by omega) (by simpa [rotHead] using hg0)
  · -- finishes in this frame
    have hgp : g ∈ pend := (hmem g).mpr hr
    have hk0 : (rotHead (wakePhase s dt hint).1).kill g = false := by
      rw [hkill]
      cases hq : (wakePhase s dt hint).1.kill g with
      | false => rfl
      | true => have := w4 g hq; simp [hk] at this
    generalize rotHead (wakePhase s dt hint).1 = c0 at *
    obtain ⟨before, after, hsplit⟩ := List.append_of_mem hgp
    subst hsplit
    obtain ⟨c1, d1, _, I1, hs1, _, hga, hf1, p1, p2, p3, hfinal⟩ := before_turn U I0 hsp
    rw [hfinal] at hns ⊢
    have hk1 := p3 hk0 (fun h hh st' hst' => by
      rw [curStep_congr U (congrFun hpc h)] at hst'
      exact hno h ((hmem h).mp (List.mem_append_left _ hh)) st' hst')
    obtain ⟨I2, hc⟩ := turn_cases U I1 hs1
    rcases hc with ⟨hkt, _, _⟩ | ⟨_, extra, p, _, _, _, _, ht, e2, hs2⟩
    · simp [hk1] at hkt
    have hs2' : Split (turn U c1) (after ++ []) (d1 ++ e2) := by simpa using hs2
    have hf2 := turn_frozen U I1 hs1 g
    have hf3 := turns_frozen U I2 hs2' g
    have m1 := hf1.mono; have m2 := hf2.mono; have m3 := hf3.mono
    have hstop : ∃ v, (runBody U c1 g).2 = .stop v := by
      by_cases hc1 : hasCode U c1 g
      · have hcs : hasCode U s g :=
          (hasCode_congr U (p1.trans (congrFun hpc g)) (p2.trans (congrFun hfin g))).mp hc1
        cases hst : curStep U s g with
        | none =>
          unfold hasCode at hcs; unfold curStep at hst
          rw [List.getElem?_eq_getElem hcs.2] at hst; cases hst
        | some st =>
          obtain ⟨v, hv⟩ := hret st hcs hst
          have hst1 : curStep U c1 g = some st := by
            rw [curStep_congr U (p1.trans (congrFun hpc g))]; exact hst
          exact ⟨v, by rw [runBody_next U hc1 hst1, hv]⟩
      · exact ⟨none, runBody_next_none U hc1⟩
    obtain ⟨v, hv⟩ := hstop
    have hgone : (turn U c1).gens g = none := by
      rw [ht]; simp [afterBody, hv, finishHead, dropHead]
    exact hf3.gone (by omega) hgone

end Desper.Coro
