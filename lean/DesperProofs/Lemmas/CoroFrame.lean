import DesperProofs.Lemmas.CoroInv
/-
  One frame of the coroutine processor as a fold over the generators that are in front of the
  sentinel when the run loop starts (used by Props/C08.lean and Props/C09.lean).
-/
set_option linter.unusedSimpArgs false
set_option linter.unusedVariables false
namespace Desper.Coro
open Desper

/-! ### fields that start / kill / bodies never touch -/

/-- `s'` differs from `s` at most in the processor's tables, the promise bookkeeping and the log -/
structure SameFrames (s s' : St) : Prop where
  pc : s'.pc = s.pc
  fin : s'.fin = s.fin
  timer : s'.timer = s.timer
  values : s'.values = s.values

theorem SameFrames.refl (s : St) : SameFrames s s := ⟨rfl, rfl, rfl, rfl⟩

theorem SameFrames.trans {a b c : St} (h1 : SameFrames a b) (h2 : SameFrames b c) : SameFrames a c :=
  ⟨h2.pc.trans h1.pc, h2.fin.trans h1.fin, h2.timer.trans h1.timer, h2.values.trans h1.values⟩

theorem start_same (U : Universe) (s : St) (g : Gen) : SameFrames s (start U s g).1 := by
  unfold start
  split
  · exact SameFrames.refl s
  · split
    · exact SameFrames.refl s
    · split
      · simp only []
        split <;> exact ⟨rfl, rfl, rfl, rfl⟩
      · exact ⟨rfl, rfl, rfl, rfl⟩

theorem kill_same (U : Universe) (s : St) (g : Gen) : SameFrames s (kill U s g).1 := by
  unfold kill
  split
  · exact SameFrames.refl s
  · split <;> exact ⟨rfl, rfl, rfl, rfl⟩

theorem execAct_same (U : Universe) (g : Gen) (i : Nat) (s : St) (a : Act) :
    SameFrames s (execAct U g i s a) := by
  cases a with
  | start h => exact (start_same U s h).trans ⟨rfl, rfl, rfl, rfl⟩
  | kill h => exact (kill_same U s h).trans ⟨rfl, rfl, rfl, rfl⟩
  | state h => simp only [execAct]; split <;> exact ⟨rfl, rfl, rfl, rfl⟩

theorem execActs_same (U : Universe) (g : Gen) (i : Nat) (s : St) (acts : List Act) :
    SameFrames s (execActs U g i s acts) := by
  induction acts generalizing s with
  | nil => exact SameFrames.refl s
  | cons a as ih => exact (execAct_same U g i s a).trans (ih _)

/-- `next(g)` advances `g` by one step when it has code, and touches no other generator object -/
theorem runBody_pc (U : Universe) (s : St) (g x : Gen) :
    (runBody U s g).1.pc x = if x = g ∧ hasCode U s g then s.pc x + 1 else s.pc x := by
  unfold runBody hasCode
  split
  · rename_i h; simp [h]
  · rename_i h
    simp only [Bool.not_eq_true] at h
    dsimp only
    split
    · rename_i hn
      have : ¬ s.pc g < ((U.script g).getD []).length := by
        intro hlt; simp [List.getElem?_eq_getElem hlt] at hn
      simp [this]
    · rename_i st hs
      have hlt : s.pc g < ((U.script g).getD []).length := by
        rcases Nat.lt_or_ge (s.pc g) ((U.script g).getD []).length with h1 | h1
        · exact h1
        · simp [List.getElem?_eq_none h1] at hs
      have hsame := execActs_same U g (s.pc g)
        { s with pc := upd s.pc g (s.pc g + 1), log := .step g (s.pc g) :: s.log } st.acts
      split
      · simp only [St.push, hsame.pc, upd_apply, h, hlt]
        by_cases hx : x = g <;> simp [hx]
      · simp only [hsame.pc, upd_apply, h, hlt]
        by_cases hx : x = g <;> simp [hx]
      · simp only [hsame.pc, upd_apply, h, hlt]
        by_cases hx : x = g <;> simp [hx]

/-! ### the run loop is a fold over the entries in front of the sentinel -/

/-- one iteration of the run loop (the identity once the sentinel is in front) -/
def turn (U : Universe) [NoRaise U] (c : St) : St :=
  match iter U c with
  | .next c' => c'
  | _ => c

def turns (U : Universe) [NoRaise U] : Nat → St → St
  | 0, c => c
  | n + 1, c => turns U n (turn U c)

theorem loop_eq_turns (U : Universe) [NoRaise U] (fuel : Nat) {c : St} (I : Inv c) (hf : front c.active < fuel) :
    loop U fuel c = (turns U (front c.active) c, .ok) := by
  induction fuel generalizing c with
  | zero => omega
  | succ n ih =>
    unfold loop
    rcases iter_spec U I with ⟨he, h0⟩ | ⟨c', hn, I', hfr⟩
    · simp [he, h0, turns]
    · simp only [hn]
      rw [ih I' (by omega), ← hfr]
      simp [turns, turn, hn]

/-- the deque during the run loop: `pend` still to be met, the sentinel, `done` behind it -/
def Split (c : St) (pend : List Gen) (done : List (Option Gen)) : Prop :=
  c.active = pend.map some ++ none :: done

theorem front_split {c : St} {pend : List Gen} {done : List (Option Gen)} (h : Split c pend done) :
    front c.active = pend.length := by
  unfold Split at h
  rw [h]
  clear h
  induction pend with
  | nil => simp [front]
  | cons a t ih => simp [front]; exact ih

/-- what one turn does, by cases: the head `g` is dropped (kill pending), or its body runs and it
is then dropped (returned), parked (positive wait) or rotated behind the sentinel.  In every case
the rest of `pend` is untouched and `done` only grows at its end. -/
theorem turn_cases (U : Universe) [NoRaise U] {c : St} (I : Inv c) {g : Gen} {pend : List Gen}
    {done : List (Option Gen)} (h : Split c (g :: pend) done) :
    Inv (turn U c) ∧
    ((c.kill g = true ∧ turn U c = dropHead c g ∧ Split (turn U c) pend done) ∨
     (c.kill g = false ∧ ∃ extra p,
        (runBody U c g).1.active = some g :: (pend.map some ++ none :: (done ++ extra)) ∧
        (runBody U c g).1.promises g = some p ∧ (runBody U c g).1.gens g = some none ∧
        Inv (runBody U c g).1 ∧
        turn U c = afterBody (runBody U c g) g p ∧
        ∃ extra', Split (turn U c) pend (done ++ extra'))) := by
  unfold Split at h
  simp only [List.map_cons, List.cons_append] at h
  cases hk : c.kill g with
  | true =>
    have hit := iter_drop U I h hk
    have ht : turn U c = dropHead c g := by simp [turn, hit]
    refine ⟨ht ▸ dropHead_inv I h, .inl ⟨rfl, ht, ?_⟩⟩
    simp [Split, ht, dropHead, h]
  | false =>
    obtain ⟨extra, p, hact, hp, hg, I1, _, hit⟩ := iter_run U I h hk
    have ht : turn U c = afterBody (runBody U c g) g p := by simp [turn, hit]
    refine ⟨ht ▸ afterBody_inv I1 p hact, .inr ⟨rfl, extra, p, by simpa using hact, hp, hg, I1, ht, ?_⟩⟩
    rw [ht]
    unfold afterBody Split
    split
    · exact ⟨extra, by simp [finishHead, dropHead, hact]⟩
    · split
      · exact ⟨extra, by simp [pauseHead, hact]⟩
      · exact ⟨extra ++ [some g], by simp [rotHead, rotl, hact]⟩
    · rename_i e he; exact absurd he (runBody_no_crash U c g e)

/-! ### what a turn does to the other generators -/

theorem start_kill_false (U : Universe) (s : St) (h x : Gen) (hx : s.kill x = false) :
    (start U s h).1.kill x = false := by
  unfold start
  split
  · exact hx
  · split
    · exact hx
    · split
      · simp only []
        split <;> simp [startCommit, hx]
      · simp [startCommit, hx]

theorem kill_kill_false (U : Universe) (s : St) (h x : Gen) (hx : s.kill x = false) (hne : h ≠ x) :
    (kill U s h).1.kill x = false := by
  unfold kill
  split
  · exact hx
  · split
    · exact hx
    · simp [hx, Ne.symm hne]

theorem execActs_kill_false (U : Universe) (g : Gen) (i : Nat) (s : St) (acts : List Act) (x : Gen)
    (hx : s.kill x = false) (hno : Act.kill x ∉ acts) : (execActs U g i s acts).kill x = false := by
  induction acts generalizing s with
  | nil => exact hx
  | cons a as ih =>
    simp only [List.mem_cons, not_or] at hno
    apply ih _ _ hno.2
    cases a with
    | start h => simpa [execAct, St.push] using start_kill_false U s h x hx
    | kill h =>
      have : h ≠ x := fun e => hno.1 (by rw [e])
      simpa [execAct, St.push] using kill_kill_false U s h x hx this
    | state h => simp only [execAct]; split <;> simpa [St.push] using hx

theorem runBody_other (U : Universe) (s : St) (g x : Gen) (hne : x ≠ g) :
    (runBody U s g).1.fin x = s.fin x ∧
    (s.kill x = false → (∀ st, curStep U s g = some st → Act.kill x ∉ st.acts) →
      (runBody U s g).1.kill x = false) := by
  unfold runBody curStep
  split
  · exact ⟨rfl, fun h _ => h⟩
  · dsimp only
    split
    · exact ⟨by simp [hne], fun h _ => h⟩
    · rename_i st hs
      have hsame := execActs_same U g (s.pc g)
        { s with pc := upd s.pc g (s.pc g + 1), log := .step g (s.pc g) :: s.log } st.acts
      have hk := execActs_kill_false U g (s.pc g)
        { s with pc := upd s.pc g (s.pc g + 1), log := .step g (s.pc g) :: s.log } st.acts x
      split
      · exact ⟨by simp [St.push, hsame.fin], fun h hno => by simpa [St.push] using hk h (hno st hs)⟩
      · exact ⟨by simp [hsame.fin, hne], fun h hno => by simpa using hk h (hno st hs)⟩
      · exact ⟨by simp [hsame.fin, hne], fun h hno => by simpa using hk h (hno st hs)⟩

theorem afterBody_fields (b : St × Next) (g : Gen) (p : Nat) :
    (afterBody b g p).pc = b.1.pc ∧ (afterBody b g p).fin = b.1.fin ∧
    (afterBody b g p).timer = b.1.timer ∧
    ∀ x, x ≠ g → (afterBody b g p).kill x = b.1.kill x := by
  unfold afterBody
  split
  · exact ⟨rfl, rfl, rfl, fun x hx => by simp [finishHead, dropHead, hx]⟩
  · split
    · exact ⟨rfl, rfl, rfl, fun x _ => rfl⟩
    · exact ⟨rfl, rfl, rfl, fun x _ => rfl⟩
  · exact ⟨rfl, rfl, rfl, fun x _ => rfl⟩

/-- a turn of `g` advances `g` by one step iff it is not marked and has code; it advances nobody
else, exhausts nobody else, and marks `x` only if the step it runs contains `kill x` -/
theorem turn_effect (U : Universe) [NoRaise U] {c : St} (I : Inv c) {g : Gen} {pend : List Gen}
    {done : List (Option Gen)} (h : Split c (g :: pend) done) (x : Gen) :
    (turn U c).pc x = (if x = g ∧ c.kill g = false ∧ hasCode U c g then c.pc x + 1 else c.pc x) ∧
    (turn U c).timer = c.timer ∧
    (x ≠ g → (turn U c).fin x = c.fin x ∧
      (c.kill x = false → (∀ st, curStep U c g = some st → Act.kill x ∉ st.acts) →
        (turn U c).kill x = false)) := by
  obtain ⟨_, hc⟩ := turn_cases U I h
  rcases hc with ⟨hk, ht, _⟩ | ⟨hk, extra, p, _, _, _, _, ht, _⟩
  · rw [ht]
    refine ⟨by simp [dropHead, hk], rfl, fun hne => ⟨rfl, fun hx _ => by simp [dropHead, hne, hx]⟩⟩
  · rw [ht]
    obtain ⟨h1, h2, h3, h4⟩ := afterBody_fields (runBody U c g) g p
    have htm : (runBody U c g).1.timer = c.timer := (runBody_spec U I g).2.timer
    refine ⟨by rw [h1, runBody_pc]; simp [hk], by rw [h3, htm], fun hne => ?_⟩
    obtain ⟨k1, k2⟩ := runBody_other U c g x hne
    exact ⟨by rw [h2, k1], fun hx hno => by rw [h4 x hne]; exact k2 hx hno⟩

/-! ### the whole run loop -/

theorem Split.nodup {c : St} (I : Inv c) {pend : List Gen} {done : List (Option Gen)}
    (h : Split c pend done) : pend.Nodup := by
  rw [List.nodup_iff_count]
  intro a
  have h1 := I.once a
  have h2 : List.count a pend ≤ List.count (some a) (pend.map some) := List.count_le_count_map
  unfold cntA at h1
  unfold Split at h
  rw [h, List.count_append] at h1
  omega

theorem hasCode_congr (U : Universe) [NoRaise U] {c c' : St} {x : Gen} (h1 : c'.pc x = c.pc x)
    (h2 : c'.fin x = c.fin x) : hasCode U c' x ↔ hasCode U c x := by
  unfold hasCode; rw [h1, h2]

theorem curStep_congr (U : Universe) [NoRaise U] {c c' : St} {x : Gen} (h1 : c'.pc x = c.pc x) :
    curStep U c' x = curStep U c x := by
  unfold curStep; rw [h1]

/-- The first `before.length` turns of the run loop: every generator of `before` gets exactly one
turn, in order; nobody else gets one. -/
theorem turns_prefix (U : Universe) [NoRaise U] {c : St} (I : Inv c) {before rest : List Gen}
    {done : List (Option Gen)} (h : Split c (before ++ rest) done) :
    Inv (turns U before.length c) ∧ (∃ done', Split (turns U before.length c) rest (done ++ done')) ∧
    (turns U before.length c).timer = c.timer ∧
    ∀ x,
      (x ∉ before → (turns U before.length c).pc x = c.pc x ∧
        (turns U before.length c).fin x = c.fin x ∧
        (c.kill x = false →
          (∀ h ∈ before, ∀ st, curStep U c h = some st → Act.kill x ∉ st.acts) →
          (turns U before.length c).kill x = false)) ∧
      (turns U before.length c).pc x ≤ c.pc x + 1 ∧ c.pc x ≤ (turns U before.length c).pc x ∧
      (x ∈ before → c.kill x = false →
        (∀ h ∈ before, ∀ st, curStep U c h = some st → Act.kill x ∉ st.acts) →
        hasCode U c x → (turns U before.length c).pc x = c.pc x + 1) := by
  induction before generalizing c done with
  | nil =>
    exact ⟨I, ⟨[], by simpa [turns] using h⟩, rfl,
      fun x => ⟨fun _ => ⟨rfl, rfl, fun hk _ => hk⟩, by simp [turns], by simp [turns], by simp⟩⟩
  | cons g bs ih =>
    have h' : Split c (g :: (bs ++ rest)) done := h
    have hnd := Split.nodup I h'
    rw [List.nodup_cons] at hnd
    have hgbs : g ∉ bs := fun hm => hnd.1 (List.mem_append_left _ hm)
    obtain ⟨I1, hc⟩ := turn_cases U I h'
    have hs1 : ∃ d1, Split (turn U c) (bs ++ rest) (done ++ d1) := by
      rcases hc with ⟨_, _, hs⟩ | ⟨_, _, _, _, _, _, _, _, e, hs⟩
      · exact ⟨[], by simpa using hs⟩
      · exact ⟨_, hs⟩
    obtain ⟨d1, hs1⟩ := hs1
    obtain ⟨I2, ⟨d2, hsp⟩, htm, hx⟩ := ih I1 hs1
    simp only [List.length_cons, turns]
    refine ⟨I2, ⟨d1 ++ d2, by simpa [List.append_assoc] using hsp⟩,
      by rw [htm, (turn_effect U I h' g).2.1], fun x => ?_⟩
    obtain ⟨e1, _, e3⟩ := turn_effect U I h' x
    obtain ⟨k1, k2, k3, k4⟩ := hx x
    have hstep : ∀ h' ∈ bs, curStep U (turn U c) h' = curStep U c h' := by
      intro h' hh'
      have hne : h' ≠ g := fun e => hgbs (e ▸ hh')
      apply curStep_congr
      rw [(turn_effect U I h h').1]; simp [hne]
    by_cases hxg : x = g
    · subst hxg
      obtain ⟨k1a, k1b, _⟩ := k1 hgbs
      simp only [true_and] at e1
      refine ⟨fun hn => absurd (List.mem_cons_self) hn, ?_, ?_, fun _ hk _ hcode => ?_⟩
      · rw [k1a, e1]; split <;> omega
      · rw [k1a, e1]; split <;> omega
      · rw [k1a, e1]; simp [hk, hcode]
    · obtain ⟨f1, f2⟩ := e3 hxg
      have e1' : (turn U c).pc x = c.pc x := by rw [e1]; simp [hxg]
      refine ⟨fun hn => ?_, by omega, by omega, fun hmem hk hno hcode => ?_⟩
      · have hnb : x ∉ bs := fun hm => hn (List.mem_cons_of_mem _ hm)
        obtain ⟨k1a, k1b, k1c⟩ := k1 hnb
        refine ⟨by rw [k1a, e1'], by rw [k1b, f1], fun hk hno => ?_⟩
        apply k1c (f2 hk (fun st hst => hno g List.mem_cons_self st hst))
        intro h' hh' st hst
        rw [hstep h' hh'] at hst
        exact hno h' (List.mem_cons_of_mem _ hh') st hst
      · have hmr : x ∈ bs := by
          rcases List.mem_cons.mp hmem with h0 | h0
          · exact absurd h0 hxg
          · exact h0
        have hk1 := f2 hk (fun st hst => hno g List.mem_cons_self st hst)
        have := k4 hmr hk1 (fun h' hh' st hst => by
          rw [hstep h' hh'] at hst
          exact hno h' (List.mem_cons_of_mem _ hh') st hst)
          ((hasCode_congr U e1' f1).mpr hcode)
        rw [this, e1']

/-- The run loop met with `pend` in front of the sentinel: every generator of `pend` gets exactly
one turn, in order; nobody else gets one. -/
theorem turns_effect (U : Universe) [NoRaise U] {c : St} (I : Inv c) {pend : List Gen}
    {done : List (Option Gen)} (h : Split c pend done) :
    Inv (turns U pend.length c) ∧ (∃ done', Split (turns U pend.length c) [] done') ∧
    (turns U pend.length c).timer = c.timer ∧
    ∀ x,
      (x ∉ pend → (turns U pend.length c).pc x = c.pc x ∧ (turns U pend.length c).fin x = c.fin x) ∧
      (turns U pend.length c).pc x ≤ c.pc x + 1 ∧ c.pc x ≤ (turns U pend.length c).pc x ∧
      (x ∈ pend → c.kill x = false →
        (∀ h ∈ pend, ∀ st, curStep U c h = some st → Act.kill x ∉ st.acts) →
        hasCode U c x → (turns U pend.length c).pc x = c.pc x + 1) := by
  obtain ⟨I1, ⟨d, hd⟩, htm, hx⟩ := turns_prefix U I (before := pend) (rest := []) (done := done)
    (by simpa using h)
  exact ⟨I1, ⟨_, hd⟩, htm, fun x => ⟨fun hn => ⟨((hx x).1 hn).1, ((hx x).1 hn).2.1⟩, (hx x).2⟩⟩

/-- generic fold principle: a reflexive, transitive relation that holds across every single turn
of a generator of `before` holds across the turns of all of `before` -/
theorem turns_rel (U : Universe) [NoRaise U] (R : St → St → Prop) (hrefl : ∀ c, R c c)
    (htrans : ∀ a b c, R a b → R b c → R a c) {before : List Gen}
    (hturn : ∀ (c : St) (g : Gen) (pend : List Gen) (done : List (Option Gen)), Inv c →
      Split c (g :: pend) done → g ∈ before → R c (turn U c))
    {c : St} (I : Inv c) {rest : List Gen} {done : List (Option Gen)}
    (h : Split c (before ++ rest) done) :
    R c (turns U before.length c) ∧ Inv (turns U before.length c) ∧
    ∃ done', Split (turns U before.length c) rest (done ++ done') := by
  induction before generalizing c done with
  | nil => exact ⟨hrefl c, I, [], by simpa [turns] using h⟩
  | cons g bs ih =>
    have h' : Split c (g :: (bs ++ rest)) done := h
    obtain ⟨I1, hc⟩ := turn_cases U I h'
    have hs1 : ∃ d1, Split (turn U c) (bs ++ rest) (done ++ d1) := by
      rcases hc with ⟨_, _, hs⟩ | ⟨_, _, _, _, _, _, _, _, e, hs⟩
      · exact ⟨[], by simpa using hs⟩
      · exact ⟨_, hs⟩
    obtain ⟨d1, hs1⟩ := hs1
    have r1 := hturn c g (bs ++ rest) done I h' List.mem_cons_self
    obtain ⟨r2, I2, d2, hs2⟩ := ih (fun c g pend done I hs hm => hturn c g pend done I hs
      (List.mem_cons_of_mem _ hm)) I1 hs1
    simp only [List.length_cons, turns]
    exact ⟨htrans _ _ _ r1 r2, I2, d1 ++ d2, by simpa [List.append_assoc] using hs2⟩

theorem turns_add (U : Universe) [NoRaise U] (m n : Nat) (c : St) :
    turns U (m + n) c = turns U n (turns U m c) := by
  induction m generalizing c with
  | zero => simp [turns]
  | succ k ih => rw [Nat.succ_add]; simp only [turns]; exact ih _

/-! ### the wake-up phase, seen from the deque -/

macro "triv" : tactic => `(tactic| first | rfl | trivial)

theorem filterMap_congr' {α β : Type} {f g : α → Option β} {l : List α}
    (h : ∀ a ∈ l, f a = g a) : l.filterMap f = l.filterMap g := by
  induction l with
  | nil => rfl
  | cons a t ih =>
    simp only [List.filterMap_cons, h a List.mem_cons_self]
    rw [ih (fun b hb => h b (List.mem_cons_of_mem _ hb))]

/-- the generator a popped record puts behind the deque (none: voided, or dropped by a pending kill) -/
def wokenOne (k : Gen → Bool) (r : Rec) : Option Gen :=
  match r.gen with
  | some g => if k g then none else some g
  | none => none

theorem wakeOne_frame {s : St} {r : Rec} {rs : List Rec} (I : InvP s (r :: rs)) :
    (wakeOne s r).1.pc = s.pc ∧ (wakeOne s r).1.fin = s.fin ∧ (wakeOne s r).1.timer = s.timer ∧
    (wakeOne s r).1.log = s.log ∧
    (wakeOne s r).1.active = s.active ++ (wokenOne s.kill r).toList.map some ∧
    (∀ x, (wakeOne s r).1.kill x = true → s.kill x = true) ∧
    (∀ x, isRec x r = false → (wakeOne s r).1.kill x = s.kill x) := by
  unfold wakeOne wokenOne
  cases r with | mk rg rd =>
  cases rg with
  | none => simp
  | some g =>
    simp only []
    by_cases hk : s.kill g = true
    · simp only [hk, if_true]
      unfold InvP at I
      have hmem : (⟨some g, rd⟩ : Rec) ∈ ({ s with waiting := (⟨some g, rd⟩ :: rs) ++ s.waiting } : St).waiting := by
        simp
      obtain ⟨d', hg⟩ := I.gens_of_waiting hmem
      obtain ⟨p, hp⟩ := I.promise_of_gens hg
      simp only at hg hp
      simp only [hg, hp, upd_apply]
      refine ⟨by triv, by triv, by triv, by triv, by simp, fun x hx => ?_, fun x hx => ?_⟩
      · by_cases hxg : x = g <;> simp [hxg] at hx ⊢ <;> assumption
      · simp at hx; simp [Ne.symm hx]
    · simp only [hk, Bool.false_eq_true, if_false]
      exact ⟨by triv, by triv, by triv, by triv, by simp, fun x hx => hx, fun x _ => by triv⟩

theorem InvP.tail_no_rec {s : St} {r : Rec} {rs : List Rec} (I : InvP s (r :: rs)) {g : Gen}
    (h : isRec g r = true) : ∀ r' ∈ rs, isRec g r' = false := by
  intro r' hr'
  unfold InvP at I
  have := I.once g
  simp only [cntA, cntW, List.cons_append, List.countP_cons, List.countP_append, h, if_true] at this
  cases hq : isRec g r' with
  | false => rfl
  | true =>
    have : 0 < List.countP (isRec g) rs := List.countP_pos_iff.mpr ⟨r', hr', hq⟩
    omega

theorem wokenOne_congr {k k' : Gen → Bool} {r : Rec} (h : ∀ x, isRec x r = true → k' x = k x) :
    wokenOne k' r = wokenOne k r := by
  unfold wokenOne
  cases r with | mk rg rd =>
  cases rg with
  | none => rfl
  | some g => simp only []; rw [h g (by simp)]

theorem wakeAll_frame {s : St} {l : List Rec} (I : InvP s l) :
    (wakeAll s l).1.pc = s.pc ∧ (wakeAll s l).1.fin = s.fin ∧ (wakeAll s l).1.timer = s.timer ∧
    (wakeAll s l).1.log = s.log ∧
    (wakeAll s l).1.active = s.active ++ (l.filterMap (wokenOne s.kill)).map some ∧
    (∀ x, (wakeAll s l).1.kill x = true → s.kill x = true) ∧
    (∀ x, (∀ r ∈ l, isRec x r = false) → (wakeAll s l).1.kill x = s.kill x) := by
  induction l generalizing s with
  | nil => simp [wakeAll]
  | cons r rs ih =>
    obtain ⟨h1, h2, _⟩ := wakeOne_spec I
    obtain ⟨f1, f2, f3, f4, f5, f6, f7⟩ := wakeOne_frame I
    unfold wakeAll
    cases hw : wakeOne s r with | mk s' o =>
    rw [hw] at h1 h2 f1 f2 f3 f4 f5 f6 f7
    simp only at h1 h2 f1 f2 f3 f4 f5 f6 f7
    subst h1
    simp only []
    obtain ⟨g1, g2, g3, g4, g5, g6, g7⟩ := ih h2
    have hcongr : rs.filterMap (wokenOne s'.kill) = rs.filterMap (wokenOne s.kill) := by
      apply filterMap_congr'
      intro r' hr'
      apply wokenOne_congr
      intro x hx
      apply f7
      cases hq : isRec x r with
      | false => rfl
      | true => have := I.tail_no_rec hq r' hr'; simp [hx] at this
    refine ⟨g1.trans f1, g2.trans f2, g3.trans f3, g4.trans f4, ?_, fun x hx => f6 x (g6 x hx),
      fun x hx => ?_⟩
    · rw [g5, f5, hcongr, List.filterMap_cons]
      cases wokenOne s.kill r <;> simp
    · rw [g7 x (fun r' hr' => hx r' (List.mem_cons_of_mem _ hr')), f7 x (hx r List.mem_cons_self)]

/-- the wake-up phase appends the generators whose wait has elapsed (and that are not marked) to
the deque, in heap order, and touches no generator object and no mark of a runnable generator -/
theorem wake_frame {s : St} (I : Inv s) (dt : Int) (hint : List Gen) :
    (wakePhase s dt hint).1.pc = s.pc ∧ (wakePhase s dt hint).1.fin = s.fin ∧
    (wakePhase s dt hint).1.log = s.log ∧
    (∀ x, (wakePhase s dt hint).1.kill x = true → s.kill x = true) ∧
    (∀ x, (∀ d, (⟨some x, d⟩ : Rec) ∉ s.waiting) → (wakePhase s dt hint).1.kill x = s.kill x) ∧
    ∃ woken : List Gen, (wakePhase s dt hint).1.active = s.active ++ woken.map some ∧
      ∀ g, g ∈ woken ↔ ∃ d, (⟨some g, d⟩ : Rec) ∈ s.waiting ∧ d ≤ s.timer + dt ∧ s.kill g = false := by
  unfold wakePhase
  split
  · rename_i he
    simp only [List.isEmpty_iff] at he
    exact ⟨rfl, rfl, rfl, fun _ h => h, fun _ _ => rfl, [], by simp, by simp [he]⟩
  · simp only []
    have hperm : (sortRecs hint (s.waiting.filter (fun r => decide (r.deadline ≤ s.timer + dt))) ++
        s.waiting.filter (fun r => !decide (r.deadline ≤ s.timer + dt))).Perm s.waiting :=
      ((sortRecs_perm hint _).append_right _).trans (List.filter_append_perm _ _)
    have I2 : InvP ({ s with waiting := s.waiting.filter (fun r => !decide (r.deadline ≤ s.timer + dt)),
                             timer := s.timer + dt } : St)
        (sortRecs hint (s.waiting.filter (fun r => decide (r.deadline ≤ s.timer + dt)))) :=
      (I.perm hperm).frame rfl rfl rfl rfl rfl
    obtain ⟨k1, _, _⟩ := wakeAll_spec I2
    obtain ⟨f1, f2, _, f4, f5, f6, f7⟩ := wakeAll_frame I2
    cases hw : wakeAll _ _ with | mk s' o =>
    rw [hw] at k1 f1 f2 f4 f5 f6 f7
    simp only at k1 f1 f2 f4 f5 f6 f7
    subst k1
    simp only []
    have hres : ∀ (t : St), (if s'.waiting.isEmpty = true then { s' with timer := 0 } else s') = t →
        t.pc = s'.pc ∧ t.fin = s'.fin ∧ t.log = s'.log ∧ t.kill = s'.kill ∧ t.active = s'.active := by
      intro t ht; subst ht; split <;> exact ⟨rfl, rfl, rfl, rfl, rfl⟩
    obtain ⟨r1, r2, r3, r4, r5⟩ := hres _ rfl
    refine ⟨r1.trans f1, r2.trans f2, r3.trans f4, fun x hx => f6 x (r4 ▸ hx), fun x hx => ?_, _,
      r5.trans f5, fun g => ?_⟩
    · rw [r4]
      apply f7
      intro r hr
      have hr' : r ∈ s.waiting := by
        have := (sortRecs_perm hint _).mem_iff.mp hr
        exact (List.mem_filter.mp this).1
      cases r with | mk rg rd =>
      cases rg with
      | none => simp
      | some y =>
        simp only [isRec_some, decide_eq_false_iff_not]
        intro e; subst e; exact hx rd hr'
    · simp only [List.mem_filterMap]
      constructor
      · rintro ⟨r, hr, hwo⟩
        have := (sortRecs_perm hint _).mem_iff.mp hr
        obtain ⟨hm, hd⟩ := List.mem_filter.mp this
        cases r with | mk rg rd =>
        cases rg with
        | none => simp [wokenOne] at hwo
        | some y =>
          simp only [wokenOne] at hwo
          split at hwo
          · cases hwo
          · rename_i hk
            simp only [Option.some.injEq] at hwo
            subst hwo
            exact ⟨rd, hm, by simpa using hd, by simpa using hk⟩
      · rintro ⟨d, hm, hd, hk⟩
        refine ⟨⟨some g, d⟩, (sortRecs_perm hint _).mem_iff.mpr (List.mem_filter.mpr ⟨hm, by simpa using hd⟩), ?_⟩
        simp [wokenOne, hk]

/-! ### between frames the sentinel is in front -/

/-- the invariant of the states in which top-level operations are issued -/
structure Top (s : St) : Prop where
  inv : Inv s
  head : ∃ rest, s.active = none :: rest

theorem top_init : Top init := ⟨inv_init, [], rfl⟩

theorem all_some_of_count {l : List (Option Gen)} (h : l.count none = 0) :
    ∃ pend : List Gen, l = pend.map some := by
  induction l with
  | nil => exact ⟨[], rfl⟩
  | cons a t ih =>
    cases a with
    | none => simp at h
    | some x =>
      simp at h
      obtain ⟨p, hp⟩ := ih h
      exact ⟨x :: p, by simp [hp]⟩

theorem Top.runq {s : St} (T : Top s) : ∃ pend : List Gen, s.active = none :: pend.map some := by
  obtain ⟨rest, h⟩ := T.head
  have := T.inv.sentinel
  rw [h] at this
  simp at this
  obtain ⟨p, hp⟩ := all_some_of_count this
  exact ⟨p, by rw [h, hp]⟩

theorem front_zero_head {l : List (Option Gen)} (h0 : front l = 0) (hc : l.count none = 1) :
    ∃ rest, l = none :: rest := by
  cases l with
  | nil => simp at hc
  | cons a t =>
    cases a with
    | none => exact ⟨t, rfl⟩
    | some x => simp [front] at h0

/-- A frame: the wake-up phase appends the woken generators, the rotation puts the sentinel last,
and the run loop gives every generator then in the deque exactly one turn. -/
theorem process_frame (U : Universe) [NoRaise U] {s : St} (T : Top s) (dt : Int) (hint : List Gen) :
    ∃ pend : List Gen,
      (wakePhase s dt hint).1.active = none :: pend.map some ∧
      Inv (rotHead (wakePhase s dt hint).1) ∧
      Split (rotHead (wakePhase s dt hint).1) pend [] ∧
      process U s dt hint = (turns U pend.length (rotHead (wakePhase s dt hint).1), .ok) := by
  obtain ⟨h1, I1⟩ := wakePhase_spec T.inv dt hint
  obtain ⟨_, _, _, _, _, woken, hact, _⟩ := wake_frame T.inv dt hint
  obtain ⟨q, hq⟩ := T.runq
  refine ⟨q ++ woken, by rw [hact, hq]; simp, I1.rotate, ?_, ?_⟩
  · simp [Split, rotHead, rotl, hact, hq]
  · unfold process
    cases hw : wakePhase s dt hint with | mk s1 o =>
    rw [hw] at h1 I1 hact
    simp only at h1 I1 hact
    subst h1
    simp only []
    have hsp : Split (rotHead s1) (q ++ woken) [] := by simp [Split, rotHead, rotl, hact, hq]
    have := loop_eq_turns U ((rotl s1.active).length + 1) I1.rotate
      (by have := front_le_length (rotl s1.active); simp only; omega)
    have hfr := front_split hsp
    simp only [rotHead] at hfr
    rw [hfr] at this
    exact this

theorem process_top (U : Universe) [NoRaise U] {s : St} (T : Top s) (dt : Int) (hint : List Gen) :
    Top (process U s dt hint).1 := by
  obtain ⟨pend, _, I1, hsp, hp⟩ := process_frame U T dt hint
  obtain ⟨I2, ⟨done', hd⟩, _⟩ := turns_effect U I1 hsp
  rw [hp]
  exact ⟨I2, done', by simpa [Split] using hd⟩

theorem start_top (U : Universe) {s : St} (T : Top s) (g : Gen) : Top (start U s g).1 := by
  obtain ⟨⟨extra, he⟩, _⟩ := start_grows U s g
  obtain ⟨rest, hr⟩ := T.head
  exact ⟨start_inv U T.inv g, rest ++ extra, by rw [he, hr]; rfl⟩

theorem kill_top (U : Universe) {s : St} (T : Top s) (g : Gen) : Top (kill U s g).1 := by
  obtain ⟨⟨extra, he⟩, _⟩ := kill_grows U s g
  obtain ⟨rest, hr⟩ := T.head
  exact ⟨kill_inv U T.inv g, rest ++ extra, by rw [he, hr]; rfl⟩

theorem execOp_top (U : Universe) [NoRaise U] {s : St} (T : Top s) (op : Op) : Top (execOp U s op) := by
  cases op with
  | start g => have := start_top U T g; exact ⟨this.inv.frame rfl rfl rfl rfl rfl, this.head⟩
  | kill g => have := kill_top U T g; exact ⟨this.inv.frame rfl rfl rfl rfl rfl, this.head⟩
  | state g => simp only [execOp]; split <;> exact ⟨T.inv.frame rfl rfl rfl rfl rfl, T.head⟩
  | process dt hint =>
    have := process_top U T dt hint; exact ⟨this.inv.frame rfl rfl rfl rfl rfl, this.head⟩
  | value g => exact ⟨T.inv.frame rfl rfl rfl rfl rfl, T.head⟩

theorem run_top (U : Universe) [NoRaise U] {s : St} (T : Top s) (ops : List Op) : Top (run U s ops) := by
  induction ops generalizing s with
  | nil => exact T
  | cons op rest ih => exact ih (execOp_top U T op)

/-- **one step per frame**, in terms of the generator objects' progress counters -/
theorem one_step (U : Universe) [NoRaise U] {s : St} (T : Top s) (dt : Int) (hint : List Gen) (g : Gen) :
    (process U s dt hint).1.pc g ≤ s.pc g + 1 ∧ s.pc g ≤ (process U s dt hint).1.pc g ∧
    (¬ runnableIn s dt g → (process U s dt hint).1.pc g = s.pc g ∧
      (process U s dt hint).1.fin g = s.fin g) ∧
    (runnableIn s dt g → s.kill g = false → hasCode U s g →
      (∀ h, runnableIn s dt h → ∀ st, curStep U s h = some st → Act.kill g ∉ st.acts) →
      (process U s dt hint).1.pc g = s.pc g + 1) := by
  obtain ⟨pend, hact, I1, hsp, hp⟩ := process_frame U T dt hint
  obtain ⟨w1, w2, _, w4, w5, woken, hwa, hwm⟩ := wake_frame T.inv dt hint
  obtain ⟨_, _, _, hx⟩ := turns_effect U I1 hsp
  have hmem : ∀ x, x ∈ pend ↔ runnableIn s dt x := by
    intro x
    have : some x ∈ (wakePhase s dt hint).1.active ↔ x ∈ pend := by rw [hact]; simp
    rw [← this, hwa, List.mem_append, List.mem_map]
    unfold runnableIn
    constructor
    · rintro (h | ⟨y, hy, e⟩)
      · exact .inl h
      · cases e; exact .inr ((hwm x).mp hy)
    · rintro (h | h)
      · exact .inl h
      · exact .inr ⟨x, (hwm x).mpr h, rfl⟩
  obtain ⟨k1, k2, k3, k4⟩ := hx g
  rw [hp]
  have hpc : (rotHead (wakePhase s dt hint).1).pc = s.pc := w1
  have hfin : (rotHead (wakePhase s dt hint).1).fin = s.fin := w2
  have hkill : (rotHead (wakePhase s dt hint).1).kill = (wakePhase s dt hint).1.kill := rfl
  generalize rotHead (wakePhase s dt hint).1 = c0 at *
  simp only []
  rw [hpc] at k1 k2 k3 k4
  rw [hfin] at k1
  refine ⟨k2, k3, fun hn => k1 (fun hm => hn ((hmem g).mp hm)), fun hr hk hcode hno => ?_⟩
  apply k4 ((hmem g).mpr hr)
  · rw [hkill]
    cases hq : (wakePhase s dt hint).1.kill g with
    | false => rfl
    | true => have := w4 g hq; simp [hk] at this
  · intro h hh st hst
    rw [curStep_congr U (congrFun hpc h)] at hst
    exact hno h ((hmem h).mp hh) st hst
  · exact (hasCode_congr U (congrFun hpc g) (congrFun hfin g)).mpr hcode

end Desper.Coro
