import DesperProofs.Lemmas.CoroPromise
/-
  From programs whose bodies never raise to every program.  `san U` is `U` with every `raise`
  replaced by `return None`: as long as no body actually raises, `U` and `san U` run alike, so a
  `process` call that returns normally is a call of the never-raising program `san U`; a call that a
  body aborts is a prefix of such a call, followed by the body that raises and by the clean-up
  (coroutines.py:254-263).  (Used by Props/C08.lean and Props/C09.lean.)
-/
set_option linter.unusedSimpArgs false
set_option linter.unusedVariables false
namespace Desper.Coro
open Desper

def sanStep (st : Step) : Step :=
  match st.fin with
  | .raise _ => { st with fin := .ret none }
  | _ => st

def san (U : Universe) : Universe :=
  { script := fun g => (U.script g).map (List.map sanStep) }

theorem sanStep_acts (st : Step) : (sanStep st).acts = st.acts := by
  unfold sanStep; split <;> rfl

theorem sanStep_fin (st : Step) (e : String) : (sanStep st).fin ≠ .raise e := by
  unfold sanStep
  split
  · simp
  · rename_i h; intro he; exact h e he

instance (U : Universe) : NoRaise (san U) := ⟨by
  intro g sc h st hst e
  simp only [san, Option.map_eq_some_iff] at h
  obtain ⟨sc0, _, rfl⟩ := h
  obtain ⟨st0, _, rfl⟩ := List.mem_map.mp hst
  exact sanStep_fin st0 e⟩

theorem san_script_none (U : Universe) (g : Gen) : (san U).script g = none ↔ U.script g = none := by
  simp [san]

theorem stateOf_san (U : Universe) (s : St) (g : Gen) : stateOf (san U) s g = stateOf U s g := by
  unfold stateOf
  cases h : U.script g with
  | none => simp [(san_script_none U g).mpr h]
  | some sc => simp [san, h]

theorem start_san (U : Universe) (s : St) (g : Gen) : start (san U) s g = start U s g := by
  unfold start; rw [stateOf_san]

theorem kill_san (U : Universe) (s : St) (g : Gen) : kill (san U) s g = kill U s g := by
  unfold kill
  cases h : U.script g with
  | none => simp [(san_script_none U g).mpr h]
  | some sc => simp [san, h]

theorem execAct_san (U : Universe) (x : Gen) (i : Nat) (s : St) (a : Act) :
    execAct (san U) x i s a = execAct U x i s a := by
  cases a <;> simp [execAct, start_san, kill_san, stateOf_san]

theorem execActs_san (U : Universe) (x : Gen) (i : Nat) (s : St) (acts : List Act) :
    execActs (san U) x i s acts = execActs U x i s acts := by
  induction acts generalizing s with
  | nil => rfl
  | cons a as ih => simp only [execActs, List.foldl_cons, execAct_san] at ih ⊢; exact ih _

theorem san_getD (U : Universe) (g : Gen) :
    ((san U).script g).getD [] = ((U.script g).getD []).map sanStep := by
  cases h : U.script g <;> simp [san, h]

theorem curStep_san (U : Universe) (s : St) (g : Gen) :
    curStep (san U) s g = (curStep U s g).map sanStep := by
  simp [curStep, san_getD]

theorem hasCode_san (U : Universe) (s : St) (g : Gen) : hasCode (san U) s g ↔ hasCode U s g := by
  simp [hasCode, san_getD]

/-- as long as the body does not raise, `U` and `san U` run it alike -/
theorem runBody_san (U : Universe) (s : St) (g : Gen) (h : ∀ e, (runBody U s g).2 ≠ .crash e) :
    runBody (san U) s g = runBody U s g := by
  unfold runBody at h ⊢
  by_cases hfin : s.fin g = true
  · simp [hfin]
  · simp only [hfin, Bool.false_eq_true, if_false] at h ⊢
    rw [san_getD, List.getElem?_map]
    cases hs : ((U.script g).getD [])[s.pc g]? with
    | none => rfl
    | some st =>
      simp only [hs, Option.map_some] at h ⊢
      rw [sanStep_acts, execActs_san]
      unfold sanStep
      cases hf : st.fin with
      | yield w => simp [hf]
      | ret v => simp [hf]
      | raise e => simp [hf] at h

theorem iterAfter_crash {b : St × Next} {g : Gen} {p : Nat} {e : String} (h : b.2 = .crash e) :
    iterAfter b g p = .crash (crashDrop b.1 g) e := by
  simp [iterAfter, h]

theorem iterAfter_next {b : St × Next} {g : Gen} {p : Nat} (h : ∀ e, b.2 ≠ .crash e) :
    iterAfter b g p = .next (afterBody b g p) := by
  unfold iterAfter
  split
  · rename_i e he; exact absurd he (h e)
  · rfl

theorem crash_or_not (n : Next) : (∃ e, n = .crash e) ∨ ∀ e, n ≠ .crash e := by
  cases n with
  | crash e => exact .inl ⟨e, rfl⟩
  | stop v => exact .inr (fun e h => by cases h)
  | yield w => exact .inr (fun e h => by cases h)

/-- an iteration in which no body raises is an iteration of `san U` -/
theorem iter_san (U : Universe) {c : St} (I : Inv c) (h : ∀ s' e, iter U c ≠ .crash s' e) :
    iter (san U) c = iter U c := by
  cases hact : c.active with
  | nil => simp [iter, hact]
  | cons a tl =>
    cases a with
    | none => rw [iter_exit U hact, iter_exit (san U) hact]
    | some g =>
      cases hk : c.kill g with
      | true => rw [iter_drop U I hact hk, iter_drop (san U) I hact hk]
      | false =>
        obtain ⟨_, p, _, hp, _, _, _, hit⟩ := iter_run_gen U I hact hk
        obtain ⟨_, p', _, hp', _, _, _, hit'⟩ := iter_run_gen (san U) I hact hk
        have hnc : ∀ e, (runBody U c g).2 ≠ .crash e := by
          intro e he
          rw [hit, iterAfter_crash he] at h
          exact h _ _ rfl
        have hb := runBody_san U c g hnc
        rw [hb] at hit' hp'
        have : p' = p := by rw [hp] at hp'; cases hp'; rfl
        rw [hit, hit', this]

/-- a run loop that ends normally is a run loop of `san U` -/
theorem loop_ok_san (U : Universe) (fuel : Nat) {c : St} (I : Inv c) (h : (loop U fuel c).2 = .ok) :
    loop (san U) fuel c = loop U fuel c := by
  induction fuel generalizing c with
  | zero => rfl
  | succ n ih =>
    unfold loop at h ⊢
    rcases iter_spec_gen U I with ⟨he, _⟩ | ⟨s', hn, I', _⟩ | ⟨s', e, hc, _, _⟩
    · rw [iter_san U I (by rw [he]; intro _ _ h; cases h), he]
    · rw [iter_san U I (by rw [hn]; intro _ _ h; cases h), hn]
      rw [hn] at h
      exact ih I' h
    · rw [hc] at h; cases h

theorem process_ok_san (U : Universe) {s : St} (I : Inv s) (dt : Int) (hint : List Gen)
    (h : (process U s dt hint).2 = .ok) : process (san U) s dt hint = process U s dt hint := by
  obtain ⟨h1, I1⟩ := wakePhase_spec I dt hint
  unfold process at h ⊢
  cases hw : wakePhase s dt hint with | mk s1 o =>
  rw [hw] at h1 I1 h
  simp only at h1 I1
  subst h1
  simp only [] at h ⊢
  exact loop_ok_san U _ I1.rotate h

/-- a run loop that a body aborts: the turns of a prefix `before` of the deque (turns of `san U`:
nobody raised), then the body of `g`, which raises, then the clean-up -/
theorem loop_crashed (U : Universe) (fuel : Nat) {c : St} (I : Inv c) {pend : List Gen}
    {done : List (Option Gen)} (hsp : Split c pend done) {e : String}
    (h : (loop U fuel c).2 = .crashed e) :
    ∃ before g after, pend = before ++ g :: after ∧
      (turns (san U) before.length c).kill g = false ∧
      (runBody U (turns (san U) before.length c) g).2 = .crash e ∧
      (loop U fuel c).1 = crashDrop (runBody U (turns (san U) before.length c) g).1 g := by
  induction fuel generalizing c pend done with
  | zero => simp [loop] at h
  | succ n ih =>
    unfold loop at h ⊢
    cases pend with
    | nil =>
      have hact : c.active = none :: done := by simpa [Split] using hsp
      rw [iter_exit U hact] at h; cases h
    | cons g rest =>
      have hact : c.active = some g :: (rest.map some ++ none :: done) := by simpa [Split] using hsp
      have hstep : ∀ c', iter U c = .next c' → Inv c' →
          (loop U n c').2 = .crashed e → turn (san U) c = c' ∧ ∃ d', Split c' rest d' := by
        intro c' hn I' _
        have hs : iter (san U) c = .next c' := by
          rw [iter_san U I (by rw [hn]; intro _ _ h; cases h), hn]
        have ht : turn (san U) c = c' := by simp [turn, hs]
        obtain ⟨_, hc⟩ := turn_cases (san U) I hsp
        rw [ht] at hc
        rcases hc with ⟨_, _, hs'⟩ | ⟨_, _, _, _, _, _, _, _, _, hs'⟩
        · exact ⟨ht, _, hs'⟩
        · exact ⟨ht, _, hs'⟩
      cases hk : c.kill g with
      | true =>
        have hn := iter_drop U I hact hk
        rw [hn] at h ⊢
        simp only [] at h ⊢
        have I' := dropHead_inv I hact
        obtain ⟨ht, d', hs'⟩ := hstep _ hn I' h
        obtain ⟨before, x, after, hp, k1, k2, k3⟩ := ih I' hs' h
        refine ⟨g :: before, x, after, by rw [hp]; rfl, ?_, ?_, ?_⟩ <;>
          simp only [List.length_cons, turns, ht] <;> assumption
      | false =>
        obtain ⟨extra, p, hba, _, _, I1, _, hit⟩ := iter_run_gen U I hact hk
        rcases crash_or_not (runBody U c g).2 with ⟨e', he⟩ | hnc
        · rw [hit, iterAfter_crash he] at h ⊢
          simp only [] at h ⊢
          cases h
          exact ⟨[], g, rest, rfl, by simpa [turns] using hk, by simpa [turns] using he, by simp [turns]⟩
        · have hn : iter U c = .next (afterBody (runBody U c g) g p) := by rw [hit, iterAfter_next hnc]
          rw [hn] at h ⊢
          simp only [] at h ⊢
          have I' := afterBody_inv I1 p hba
          obtain ⟨ht, d', hs'⟩ := hstep _ hn I' h
          obtain ⟨before, x, after, hp, k1, k2, k3⟩ := ih I' hs' h
          refine ⟨g :: before, x, after, by rw [hp]; rfl, ?_, ?_, ?_⟩ <;>
            simp only [List.length_cons, turns, ht] <;> assumption

/-! ### a `process` call of an arbitrary program -/

theorem process_outcome (U : Universe) {s : St} (I : Inv s) (dt : Int) (hint : List Gen) :
    (process U s dt hint).2 = .ok ∨ ∃ e, (process U s dt hint).2 = .crashed e :=
  (process_spec_gen U I dt hint).1

/-- The two shapes of a `process` call: it returns normally and is a call of `san U`; or a body
aborts it: wake-up, rotation, the turns of a prefix of the deque, the body that raises, clean-up. -/
theorem process_cases (U : Universe) {s : St} (T : Top s) (dt : Int) (hint : List Gen) :
    ∃ pend : List Gen,
      (wakePhase s dt hint).1.active = none :: pend.map some ∧
      Inv (rotHead (wakePhase s dt hint).1) ∧ Split (rotHead (wakePhase s dt hint).1) pend [] ∧
      (((process U s dt hint).2 = .ok ∧ process U s dt hint = process (san U) s dt hint) ∨
       (∃ e before g after, (process U s dt hint).2 = .crashed e ∧ pend = before ++ g :: after ∧
          (turns (san U) before.length (rotHead (wakePhase s dt hint).1)).kill g = false ∧
          (runBody U (turns (san U) before.length (rotHead (wakePhase s dt hint).1)) g).2 = .crash e ∧
          (process U s dt hint).1 =
            crashDrop (runBody U (turns (san U) before.length (rotHead (wakePhase s dt hint).1)) g).1 g)) := by
  obtain ⟨pend, hact, I0, hsp, _⟩ := process_frame (san U) T dt hint
  refine ⟨pend, hact, I0, hsp, ?_⟩
  rcases process_outcome U T.inv dt hint with hok | ⟨e, hc⟩
  · exact .inl ⟨hok, (process_ok_san U T.inv dt hint hok).symm⟩
  · right
    obtain ⟨h1, _⟩ := wakePhase_spec T.inv dt hint
    have hproc : process U s dt hint =
        loop U ((rotl (wakePhase s dt hint).1.active).length + 1) (rotHead (wakePhase s dt hint).1) := by
      unfold process
      cases hw : wakePhase s dt hint with | mk s1 o =>
      rw [hw] at h1
      simp only at h1
      subst h1
      rfl
    rw [hproc] at hc ⊢
    obtain ⟨before, g, after, hp, k1, k2, k3⟩ := loop_crashed U _ I0 hsp hc
    exact ⟨e, before, g, after, hc, hp, k1, k2, k3⟩

/-- generic principle: a reflexive, transitive relation that holds across every turn of `san U`,
across every body and across the clean-up after a raising body holds across the run loop of every
`process` call of `U` (from the state after wake-up and rotation) -/
theorem process_rel_gen (U : Universe) (R : St → St → Prop) (hrefl : ∀ c, R c c)
    (htrans : ∀ a b c, R a b → R b c → R a c) {s : St} (T : Top s) (dt : Int) (hint : List Gen)
    (hturn : ∀ (c : St) (g : Gen) (pend : List Gen) (done : List (Option Gen)), Inv c →
      Split c (g :: pend) done → R c (turn (san U) c))
    (hbody : ∀ (c : St) (g : Gen) (pend : List Gen) (done : List (Option Gen)), Inv c →
      Split c (g :: pend) done → c.kill g = false → R c (runBody U c g).1)
    (hdrop : ∀ (c : St) (g : Gen) (tl : List (Option Gen)), Inv c → c.active = some g :: tl →
      c.gens g = some none → R c (crashDrop c g)) :
    R (rotHead (wakePhase s dt hint).1) (process U s dt hint).1 := by
  obtain ⟨pend, _, I0, hsp, hc⟩ := process_cases U T dt hint
  obtain ⟨_, _, _, _, hp⟩ := process_frame (san U) T dt hint
  rcases hc with ⟨_, heq⟩ | ⟨e, before, g, after, _, hpend, hk, hcr, hfin⟩
  · obtain ⟨pend', hact', I0', hsp', hp'⟩ := process_frame (san U) T dt hint
    rw [heq, hp']
    exact (turns_rel (san U) R hrefl htrans (before := pend')
      (fun c g pend done I hs _ => hturn c g pend done I hs) I0' (rest := []) (by simpa using hsp')).1
  · subst hpend
    obtain ⟨r1, I1, d1, hs1⟩ := turns_rel (san U) R hrefl htrans (before := before)
      (fun c g pend done I hs _ => hturn c g pend done I hs) I0 (rest := g :: after) hsp
    have r2 := hbody _ g after _ I1 hs1 hk
    obtain ⟨Ib, ⟨extra, hact⟩, _⟩ := runBody_spec U I1 g
    have hact' : (runBody U (turns (san U) before.length (rotHead (wakePhase s dt hint).1)) g).1.active =
        some g :: (after.map some ++ none :: ([] ++ d1) ++ extra) := by
      rw [hact]; unfold Split at hs1; rw [hs1]; simp
    have hg := Ib.gens_of_active (g := g) (by rw [hact']; exact List.mem_cons_self)
    have r3 := hdrop _ g _ Ib hact' hg
    rw [hfin]
    exact htrans _ _ _ r1 (htrans _ _ _ r2 r3)

/-- between top-level operations the sentinel is in front — for every program, also after a call
that a body aborted (coroutines.py:262) -/
theorem process_top_gen (U : Universe) {s : St} (T : Top s) (dt : Int) (hint : List Gen) :
    Top (process U s dt hint).1 := by
  obtain ⟨pend, _, I0, hsp, hc⟩ := process_cases U T dt hint
  rcases hc with ⟨_, heq⟩ | ⟨e, before, g, after, _, hpend, hk, hcr, hfin⟩
  · rw [heq]; exact process_top (san U) T dt hint
  · subst hpend
    obtain ⟨_, I1, d1, hs1⟩ := turns_rel (san U) (fun _ _ => True) (fun _ => trivial)
      (fun _ _ _ _ _ => trivial) (before := before) (fun _ _ _ _ _ _ _ => trivial) I0
      (rest := g :: after) hsp
    obtain ⟨Ib, ⟨extra, hact⟩, _⟩ := runBody_spec U I1 g
    have hact' : (runBody U (turns (san U) before.length (rotHead (wakePhase s dt hint).1)) g).1.active =
        some g :: (after.map some ++ none :: ([] ++ d1) ++ extra) := by
      rw [hact]; unfold Split at hs1; rw [hs1]; simp
    obtain ⟨Id, hd⟩ := crashDrop_inv Ib hact'
    rw [hfin]
    exact ⟨Id, hd⟩

theorem execOp_top_gen (U : Universe) {s : St} (T : Top s) (op : Op) : Top (execOp U s op) := by
  cases op with
  | start g => have := start_top U T g; exact ⟨this.inv.frame rfl rfl rfl rfl rfl, this.head⟩
  | kill g => have := kill_top U T g; exact ⟨this.inv.frame rfl rfl rfl rfl rfl, this.head⟩
  | state g => simp only [execOp]; split <;> exact ⟨T.inv.frame rfl rfl rfl rfl rfl, T.head⟩
  | process dt hint =>
    have := process_top_gen U T dt hint; exact ⟨this.inv.frame rfl rfl rfl rfl rfl, this.head⟩
  | value g => exact ⟨T.inv.frame rfl rfl rfl rfl rfl, T.head⟩

theorem run_top_gen (U : Universe) {s : St} (T : Top s) (ops : List Op) : Top (run U s ops) := by
  induction ops generalizing s with
  | nil => exact T
  | cons op rest ih => exact ih (execOp_top_gen U T op)

end Desper.Coro
