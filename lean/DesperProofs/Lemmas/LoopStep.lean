import DesperProofs.Lemmas.LoopBasic
/-
  The `Step` relation: what any piece of the loop does to the log and to a muted world, and its
  preservation by every function of the loop (frames, switches, releases).
-/
namespace Desper.Loop

/-- world `j` exists, is muted, and its held events extend `q0` -/
def Muted (j : Inst) (q0 : List (Ev × Args)) (s : St) : Prop :=
  ∃ w, s.worlds j = some w ∧ w.enabled = false ∧ ∃ q, w.queue = q0 ++ q

def NotOf (j : Inst) (ext : List Entry) : Prop := ∀ e ∈ ext, e.of j = false

/-- every entry of `j` in `ext` (newest first) has the marker `enter j` somewhere before it -/
def PrecIn (j : Inst) (ext : List Entry) : Prop :=
  ∀ pre e post, ext = post ++ e :: pre → e.of j = true → Entry.enter j ∈ pre

/-- `Step P s s'`: the log is extended by entries satisfying `P`, and every world that is muted
and not current either stays so without a single entry of its own, or is entered first. -/
def Step (P : Entry → Prop) (s s' : St) : Prop :=
  ∃ ext, s'.log = ext ++ s.log ∧ (∀ e ∈ ext, P e) ∧
    ∀ j q0, Muted j q0 s → s.current ≠ some j →
      (Entry.enter j ∈ ext ∧ PrecIn j ext) ∨
      (Muted j q0 s' ∧ s'.current ≠ some j ∧ NotOf j ext)

theorem Step.refl (P : Entry → Prop) (s : St) : Step P s s :=
  ⟨[], by simp, by simp, fun j q0 hm hc => Or.inr ⟨hm, hc, by simp [NotOf]⟩⟩

theorem Step.mono {P Q : Entry → Prop} {s s' : St} (h : ∀ e, P e → Q e) (a : Step P s s') :
    Step Q s s' := by
  obtain ⟨ext, h1, h2, h3⟩ := a
  exact ⟨ext, h1, fun e he => h e (h2 e he), h3⟩

theorem split_append {α : Type} {e1 e2 post pre : List α} {e : α}
    (h : e2 ++ e1 = post ++ e :: pre) :
    (∃ c, e1 = c ++ e :: pre ∧ post = e2 ++ c) ∨ (∃ c, e2 = post ++ e :: c ∧ pre = c ++ e1) := by
  rcases List.append_eq_append_iff.mp h with ⟨a, h1, h2⟩ | ⟨c, h1, h2⟩
  · exact Or.inl ⟨a, h2, h1⟩
  · cases c with
    | nil =>
      simp only [List.nil_append] at h2
      exact Or.inl ⟨[], by simp [h2], by simpa using h1.symm⟩
    | cons x xs =>
      simp only [List.cons_append, List.cons.injEq] at h2
      obtain ⟨rfl, rfl⟩ := h2
      exact Or.inr ⟨xs, h1, rfl⟩

theorem PrecIn.append_of_mem {j : Inst} {e1 e2 : List Entry} (hm : Entry.enter j ∈ e1)
    (hp : PrecIn j e1) : PrecIn j (e2 ++ e1) := by
  intro pre e post heq he
  rcases split_append heq with ⟨c, h1, _⟩ | ⟨c, _, h2⟩
  · exact hp pre e c h1 he
  · rw [h2]; exact List.mem_append_right _ hm

theorem PrecIn.append_of_notOf {j : Inst} {e1 e2 : List Entry} (hn : NotOf j e1)
    (hp : PrecIn j e2) : PrecIn j (e2 ++ e1) := by
  intro pre e post heq he
  rcases split_append heq with ⟨c, h1, _⟩ | ⟨c, h1, h2⟩
  · have : e ∈ e1 := by rw [h1]; simp
    rw [hn e this] at he; cases he
  · rw [h2]; exact List.mem_append_left _ (hp c e post h1 he)

theorem Step.trans {P : Entry → Prop} {s1 s2 s3 : St} (a : Step P s1 s2) (b : Step P s2 s3) :
    Step P s1 s3 := by
  obtain ⟨e1, h1, p1, q1⟩ := a
  obtain ⟨e2, h2, p2, q2⟩ := b
  refine ⟨e2 ++ e1, by simp [h2, h1], ?_, ?_⟩
  · intro e he
    rcases List.mem_append.mp he with h | h
    · exact p2 e h
    · exact p1 e h
  · intro j q0 hm hc
    rcases q1 j q0 hm hc with ⟨hin, hp⟩ | ⟨hm2, hc2, hn1⟩
    · exact Or.inl ⟨List.mem_append_right _ hin, hp.append_of_mem hin⟩
    · rcases q2 j q0 hm2 hc2 with ⟨hin, hp⟩ | ⟨hm3, hc3, hn2⟩
      · exact Or.inl ⟨List.mem_append_left _ hin, hp.append_of_notOf hn1⟩
      · refine Or.inr ⟨hm3, hc3, ?_⟩
        intro e he
        rcases List.mem_append.mp he with h | h
        · exact hn2 e h
        · exact hn1 e h

/-- `Step` for every world but `ex` (the world whose frame is being processed: it may be left by a
direct `loop.switch` call in the middle of its own frame and still run its remaining processors) -/
def StepE (ex : Inst) (P : Entry → Prop) (s s' : St) : Prop :=
  ∃ ext, s'.log = ext ++ s.log ∧ (∀ e ∈ ext, P e) ∧
    ∀ j q0, j ≠ ex → Muted j q0 s → s.current ≠ some j →
      (Entry.enter j ∈ ext ∧ PrecIn j ext) ∨
      (Muted j q0 s' ∧ s'.current ≠ some j ∧ NotOf j ext)

theorem Step.toStepE {P : Entry → Prop} {s s' : St} (ex : Inst) (a : Step P s s') :
    StepE ex P s s' := by
  obtain ⟨ext, h1, h2, h3⟩ := a
  exact ⟨ext, h1, h2, fun j q0 _ hm hc => h3 j q0 hm hc⟩

/-- at the beginning of its frame the processed world is the current one -/
theorem StepE.toStep {P : Entry → Prop} {s s' : St} {ex : Inst} (hc : s.current = some ex)
    (a : StepE ex P s s') : Step P s s' := by
  obtain ⟨ext, h1, h2, h3⟩ := a
  exact ⟨ext, h1, h2, fun j q0 hm hcj => h3 j q0 (fun c => hcj (c ▸ hc)) hm hcj⟩

theorem StepE.refl (ex : Inst) (P : Entry → Prop) (s : St) : StepE ex P s s :=
  (Step.refl P s).toStepE ex

theorem StepE.mono {ex : Inst} {P Q : Entry → Prop} {s s' : St} (h : ∀ e, P e → Q e)
    (a : StepE ex P s s') : StepE ex Q s s' := by
  obtain ⟨ext, h1, h2, h3⟩ := a
  exact ⟨ext, h1, fun e he => h e (h2 e he), h3⟩

theorem StepE.trans {ex : Inst} {P : Entry → Prop} {s1 s2 s3 : St} (a : StepE ex P s1 s2)
    (b : StepE ex P s2 s3) : StepE ex P s1 s3 := by
  obtain ⟨e1, h1, p1, q1⟩ := a
  obtain ⟨e2, h2, p2, q2⟩ := b
  refine ⟨e2 ++ e1, by simp [h2, h1], ?_, ?_⟩
  · intro e he
    rcases List.mem_append.mp he with h | h
    · exact p2 e h
    · exact p1 e h
  · intro j q0 hj hm hc
    rcases q1 j q0 hj hm hc with ⟨hin, hp⟩ | ⟨hm2, hc2, hn1⟩
    · exact Or.inl ⟨List.mem_append_right _ hin, hp.append_of_mem hin⟩
    · rcases q2 j q0 hj hm2 hc2 with ⟨hin, hp⟩ | ⟨hm3, hc3, hn2⟩
      · exact Or.inl ⟨List.mem_append_left _ hin, hp.append_of_notOf hn1⟩
      · refine Or.inr ⟨hm3, hc3, ?_⟩
        intro e he
        rcases List.mem_append.mp he with h | h
        · exact hn2 e h
        · exact hn1 e h

theorem quiet_of_eq_evOf {e : Entry} (j : Inst) (h : e.quiet = true) : e.of j = e.evOf j := by
  cases e <;> simp_all [Entry.quiet, Entry.of, Entry.evOf]

/-- user code is a step -/
theorem Ext.toStep {P : Entry → Prop} {s s' : St} (a : Ext P s s')
    (hP : ∀ e, P e → e.quiet = true ∨ ∀ j, s.current ≠ some j → e.of j = false) : Step P s s' := by
  obtain ⟨ext, h1, h2, h3⟩ := a.log
  refine ⟨ext, h1, h2, ?_⟩
  intro j q0 ⟨w, hw, hen, q, hq⟩ hc
  refine Or.inr ⟨?_, by rw [a.current]; exact hc, ?_⟩
  · obtain ⟨w', hw', hen', q', hq'⟩ := a.held j w hw hen
    exact ⟨w', hw', hen', q ++ q', by simp [hq', hq]⟩
  · intro e he
    rcases hP e (h2 e he) with hq | hn
    · rw [quiet_of_eq_evOf j hq]; exact h3 j w hw hen e he
    · exact hn j hc

theorem Ext.toStepQuiet {s s' : St} (a : Ext Quiet s s') : Step Quiet s s' :=
  a.toStep fun _ h => Or.inl h

/-- entries of a world switch: what user code logs, and the marker -/
abbrev SwP : Entry → Prop := fun e => e.quiet = true ∨ ∃ i, e = .enter i

/-- entries of the processors of one `World.process(dt)` of instance `i` -/
abbrev PrP (i : Inst) (dt : Int) : Entry → Prop :=
  fun e => e.quiet = true ∨ ∃ p, e = .proc i p dt

/-- entries of one `World.process(dt)` of instance `i` -/
abbrev FrP (i : Inst) (dt : Int) : Entry → Prop :=
  fun e => e.quiet = true ∨ (∃ p, e = .proc i p dt) ∨ e = .frame i dt

theorem prP_frP (i : Inst) (dt : Int) : ∀ e, PrP i dt e → FrP i dt e := by
  intro e h
  rcases h with h | h
  · exact Or.inl h
  · exact Or.inr (Or.inl h)

/-- the loop's own fields that user code and switches leave alone -/
structure SameClock (s s' : St) : Prop where
  running : s'.running = s.running
  last : s'.last = s.last

theorem SameClock.refl (s : St) : SameClock s s := ⟨rfl, rfl⟩
theorem SameClock.trans {a b c : St} (x : SameClock a b) (y : SameClock b c) : SameClock a c :=
  ⟨y.running.trans x.running, y.last.trans x.last⟩
theorem Ext.sameClock {P : Entry → Prop} {s s' : St} (a : Ext P s s') : SameClock s s' :=
  ⟨a.running, a.last⟩

/-! ### one frame -/

theorem setWorld_ext_enabled (P : Entry → Prop) {s : St} {i : Inst} {w0 : World} (w : World)
    (hw : s.worlds i = some w0) (hen : w0.enabled = true) : Ext P s (setWorld s i w) := by
  refine ⟨rfl, rfl, rfl, rfl, ⟨[], by simp [setWorld]⟩, ?_⟩
  intro j wj hj hd
  have e : j ≠ i := by
    intro c; subst c; rw [hw] at hj; cases hj; rw [hen] at hd; cases hd
  exact ⟨wj, by simp only [setWorld, upd_ne _ _ e]; exact hj, hd, [], by simp⟩

theorem markDead_spec (P : Entry → Prop) {s : St} (i : Inst) (p : Nat) (wf : WF s) :
    WF (markDead s i p) ∧ Ext P s (markDead s i p) := by
  unfold markDead
  split
  · exact ⟨wf, Ext.refl _ _⟩
  · rename_i w hw
    refine ⟨setWorld_wf _ wf hw, ?_⟩
    cases hen : w.enabled with
    | true => exact setWorld_ext_enabled P _ hw hen
    | false => exact setWorld_ext P _ hw (by simp) ⟨[], by simp⟩

theorem logProc_ext {s : St} (i : Inst) (p : Nat) (dt : Int) :
    Ext (PrP i dt) s { s with log := .proc i p dt :: s.log } := by
  refine ⟨rfl, rfl, rfl, rfl, ⟨[.proc i p dt], by simp, ?_, ?_⟩, ?_⟩
  · intro e he; simp only [List.mem_singleton] at he; subst he; exact Or.inr ⟨p, rfl⟩
  · intro j w _ _ e he; simp only [List.mem_singleton] at he; subst he; rfl
  · intro j w hw hd; exact ⟨w, hw, hd, [], by simp⟩

theorem quiet_prP (i : Inst) (dt : Int) : ∀ e, Quiet e → PrP i dt e := fun _ h => Or.inl h

/-- a processor action that is not a direct `loop.switch(...)` call -/
def PAct.noSwitch : PAct → Bool
  | .loopSwitch _ _ _ => false
  | _ => true

/-- user code, a clock assignment and a peek leave the loop's world alone -/
theorem pact_spec (U : Universe) (fuel : Nat) {s s' : St} {a : PAct} {o : Outcome} (wf : WF s)
    (hn : a.noSwitch = true) (h : pact U fuel s a = (s', o)) : WF s' ∧ Ext Quiet s s' := by
  cases a with
  | user a => exact act_spec U fuel _ _ _ _ wf h
  | loopSwitch h' cc cn => simp [PAct.noSwitch] at hn
  | setClock k =>
    simp only [pact, Prod.mk.injEq] at h; obtain ⟨rfl, _⟩ := h
    exact ⟨⟨wf.fresh, wf.cached, wf.cur⟩, ⟨rfl, rfl, rfl, rfl, ⟨[], by simp⟩,
      fun i w h1 h2 => ⟨w, h1, h2, [], by simp⟩⟩⟩
  | peek =>
    simp only [pact, Prod.mk.injEq] at h; obtain ⟨rfl, _⟩ := h
    refine ⟨⟨wf.fresh, wf.cached, wf.cur⟩, ⟨rfl, rfl, rfl, rfl, ⟨[.peek s.current], by simp, ?_, ?_⟩,
      fun i w h1 h2 => ⟨w, h1, h2, [], by simp⟩⟩⟩
    · intro e he; simp only [List.mem_singleton] at he; subst he; rfl
    · intro j w _ _ e he; simp only [List.mem_singleton] at he; subst he; rfl

theorem runProc_spec (U : Universe) (fuel : Nat) {s s' : St} {i : Inst} {dt : Int} {p : Nat}
    {k : ProcKind} {a : PAct} {o : Outcome} (wf : WF s) (hn : a.noSwitch = true)
    (h : runProc U fuel s i dt p k a = (s', o)) : WF s' ∧ Ext (PrP i dt) s s' := by
  unfold runProc at h
  have wf1 : WF { s with log := .proc i p dt :: s.log } := ⟨wf.fresh, wf.cached, wf.cur⟩
  have e1 := @logProc_ext s i p dt
  cases k with
  | plain =>
    obtain ⟨wf2, e2⟩ := pact_spec U fuel wf1 hn h
    exact ⟨wf2, e1.trans (e2.mono (quiet_prP i dt))⟩
  | update =>
    obtain ⟨wf2, e2⟩ := dispatchWith_spec U (act_spec U fuel) wf1 h
    exact ⟨wf2, e1.trans (e2.mono (quiet_prP i dt))⟩
  | coro =>
    simp only at h
    split at h
    · simp only [Prod.mk.injEq] at h; obtain ⟨rfl, _⟩ := h; exact ⟨wf1, e1⟩
    · split at h
      · simp only [Prod.mk.injEq] at h; obtain ⟨rfl, _⟩ := h; exact ⟨wf1, e1⟩
      · cases ha : pact U fuel { s with log := .proc i p dt :: s.log } a with
        | mk s2 o2 =>
          obtain ⟨wf2, e2⟩ := pact_spec U fuel wf1 hn ha
          have e12 := e1.trans (e2.mono (quiet_prP i dt))
          rw [ha] at h
          cases o2 with
          | ok => simp only [Prod.mk.injEq] at h; obtain ⟨rfl, _⟩ := h; exact ⟨wf2, e12⟩
          | outOfFuel => simp only [Prod.mk.injEq] at h; obtain ⟨rfl, _⟩ := h; exact ⟨wf2, e12⟩
          | raised x =>
            simp only [Prod.mk.injEq] at h; obtain ⟨rfl, _⟩ := h
            obtain ⟨wf3, e3⟩ := markDead_spec (PrP i dt) i p wf2
            exact ⟨wf3, e12.trans e3⟩

theorem runProcs_spec (U : Universe) (fuel : Nat) (i : Inst) (dt : Int) :
    ∀ (ks : List ProcKind) (s : St) (p : Nat) (acts : List PAct) (s' : St) (o : Outcome), WF s →
      (∀ a ∈ acts, a.noSwitch = true) →
      runProcs U fuel i dt s p ks acts = (s', o) → WF s' ∧ Ext (PrP i dt) s s' := by
  intro ks
  induction ks with
  | nil =>
    intro s p acts s' o wf _ h
    simp only [runProcs, Prod.mk.injEq] at h; obtain ⟨rfl, _⟩ := h; exact ⟨wf, Ext.refl _ _⟩
  | cons k ks ih =>
    intro s p acts s' o wf hn h
    simp only [runProcs] at h
    have hhead : (acts.headD (.user .none)).noSwitch = true := by
      cases acts with
      | nil => rfl
      | cons a as => exact hn a (by simp)
    have htail : ∀ a ∈ acts.tail, a.noSwitch = true := fun a ha => hn a (List.mem_of_mem_tail ha)
    cases hr : runProc U fuel s i dt p k (acts.headD (.user .none)) with
    | mk s1 o1 =>
      obtain ⟨wf1, e1⟩ := runProc_spec U fuel wf hhead hr
      rw [hr] at h
      cases o1 with
      | ok =>
        obtain ⟨wf2, e2⟩ := ih _ _ _ _ _ wf1 htail h
        exact ⟨wf2, e1.trans e2⟩
      | raised x => simp only [Prod.mk.injEq] at h; obtain ⟨rfl, _⟩ := h; exact ⟨wf1, e1⟩
      | outOfFuel => simp only [Prod.mk.injEq] at h; obtain ⟨rfl, _⟩ := h; exact ⟨wf1, e1⟩

theorem processWorld_spec (U : Universe) (fuel : Nat) {s s' : St} {i : Inst} {dt : Int}
    {acts : List PAct} {o : Outcome} (wf : WF s) (hn : ∀ a ∈ acts, a.noSwitch = true)
    (h : processWorld U fuel s i dt acts = (s', o)) : WF s' ∧ Ext (FrP i dt) s s' := by
  unfold processWorld at h
  have wf1 : WF { s with log := .frame i dt :: s.log } := ⟨wf.fresh, wf.cached, wf.cur⟩
  have e1 : Ext (FrP i dt) s { s with log := .frame i dt :: s.log } := by
    refine ⟨rfl, rfl, rfl, rfl, ⟨[.frame i dt], by simp, ?_, ?_⟩, ?_⟩
    · intro e he; simp only [List.mem_singleton] at he; subst he; exact Or.inr (Or.inr rfl)
    · intro j w _ _ e he; simp only [List.mem_singleton] at he; subst he; rfl
    · intro j w hw hd; exact ⟨w, hw, hd, [], by simp⟩
  obtain ⟨wf2, e2⟩ := runProcs_spec U fuel i dt _ _ _ _ _ _ wf1 hn h
  exact ⟨wf2, e1.trans (e2.mono (prP_frP i dt))⟩

/-- a frame of the current world is a step -/
theorem frame_toStep {s s' : St} {i : Inst} {dt : Int} (hc : s.current = some i)
    (a : Ext (FrP i dt) s s') : Step (FrP i dt) s s' := by
  refine a.toStep ?_
  intro e he
  rcases he with h | ⟨p, rfl⟩ | rfl
  · exact Or.inl h
  · refine Or.inr fun j hj => ?_
    have : i ≠ j := by intro c; subst c; exact hj hc
    simp [Entry.of, this]
  · refine Or.inr fun j hj => ?_
    have : i ≠ j := by intro c; subst c; exact hj hc
    simp [Entry.of, this]

/-! ### switches -/

theorem loopSwitch_spec (U : Universe) {s : St} (h : Handle) (cc cn : Bool) (wf : WF s) :
    WF (loopSwitch U s h cc cn) ∧ Step SwP s (loopSwitch U s h cc cn) ∧
      SameClock s (loopSwitch U s h cc cn) ∧
      (loopSwitch U s h cc cn).currentHandle = some h ∧
      ∃ n, (loopSwitch U s h cc cn).cache h = some n ∧
        (loopSwitch U s h cc cn).current = some ⟨h, n⟩ := by
  unfold loopSwitch
  simp only
  generalize hs1 : (if cc = true then
      match s.currentHandle with
      | some ch => clearHandle s ch
      | none => s
    else s) = s1
  have r1 : WF s1 ∧ Ext Quiet s s1 := by
    subst hs1
    split
    · split
      · exact ⟨clearHandle_wf _ wf, clearHandle_ext _ _ _⟩
      · exact ⟨wf, Ext.refl _ _⟩
    · exact ⟨wf, Ext.refl _ _⟩
  obtain ⟨wf1, e1⟩ := r1
  generalize hs2 : (if cn = true then clearHandle s1 h else s1) = s2
  have r2 : WF s2 ∧ Ext Quiet s1 s2 := by
    subst hs2
    split
    · exact ⟨clearHandle_wf _ wf1, clearHandle_ext _ _ _⟩
    · exact ⟨wf1, Ext.refl _ _⟩
  obtain ⟨wf2, e2⟩ := r2
  have wf2' : WF { s2 with currentHandle := some h } := ⟨wf2.fresh, wf2.cached, wf2.cur⟩
  cases hc : callHandle U { s2 with currentHandle := some h } h with
  | mk s3 i =>
    obtain ⟨wf3, e3, hih, hcache, ⟨w, hw⟩, _⟩ := callHandle_spec U wf2' hc
    have e12 := e1.trans e2
    obtain ⟨x12, hx12, px12, qx12⟩ := e12.log
    obtain ⟨x3, hx3, px3, qx3⟩ := e3.log
    have hi : i = ⟨h, i.n⟩ := by cases i; simp only at hih; subst hih; rfl
    refine ⟨⟨wf3.fresh, wf3.cached, ?_⟩, ?_, ⟨?_, ?_⟩, ?_, ⟨i.n, hcache, by simp only; rw [← hi]⟩⟩
    · intro j hj
      simp only [Option.some.injEq] at hj
      subst hj; exact ⟨w, hw⟩
    · refine ⟨.enter i :: (x3 ++ x12), ?_, ?_, ?_⟩
      · simp only [hx3, List.cons_append, List.append_assoc, List.cons.injEq, true_and]
        congr 1
      · intro e he
        simp only [List.mem_cons, List.mem_append] at he
        rcases he with rfl | he | he
        · exact Or.inr ⟨i, rfl⟩
        · exact Or.inl (px3 e he)
        · exact Or.inl (px12 e he)
      · intro j q0 ⟨wj, hwj, henj, q, hq⟩ hcj
        by_cases hji : i = j
        · subst hji
          refine Or.inl ⟨by simp, ?_⟩
          intro pre e post heq he
          -- every entry of the extension is quiet or the marker: none is "of i" except deliveries
          -- in i, which cannot happen since i is muted
          exfalso
          have hmem : e ∈ Entry.enter i :: (x3 ++ x12) := by rw [heq]; simp
          simp only [List.mem_cons, List.mem_append] at hmem
          obtain ⟨w12, hw12, hen12, _⟩ := e12.held i wj hwj henj
          rcases hmem with rfl | hm | hm
          · simp [Entry.of] at he
          · have := qx3 i w12 hw12 hen12 e hm
            rw [← quiet_of_eq_evOf i (px3 e hm), he] at this; cases this
          · have := qx12 i wj hwj henj e hm
            rw [← quiet_of_eq_evOf i (px12 e hm), he] at this; cases this
        · refine Or.inr ⟨?_, ?_, ?_⟩
          · obtain ⟨w12, hw12, hen12, q12, hq12⟩ := e12.held j wj hwj henj
            obtain ⟨w3, hw3, hen3, q3, hq3⟩ := e3.held j w12 hw12 hen12
            exact ⟨w3, hw3, hen3, q ++ q12 ++ q3, by simp [hq3, hq12, hq]⟩
          · simp only [ne_eq, Option.some.injEq]; exact hji
          · intro e he
            simp only [List.mem_cons, List.mem_append] at he
            obtain ⟨w12, hw12, hen12, _⟩ := e12.held j wj hwj henj
            rcases he with rfl | he | he
            · rfl
            · rw [quiet_of_eq_evOf j (px3 e he)]; exact qx3 j w12 hw12 hen12 e he
            · rw [quiet_of_eq_evOf j (px12 e he)]; exact qx12 j wj hwj henj e he
    · simp only; rw [e3.running]; simp only; rw [e2.running, e1.running]
    · simp only; rw [e3.last]; simp only; rw [e2.last, e1.last]
    · simp only; rw [e3.currentHandle]

/-- what a release (and everything after the marker) may log -/
theorem quiet_swP : ∀ e, Quiet e → SwP e := fun _ h => Or.inl h

/-- a step of user code while `i` is the current world -/
theorem release_spec (U : Universe) (fuel : Nat) (i : Inst) :
    ∀ (n : Nat) (s s' : St) (o : Outcome), WF s → release U fuel n s i = (s', o) →
      WF s' ∧ Step Quiet s s' ∧ SameClock s s' ∧ s'.current = s.current ∧
        s'.currentHandle = s.currentHandle := by
  intro n
  induction n with
  | zero =>
    intro s s' o wf h
    simp only [release, Prod.mk.injEq] at h; obtain ⟨rfl, _⟩ := h
    exact ⟨wf, Step.refl _ _, SameClock.refl _, rfl, rfl⟩
  | succ n ih =>
    intro s s' o wf h
    simp only [release] at h
    split at h
    · simp only [Prod.mk.injEq] at h; obtain ⟨rfl, _⟩ := h
      exact ⟨wf, Step.refl _ _, SameClock.refl _, rfl, rfl⟩
    · rename_i w hw
      split at h
      · simp only [Prod.mk.injEq] at h; obtain ⟨rfl, _⟩ := h
        exact ⟨wf, Step.refl _ _, SameClock.refl _, rfl, rfl⟩
      · rename_i e a q hq
        split at h
        · simp only [Prod.mk.injEq] at h; obtain ⟨rfl, _⟩ := h
          exact ⟨wf, Step.refl _ _, SameClock.refl _, rfl, rfl⟩
        · rename_i hen
          have hen' : w.enabled = true := by simpa using hen
          have wf1 := setWorld_wf { w with queue := q } wf hw
          have e1 : Ext Quiet s (setWorld s i { w with queue := q }) :=
            setWorld_ext_enabled _ _ hw hen'
          cases hd : dispatch U fuel (setWorld s i { w with queue := q }) i e a with
          | mk s2 o2 =>
            obtain ⟨wf2, e2⟩ := dispatchWith_spec U (act_spec U fuel) wf1 hd
            have e12 := e1.trans e2
            rw [hd] at h
            cases o2 with
            | ok =>
              obtain ⟨wf3, st3, sc3, c3, ch3⟩ := ih _ _ _ wf2 h
              exact ⟨wf3, e12.toStepQuiet.trans st3, e12.sameClock.trans sc3,
                c3.trans e12.current, ch3.trans e12.currentHandle⟩
            | raised x =>
              simp only [Prod.mk.injEq] at h; obtain ⟨rfl, _⟩ := h
              exact ⟨wf2, e12.toStepQuiet, e12.sameClock, e12.current, e12.currentHandle⟩
            | outOfFuel =>
              simp only [Prod.mk.injEq] at h; obtain ⟨rfl, _⟩ := h
              exact ⟨wf2, e12.toStepQuiet, e12.sameClock, e12.current, e12.currentHandle⟩

end Desper.Loop
