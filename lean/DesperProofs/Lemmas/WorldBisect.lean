import DesperModel.World
/-
  bisect_right (desper/bisect.py:19-50) and the stable insertion built on it.
-/
namespace Desper.World
open Desper

/-- non-decreasing list of keys -/
def SortedKeys (keys : List Int) : Prop :=
  ∀ i j : Nat, i ≤ j → j < keys.length → keys[i]?.getD 0 ≤ keys[j]?.getD 0

theorem bisectRight_spec (keys : List Int) (x : Int) (hs : SortedKeys keys) :
    ∀ (fuel lo hi : Nat), lo ≤ hi → hi ≤ keys.length → hi - lo < fuel →
      (∀ j : Nat, j < lo → keys[j]?.getD 0 ≤ x) →
      (∀ j : Nat, hi ≤ j → j < keys.length → x < keys[j]?.getD 0) →
      lo ≤ bisectRight keys x fuel lo hi ∧ bisectRight keys x fuel lo hi ≤ hi ∧
      (∀ j : Nat, j < bisectRight keys x fuel lo hi → keys[j]?.getD 0 ≤ x) ∧
      (∀ j : Nat, bisectRight keys x fuel lo hi ≤ j → j < keys.length → x < keys[j]?.getD 0) := by
  intro fuel
  induction fuel with
  | zero => intro lo hi _ _ hf; omega
  | succ fuel ih =>
    intro lo hi hlo hhi hf hL hH
    simp only [bisectRight]
    by_cases hlt : lo < hi
    · simp only [hlt, if_true]
      have hmid1 : lo ≤ (lo + hi) / 2 := by omega
      have hmid2 : (lo + hi) / 2 < hi := by omega
      by_cases hx : x < keys[(lo + hi) / 2]?.getD 0
      · simp only [hx, if_true]
        have := ih lo ((lo + hi) / 2) hmid1 (by omega) (by omega) hL (by
          intro j hj hjl
          exact Int.lt_of_lt_of_le hx (hs _ _ hj hjl))
        exact ⟨this.1, by omega, this.2.2.1, this.2.2.2⟩
      · simp only [hx, if_false]
        have hle : keys[(lo + hi) / 2]?.getD 0 ≤ x := Int.not_lt.mp hx
        have := ih ((lo + hi) / 2 + 1) hi (by omega) hhi (by omega) (by
          intro j hj
          exact Int.le_trans (hs j _ (by omega) (by omega)) hle) hH
        exact ⟨by omega, this.2.1, this.2.2.1, this.2.2.2⟩
    · simp only [hlt, if_false]
      have : lo = hi := by omega
      subst this
      exact ⟨Nat.le_refl _, Nat.le_refl _, hL, hH⟩

/-- the postcondition of `bisect_right(a, x, key=…)` on a sorted list: everything before the
returned index is `≤ x`, everything from it on is `> x` -/
theorem bisectRight_post (keys : List Int) (x : Int) (hs : SortedKeys keys) :
    let i := bisectRight keys x (keys.length + 1) 0 keys.length
    i ≤ keys.length ∧ (∀ j : Nat, j < i → keys[j]?.getD 0 ≤ x) ∧
    (∀ j : Nat, i ≤ j → j < keys.length → x < keys[j]?.getD 0) := by
  have := bisectRight_spec keys x hs (keys.length + 1) 0 keys.length (Nat.zero_le _) (Nat.le_refl _)
    (by omega) (by intro j hj; omega) (by intro j h1 h2; omega)
  exact ⟨this.2.1, this.2.2.1, this.2.2.2⟩

end Desper.World
