import DesperProofs.Lemmas.WorldProc
/-
  Operations on entities, components and events never touch the processor tables.
-/
namespace Desper.World
open Desper

structure SameProcs (s s' : St) : Prop where
  procs : s'.procs = s.procs
  sorted : s'.sorted = s.sorted
  prio : s'.prio = s.prio

theorem SameProcs.refl (s : St) : SameProcs s s := ⟨rfl, rfl, rfl⟩
theorem SameProcs.trans {a b c : St} (h1 : SameProcs a b) (h2 : SameProcs b c) : SameProcs a c :=
  ⟨h2.procs.trans h1.procs, h2.sorted.trans h1.sorted, h2.prio.trans h1.prio⟩
theorem SameTables.toProcs {s s' : St} (h : SameTables U s s') : SameProcs s s' :=
  ⟨h.procs, h.sorted, h.prio⟩

theorem detach_procs (s : St) (e : Ent) (st : Ty) : SameProcs s (detach s e st) := by
  unfold detach; simp only; split <;> exact ⟨rfl, rfl, rfl⟩

theorem removeComponent_procs (U : Universe) [U.NoReenter] (s : St) (e : Ent) (t : Ty) :
    SameProcs s (removeComponent U s e t).1 := by
  rcases removeComponent_spec U s e t with ⟨_, heq⟩ | ⟨st, c, _, _, _, hsame⟩
  · rw [heq]; exact .refl s
  · exact (detach_procs s e st).trans hsame.toProcs

theorem removeTypes_procs (U : Universe) [U.NoReenter] (s : St) (e : Ent) (ts : List Ty) :
    SameProcs s (removeTypes U s e ts).1 := by
  induction ts generalizing s with
  | nil => exact .refl s
  | cons t ts ih =>
    simp only [removeTypes]
    have h1 := removeComponent_procs U s e t
    cases hx : removeComponent U s e t with
    | mk s' r =>
      obtain ⟨o, c⟩ := r
      rw [hx] at h1
      cases o <;> simp only
      · exact h1.trans (ih s')
      all_goals exact h1

theorem attachEvents_procs (U : Universe) [U.NoReenter] (s : St) (o : Obj) (ent : Option Ent) :
    SameProcs s (attachEvents U s o ent).1 := (attachEvents_tables U s o ent).toProcs

theorem attachAll_procs (U : Universe) [U.NoReenter] (s : St) (e : Ent) (cs : List Obj) :
    SameProcs s (attachAll U s e cs).1 := (attachAll_tables U s e cs).toProcs

theorem foldAttach_procs (U : Universe) (e : Ent) (cs : List Obj) (s : St) :
    SameProcs s (cs.foldl (fun s c => attachTables U s e c) s) := by
  induction cs generalizing s with
  | nil => exact .refl s
  | cons c cs ih =>
    have h0 : SameProcs s (attachTables U s e c) := ⟨rfl, rfl, rfl⟩
    exact h0.trans (ih _)

theorem createEntity_procs (U : Universe) [U.NoReenter] (s : St) (id? : Option Ent) (cs : List Obj) :
    SameProcs s (createEntity U s id? cs).1 := by
  unfold createEntity
  cases id? with
  | some e =>
    simp only
    have h1 := removeTypes_procs U s e ((Dict.keys (row s e)).filter (fun t => cs.any (fun c => tyOf U c = t)))
    cases hx : removeTypes U s e ((Dict.keys (row s e)).filter (fun t => cs.any (fun c => tyOf U c = t))) with
    | mk s' o =>
      rw [hx] at h1
      cases o <;> simp only
      · exact h1.trans ((foldAttach_procs U e cs s').trans (attachAll_procs U _ e cs))
      all_goals exact h1
  | none =>
    simp only
    generalize freshFrom (Dict.keys s.ents) ((Dict.keys s.ents).length + 1) s.nextId = n
    have h0 : SameProcs s { s with nextId := n + 1 } := ⟨rfl, rfl, rfl⟩
    have h1 := removeTypes_procs U { s with nextId := n + 1 } n
      ((Dict.keys (row { s with nextId := n + 1 } n)).filter (fun t => cs.any (fun c => tyOf U c = t)))
    cases hx : removeTypes U { s with nextId := n + 1 } n
        ((Dict.keys (row { s with nextId := n + 1 } n)).filter (fun t => cs.any (fun c => tyOf U c = t))) with
    | mk s' o =>
      rw [hx] at h1
      cases o <;> simp only
      · exact h0.trans (h1.trans ((foldAttach_procs U n cs s').trans (attachAll_procs U _ n cs)))
      all_goals exact h0.trans h1

end Desper.World

namespace Desper.World
open Desper

theorem addComponent_procs (U : Universe) [U.NoReenter] (s : St) (e : Ent) (c : Obj) :
    SameProcs s (addComponent U s e c).1 := by
  unfold addComponent
  simp only
  split
  · rename_i s' hx
    have h1 : SameProcs s s' := by
      split at hx
      · have := removeComponent_procs U s e (tyOf U c)
        simp only [Prod.mk.injEq] at hx
        rw [← hx.1]; exact this
      · simp only [Prod.mk.injEq] at hx; rw [← hx.1]; exact .refl s
    have h2 : SameProcs s' (attachTables U s' e c) := ⟨rfl, rfl, rfl⟩
    exact h1.trans (h2.trans (attachEvents_procs U _ c (some e)))
  · rename_i r hne
    split
    · exact removeComponent_procs U s e (tyOf U c)
    · exact .refl s

theorem deleteEntity_procs (U : Universe) [U.NoReenter] (s : St) (e : Ent) (imm : Bool) :
    SameProcs s (deleteEntity U s e imm).1 := by
  unfold deleteEntity
  split
  · split
    · exact .refl s
    · exact removeTypes_procs U s e _
  · exact ⟨rfl, rfl, rfl⟩

theorem sweep_procs (U : Universe) [U.NoReenter] (s : St) (es : List Ent) : SameProcs s (sweep U s es).1 := by
  induction es generalizing s with
  | nil => exact .refl s
  | cons e es ih =>
    simp only [sweep]
    split
    · exact .refl s
    · rename_i r hr
      have h1 := removeTypes_procs U s e (Dict.keys r)
      cases hx : removeTypes U s e (Dict.keys r) with
      | mk s' o =>
        rw [hx] at h1
        cases o <;> simp only
        · exact h1.trans (ih s')
        all_goals exact h1

theorem clearDead_procs (U : Universe) [U.NoReenter] (s : St) : SameProcs s (clearDead U s).1 := by
  unfold clearDead
  split
  · exact .refl s
  · have h0 : SameProcs s { s with dead := [], sweepHints := s.sweepHints.drop 1 } := ⟨rfl, rfl, rfl⟩
    exact h0.trans (sweep_procs U _ _)

theorem callCb_procs (U : Universe) [U.NoReenter] (s : St) (o : Obj) (m : String) (e : Entry) :
    SameProcs s (callCb U s o m e).1 := (callCb_tables U s o m e).toProcs

theorem deliverPlain_tables (U : Universe) [U.NoReenter] (s : St) (ev args : String) :
    SameTables U s (deliverPlain U s ev args).1 := by
  unfold deliverPlain
  generalize s.registered = l
  suffices H : ∀ (acc : St × Outcome), SameTables U s acc.1 →
      SameTables U s (l.foldl (fun (acc : St × Outcome) o =>
        match acc.2 with
        | .ok =>
          match (U.mapOf o).bind (fun m => Dict.get? m ev) with
          | some meth => callCb U acc.1 o meth (.probe o meth args)
          | none => acc
        | _ => acc) acc).1 from H (s, .ok) (.refl s)
  induction l with
  | nil => intro acc h; exact h
  | cons o l ih =>
    intro acc h
    simp only [List.foldl_cons]
    apply ih
    obtain ⟨a1, a2⟩ := acc
    cases a2 <;> simp only
    · split
      · exact SameTables.trans h (callCb_tables U a1 o _ _)
      · exact h
    all_goals exact h

theorem dispatchPlain_tables (U : Universe) [U.NoReenter] (s : St) (ev args : String) :
    SameTables U s (dispatchPlain U s ev args).1 := by
  unfold dispatchPlain
  split
  · exact .refl s
  · split
    · exact ⟨rfl, rfl, fun _ => rfl, rfl, rfl, rfl, rfl, fun _ h => h⟩
    · exact deliverPlain_tables U s ev args

theorem runProcs_tables (U : Universe) [U.NoReenter] (s : St) (dt : String) (ps : List Obj) :
    SameTables U s (runProcs U s dt ps).1 := by
  induction ps generalizing s with
  | nil => exact .refl s
  | cons p ps ih =>
    simp only [runProcs]
    have h1 := callCb_tables U s p "process" (.proc p dt)
    cases hx : callCb U s p "process" (.proc p dt) with
    | mk s' o =>
      rw [hx] at h1
      cases o <;> simp only
      · split
        · rename_i s'' hy
          have h2 : SameTables U s' s'' := by
            split at hy
            · have := dispatchPlain_tables U s' "on_update" dt
              rw [hy] at this; exact this
            · simp only [Prod.mk.injEq] at hy; rw [← hy.1]; exact .refl s'
          exact h1.trans (h2.trans (ih s''))
        · rename_i r hne
          split
          · exact h1.trans (dispatchPlain_tables U s' "on_update" dt)
          · exact h1
      all_goals exact h1

theorem process_procs (U : Universe) [U.NoReenter] (s : St) (dt : String) : SameProcs s (process U s dt).1 := by
  unfold process
  have h1 := clearDead_procs U s
  cases hx : clearDead U s with
  | mk s' o =>
    rw [hx] at h1
    cases o <;> simp only
    · exact h1.trans (runProcs_tables U s' dt _).toProcs
    all_goals exact h1

theorem deliverQ_tables (U : Universe) [U.NoReenter] (s : St) (q : QEv) : SameTables U s (deliverQ U s q).1 := by
  cases q with
  | plain ev args =>
    simp only [deliverQ]
    split
    · exact deliverPlain_tables U s ev args
    · exact .refl s
  | relay event h ent =>
    simp only [deliverQ, deliverRelay]
    split
    · exact .refl s
    · split
      · exact .refl s
      · exact SameTables.trans (ctrlRecord_tables U s event h ent) (callCb_tables U _ h _ _)

theorem releaseQ_tables (U : Universe) [U.NoReenter] (s : St) (qs : List QEv) :
    SameTables U s (releaseQ U s qs).1 := by
  induction qs generalizing s with
  | nil => exact ⟨rfl, rfl, fun _ => rfl, rfl, rfl, rfl, rfl, fun _ h => h⟩
  | cons q qs ih =>
    simp only [releaseQ]
    have h0 : SameTables U s { s with queue := qs } := ⟨rfl, rfl, fun _ => rfl, rfl, rfl, rfl, rfl, fun _ h => h⟩
    have h1 := deliverQ_tables U { s with queue := qs } q
    cases hx : deliverQ U { s with queue := qs } q with
    | mk s' o =>
      rw [hx] at h1
      cases o <;> simp only
      · exact h0.trans (h1.trans (ih s'))
      all_goals exact h0.trans h1

theorem setEnabled_tables (U : Universe) [U.NoReenter] (s : St) (b : Bool) :
    SameTables U s (setEnabled U s b).1 := by
  unfold setEnabled
  simp only
  have h0 : SameTables U s { s with enabled := b } := ⟨rfl, rfl, fun _ => rfl, rfl, rfl, rfl, rfl, fun _ h => h⟩
  split
  · exact h0.trans (releaseQ_tables U _ _)
  · exact h0

end Desper.World
