import DesperModel.Loop
/-
  Helper lemmas for the loop model (C13, C14): well-formedness of states, the "user code only
  extends" relation `Ext`, and its preservation by every function user code can reach.
-/
namespace Desper.Loop

@[simp] theorem upd_same {α β : Type} [DecidableEq α] (f : α → β) (a : α) (b : β) :
    upd f a b a = b := by simp [upd]

theorem upd_ne {α β : Type} [DecidableEq α] (f : α → β) {a x : α} (b : β) (h : x ≠ a) :
    upd f a b x = f x := by simp [upd, h]

/-- entries that user code (actions, callbacks) can produce -/
def Entry.quiet : Entry → Bool
  | .load _ => true
  | .ev _ _ _ => true
  | .peek _ => true
  | _ => false

/-- a delivery in world instance `i` -/
def Entry.evOf (i : Inst) : Entry → Bool
  | .ev j _ _ => decide (j = i)
  | _ => false

/-- any entry that concerns world instance `i` -/
def Entry.of (i : Inst) : Entry → Bool
  | .ev j _ _ => decide (j = i)
  | .frame j _ => decide (j = i)
  | .proc j _ _ => decide (j = i)
  | _ => false

/-- World instances are named by load numbers: numbers above the load count are unused, cached
numbers and the current world exist. -/
structure WF (s : St) : Prop where
  fresh : ∀ h n, s.loads h < n → s.worlds ⟨h, n⟩ = none
  cached : ∀ h n, s.cache h = some n → ∃ w, s.worlds ⟨h, n⟩ = some w
  cur : ∀ i, s.current = some i → ∃ w, s.worlds i = some w

/-- `Ext P s s'`: `s'` is reached from `s` by code that leaves the loop's own fields alone, only
appends log entries satisfying `P`, never delivers in a muted world, never un-mutes a world and
only appends to the held events of a muted world. -/
structure Ext (P : Entry → Prop) (s s' : St) : Prop where
  current : s'.current = s.current
  currentHandle : s'.currentHandle = s.currentHandle
  running : s'.running = s.running
  last : s'.last = s.last
  log : ∃ ext, s'.log = ext ++ s.log ∧ (∀ e ∈ ext, P e) ∧
    ∀ i w, s.worlds i = some w → w.enabled = false → ∀ e ∈ ext, e.evOf i = false
  held : ∀ i w, s.worlds i = some w → w.enabled = false →
    ∃ w', s'.worlds i = some w' ∧ w'.enabled = false ∧ ∃ q, w'.queue = w.queue ++ q

theorem Ext.refl (P : Entry → Prop) (s : St) : Ext P s s :=
  ⟨rfl, rfl, rfl, rfl, ⟨[], by simp⟩, fun i w h1 h2 => ⟨w, h1, h2, [], by simp⟩⟩

theorem Ext.trans {P : Entry → Prop} {s1 s2 s3 : St} (a : Ext P s1 s2) (b : Ext P s2 s3) :
    Ext P s1 s3 := by
  refine ⟨b.current.trans a.current, b.currentHandle.trans a.currentHandle,
    b.running.trans a.running, b.last.trans a.last, ?_, ?_⟩
  · obtain ⟨e1, h1, p1, q1⟩ := a.log
    obtain ⟨e2, h2, p2, q2⟩ := b.log
    refine ⟨e2 ++ e1, by simp [h2, h1], ?_, ?_⟩
    · intro e he
      rcases List.mem_append.mp he with h | h
      · exact p2 e h
      · exact p1 e h
    · intro i w hw hd e he
      rcases List.mem_append.mp he with h | h
      · obtain ⟨w', hw', hd', _⟩ := a.held i w hw hd
        exact q2 i w' hw' hd' e h
      · exact q1 i w hw hd e h
  · intro i w hw hd
    obtain ⟨w', hw', hd', q, hq⟩ := a.held i w hw hd
    obtain ⟨w'', hw'', hd'', q', hq'⟩ := b.held i w' hw' hd'
    exact ⟨w'', hw'', hd'', q ++ q', by simp [hq', hq]⟩

theorem Ext.mono {P Q : Entry → Prop} {s s' : St} (h : ∀ e, P e → Q e) (a : Ext P s s') :
    Ext Q s s' := by
  refine ⟨a.current, a.currentHandle, a.running, a.last, ?_, a.held⟩
  obtain ⟨e, h1, p, q⟩ := a.log
  exact ⟨e, h1, fun x hx => h x (p x hx), q⟩

abbrev Quiet : Entry → Prop := fun e => e.quiet = true

/-! ### primitives -/

theorem clearHandle_wf {s : St} (h : Handle) (wf : WF s) : WF (clearHandle s h) := by
  refine ⟨wf.fresh, ?_, wf.cur⟩
  intro h' n hc
  by_cases e : h' = h
  · subst e; simp [clearHandle] at hc
  · simp [clearHandle, upd_ne _ _ e] at hc; exact wf.cached h' n hc

theorem clearHandle_ext (P : Entry → Prop) (s : St) (h : Handle) : Ext P s (clearHandle s h) :=
  ⟨rfl, rfl, rfl, rfl, ⟨[], by simp [clearHandle]⟩, fun i w h1 h2 => ⟨w, h1, h2, [], by simp⟩⟩

theorem callHandle_spec (U : Universe) {s s' : St} {h : Handle} {i : Inst} (wf : WF s)
    (hc : callHandle U s h = (s', i)) :
    WF s' ∧ Ext Quiet s s' ∧ i.h = h ∧ s'.cache h = some i.n ∧ (∃ w, s'.worlds i = some w) ∧
      s'.delivered = s.delivered := by
  unfold callHandle at hc
  split at hc
  · rename_i n hn
    simp only [Prod.mk.injEq] at hc
    obtain ⟨rfl, rfl⟩ := hc
    exact ⟨wf, Ext.refl _ _, rfl, hn, wf.cached h n hn, rfl⟩
  · rename_i hn
    simp only [Prod.mk.injEq] at hc
    obtain ⟨rfl, rfl⟩ := hc
    have hnone : s.worlds ⟨h, s.loads h + 1⟩ = none := wf.fresh h _ (Nat.lt_succ_self _)
    refine ⟨⟨?_, ?_, ?_⟩, ⟨rfl, rfl, rfl, rfl, ?_, ?_⟩, rfl, by simp, by simp, rfl⟩
    · intro h' n hl
      by_cases e : h' = h
      · subst e
        simp only [upd_same] at hl
        have : (⟨h', n⟩ : Inst) ≠ ⟨h', s.loads h' + 1⟩ := by
          intro c; injection c with _ c; omega
        simp only [upd_ne _ _ this]
        exact wf.fresh h' n (by omega)
      · simp only [upd_ne _ _ e] at hl
        have : (⟨h', n⟩ : Inst) ≠ ⟨h, s.loads h + 1⟩ := by
          intro c; injection c with c _; exact e c
        simp only [upd_ne _ _ this]
        exact wf.fresh h' n hl
    · intro h' n hc'
      by_cases e : h' = h
      · subst e
        simp only [upd_same, Option.some.injEq] at hc'
        subst hc'
        exact ⟨_, upd_same _ _ _⟩
      · simp only [upd_ne _ _ e] at hc'
        obtain ⟨w, hw⟩ := wf.cached h' n hc'
        have : (⟨h', n⟩ : Inst) ≠ ⟨h, s.loads h + 1⟩ := by
          intro c; injection c with c _; exact e c
        exact ⟨w, by simp only [upd_ne _ _ this]; exact hw⟩
    · intro i hi
      obtain ⟨w, hw⟩ := wf.cur i hi
      by_cases e : i = ⟨h, s.loads h + 1⟩
      · subst e; exact ⟨_, upd_same _ _ _⟩
      · exact ⟨w, by simp only [upd_ne _ _ e]; exact hw⟩
    · refine ⟨[.load ⟨h, s.loads h + 1⟩], by simp, by simp [Quiet, Entry.quiet], ?_⟩
      intro i w _ _ e he
      simp only [List.mem_singleton] at he
      subst he; rfl
    · intro i w hw hd
      have e : i ≠ ⟨h, s.loads h + 1⟩ := by
        intro c; subst c; rw [hnone] at hw; cases hw
      exact ⟨w, by simp only [upd_ne _ _ e]; exact hw, hd, [], by simp⟩

theorem setWorld_wf {s : St} {i : Inst} {w0 : World} (w : World) (wf : WF s)
    (hw : s.worlds i = some w0) : WF (setWorld s i w) := by
  refine ⟨?_, ?_, ?_⟩
  · intro h n hl
    have e : (⟨h, n⟩ : Inst) ≠ i := by
      intro c; subst c; rw [wf.fresh h n hl] at hw; cases hw
    simp only [setWorld, upd_ne _ _ e]; exact wf.fresh h n hl
  · intro h n hc
    by_cases e : (⟨h, n⟩ : Inst) = i
    · subst e; exact ⟨w, by simp [setWorld]⟩
    · obtain ⟨w', hw'⟩ := wf.cached h n hc
      exact ⟨w', by simp only [setWorld, upd_ne _ _ e]; exact hw'⟩
  · intro j hj
    by_cases e : j = i
    · subst e; exact ⟨w, by simp [setWorld]⟩
    · obtain ⟨w', hw'⟩ := wf.cur j hj
      exact ⟨w', by simp only [setWorld, upd_ne _ _ e]; exact hw'⟩

/-- replacing a world by one that is muted, has the same dead coroutines and a longer queue -/
theorem setWorld_ext (P : Entry → Prop) {s : St} {i : Inst} {w0 : World} (w : World)
    (hw : s.worlds i = some w0) (hen : w.enabled = false)
    (hq : ∃ q, w.queue = w0.queue ++ q) : Ext P s (setWorld s i w) := by
  refine ⟨rfl, rfl, rfl, rfl, ⟨[], by simp [setWorld]⟩, ?_⟩
  intro j wj hj hd
  by_cases e : j = i
  · subst e
    rw [hw] at hj; cases hj
    exact ⟨w, by simp [setWorld], hen, hq⟩
  · exact ⟨wj, by simp only [setWorld, upd_ne _ _ e]; exact hj, hd, [], by simp⟩

theorem disable_spec (P : Entry → Prop) {s s' : St} {i : Inst} {o : Outcome} (wf : WF s)
    (h : disable s i = (s', o)) : WF s' ∧ Ext P s s' := by
  unfold disable at h
  split at h
  · simp only [Prod.mk.injEq] at h; obtain ⟨rfl, _⟩ := h; exact ⟨wf, Ext.refl _ _⟩
  · rename_i w hw
    simp only [Prod.mk.injEq] at h; obtain ⟨rfl, _⟩ := h
    exact ⟨setWorld_wf _ wf hw, setWorld_ext P _ hw rfl ⟨[], by simp⟩⟩

/-- a step that only logs a delivery in an enabled world -/
theorem logEv_ext {s : St} {i : Inst} {w : World} (e : Ev) (a : Args) (hw : s.worlds i = some w)
    (hen : w.enabled = true) :
    Ext Quiet s { s with delivered := s.delivered + 1, log := .ev i e a :: s.log } := by
  refine ⟨rfl, rfl, rfl, rfl, ⟨[.ev i e a], by simp, by simp [Quiet, Entry.quiet], ?_⟩, ?_⟩
  · intro j wj hj hd x hx
    simp only [List.mem_singleton] at hx
    subst hx
    by_cases c : i = j
    · subst c; rw [hw] at hj; cases hj; rw [hen] at hd; cases hd
    · simp [Entry.evOf, c]
  · intro j wj hj hd
    exact ⟨wj, hj, hd, [], by simp⟩

theorem dispatchWith_spec (U : Universe) {k : St → Act → St × Outcome}
    (hk : ∀ s a s' o, WF s → k s a = (s', o) → WF s' ∧ Ext Quiet s s')
    {s s' : St} {i : Inst} {e : Ev} {a : Args} {o : Outcome} (wf : WF s)
    (h : dispatchWith U k s i e a = (s', o)) : WF s' ∧ Ext Quiet s s' := by
  unfold dispatchWith at h
  split at h
  · simp only [Prod.mk.injEq] at h; obtain ⟨rfl, _⟩ := h; exact ⟨wf, Ext.refl _ _⟩
  · rename_i w hw
    split at h
    · rename_i hen
      simp only [Prod.mk.injEq] at h; obtain ⟨rfl, _⟩ := h
      have hen' : w.enabled = false := by simpa using hen
      exact ⟨setWorld_wf _ wf hw, setWorld_ext _ _ hw hen' ⟨[(e, a)], rfl⟩⟩
    · rename_i hen
      have hen' : w.enabled = true := by simpa using hen
      have wf' : WF { s with delivered := s.delivered + 1, log := .ev i e a :: s.log } :=
        ⟨wf.fresh, wf.cached, wf.cur⟩
      obtain ⟨wf'', ex⟩ := hk _ _ _ _ wf' h
      exact ⟨wf'', (logEv_ext e a hw hen').trans ex⟩

/-- what the lemmas below need to know about the continuation that runs reactions -/
abbrev KSpec (k : St → Act → St × Outcome) : Prop :=
  ∀ s a s' o, WF s → k s a = (s', o) → WF s' ∧ Ext Quiet s s'

theorem quitWith_spec (U : Universe) {k : St → Act → St × Outcome} (hk : KSpec k)
    {s s' : St} {i : Inst} {o : Outcome} (wf : WF s) (h : quitWith U k s i = (s', o)) :
    WF s' ∧ Ext Quiet s s' := by
  unfold quitWith at h
  cases hdw : dispatchWith U k s i .quit .unit with
  | mk s1 o1 =>
    have r := dispatchWith_spec U hk wf hdw
    rw [hdw] at h
    cases o1 <;> simp only [Prod.mk.injEq] at h <;> obtain ⟨rfl, _⟩ := h <;> exact r

theorem switchOut_spec (U : Universe) {k : St → Act → St × Outcome} (hk : KSpec k)
    {s s' : St} {frm : Option Inst} {to : Inst} {o : Outcome} (wf : WF s)
    (h : switchOut U k s frm to = (s', o)) : WF s' ∧ Ext Quiet s s' := by
  unfold switchOut at h
  cases frm with
  | none => simp only [Prod.mk.injEq] at h; obtain ⟨rfl, _⟩ := h; exact ⟨wf, Ext.refl _ _⟩
  | some f =>
    simp only at h
    cases hdw : dispatchWith U k s f .switchOut (.worlds (some f) to) with
    | mk s2 o2 =>
      obtain ⟨wf2, e2⟩ := dispatchWith_spec U hk wf hdw
      rw [hdw] at h
      cases o2 with
      | ok =>
        obtain ⟨wf3, e3⟩ := disable_spec Quiet wf2 h
        exact ⟨wf3, e2.trans e3⟩
      | raised x => simp only [Prod.mk.injEq] at h; obtain ⟨rfl, _⟩ := h; exact ⟨wf2, e2⟩
      | outOfFuel => simp only [Prod.mk.injEq] at h; obtain ⟨rfl, _⟩ := h; exact ⟨wf2, e2⟩

theorem switchIn_spec (U : Universe) {k : St → Act → St × Outcome} (hk : KSpec k)
    {s s' : St} {frm : Option Inst} {to : Inst} {hh : Handle} {cc : Bool} {o : Outcome} (wf : WF s)
    (h : switchIn U k s frm to hh cc = (s', o)) : WF s' ∧ Ext Quiet s s' := by
  unfold switchIn at h
  cases hdis : disable s to with
  | mk s4 o4 =>
    obtain ⟨wf4, e4⟩ := disable_spec Quiet wf hdis
    rw [hdis] at h
    cases o4 with
    | ok =>
      simp only at h
      cases hdw : dispatchWith U k s4 to .switchIn (.worlds frm to) with
      | mk s5 o5 =>
        obtain ⟨wf5, e5⟩ := dispatchWith_spec U hk wf4 hdw
        rw [hdw] at h
        cases o5 <;> simp only [Prod.mk.injEq] at h <;> obtain ⟨rfl, _⟩ := h <;>
          exact ⟨wf5, e4.trans e5⟩
    | raised x => simp only [Prod.mk.injEq] at h; obtain ⟨rfl, _⟩ := h; exact ⟨wf4, e4⟩
    | outOfFuel => simp only [Prod.mk.injEq] at h; obtain ⟨rfl, _⟩ := h; exact ⟨wf4, e4⟩

theorem doSwitch_spec (U : Universe) {k : St → Act → St × Outcome} (hk : KSpec k)
    {s s' : St} {hh : Handle} {cc cn : Bool} {o : Outcome} (wf : WF s)
    (h : doSwitch U k s hh cc cn = (s', o)) : WF s' ∧ Ext Quiet s s' := by
  unfold doSwitch at h
  simp only at h
  generalize hs0 : (if (cn || restartOf s hh cc) = true then clearHandle s hh else s) = s0 at h
  have wf0 : WF s0 := by
    subst hs0; split
    · exact clearHandle_wf _ wf
    · exact wf
  have e0 : Ext Quiet s s0 := by
    subst hs0; split
    · exact clearHandle_ext _ _ _
    · exact Ext.refl _ _
  cases hc : callHandle U s0 hh with
  | mk s1 to =>
    rw [hc] at h
    obtain ⟨wf1, e1, _⟩ := callHandle_spec U wf0 hc
    simp only at h
    cases ho : switchOut U k s1 s.current to with
    | mk s3 o3 =>
      obtain ⟨wf3, e3⟩ := switchOut_spec U hk wf1 ho
      rw [ho] at h
      cases o3 with
      | ok =>
        obtain ⟨wf5, e5⟩ := switchIn_spec U hk wf3 h
        exact ⟨wf5, ((e0.trans e1).trans e3).trans e5⟩
      | raised x =>
        simp only [Prod.mk.injEq] at h; obtain ⟨rfl, _⟩ := h
        exact ⟨wf3, (e0.trans e1).trans e3⟩
      | outOfFuel =>
        simp only [Prod.mk.injEq] at h; obtain ⟨rfl, _⟩ := h
        exact ⟨wf3, (e0.trans e1).trans e3⟩

/-- User code keeps states well-formed and only extends them. -/
theorem act_spec (U : Universe) : ∀ (fuel : Nat), KSpec (act U fuel) := by
  intro fuel
  induction fuel with
  | zero =>
    intro s a s' o wf h
    simp only [act, Prod.mk.injEq] at h; obtain ⟨rfl, _⟩ := h; exact ⟨wf, Ext.refl _ _⟩
  | succ fuel ih =>
    intro s a s' o wf h
    cases a with
    | none => simp only [act, Prod.mk.injEq] at h; obtain ⟨rfl, _⟩ := h; exact ⟨wf, Ext.refl _ _⟩
    | raiseQuit =>
      simp only [act, Prod.mk.injEq] at h; obtain ⟨rfl, _⟩ := h; exact ⟨wf, Ext.refl _ _⟩
    | raiseOther =>
      simp only [act, Prod.mk.injEq] at h; obtain ⟨rfl, _⟩ := h; exact ⟨wf, Ext.refl _ _⟩
    | raiseSwitch h' cc cn =>
      simp only [act, Prod.mk.injEq] at h; obtain ⟨rfl, _⟩ := h; exact ⟨wf, Ext.refl _ _⟩
    | quit =>
      simp only [act] at h
      split at h
      · simp only [Prod.mk.injEq] at h; obtain ⟨rfl, _⟩ := h; exact ⟨wf, Ext.refl _ _⟩
      · exact quitWith_spec U ih wf h
    | quitTo h' =>
      simp only [act] at h
      cases hc : callHandle U s h' with
      | mk s1 i =>
        rw [hc] at h
        obtain ⟨wf1, e1, _⟩ := callHandle_spec U wf hc
        obtain ⟨wf2, e2⟩ := quitWith_spec U ih wf1 h
        exact ⟨wf2, e1.trans e2⟩
    | switch h' cc cn =>
      simp only [act] at h
      exact doSwitch_spec U ih wf h

end Desper.Loop
