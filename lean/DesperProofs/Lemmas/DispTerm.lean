import DesperProofs.Lemmas.DispTop
/-
  Termination of dispatch and of the enabling assignment, with explicit fuel bounds, for listeners
  whose callbacks return without touching the dispatcher (the dispatcher's own loops; user callbacks
  are the only other source of non-termination and are bounded by the fuel itself).
-/
namespace Desper.Disp
open Desper

theorem length_filter_ne_lt {α : Type} [DecidableEq α] (l : List α) (x : α) (h : x ∈ l) :
    (l.filter (· ≠ x)).length < l.length := by
  induction l with
  | nil => simp at h
  | cons a l ih =>
    simp only [List.mem_cons] at h
    simp only [List.filter_cons]
    by_cases hax : a = x
    · subst hax
      simp only [ne_eq, not_true_eq_false, decide_false, Bool.false_eq_true, if_false, List.length_cons]
      exact Nat.lt_succ_of_le (List.length_filter_le _ _)
    · have hx : x ∈ l := by
        rcases h with h | h
        · exact absurd h.symm hax
        · exact h
      have := ih hx
      have hd : decide (a ≠ x) = true := by simpa using hax
      rw [if_pos hd]
      simp only [List.length_cons]
      omega

theorem deliver_passive_fuel {U : Universe} (hp : Passive U) :
    ∀ (fuel : Nat) (s : St) (rem : List (Obj × String)) (args : String), s.dying = [] →
      rem.length + 2 ≤ fuel → (deliver U fuel s rem args).2 ≠ .outOfFuel := by
  intro fuel
  induction fuel with
  | zero => intro s rem args _ h; omega
  | succ fuel ih =>
    intro s rem args hdy hf
    rw [deliver]
    by_cases hl : (rem.filter (fun p => s.alive p.1)).isEmpty = true
    · simp [hl]
    · simp only [hl, Bool.false_eq_true, if_false]
      cases hh : s.hints with
      | nil => simp
      | cons h hs =>
        simp only
        cases hfd : (rem.filter (fun p => s.alive p.1)).find? (fun p => p.1 = h) with
        | none => simp
        | some rm =>
          obtain ⟨r, m⟩ := rm
          simp only
          have hmem : (r, m) ∈ rem := (List.mem_filter.mp (List.mem_of_find?_eq_some hfd)).1
          rw [hp r m]
          cases fuel with
          | zero => omega
          | succ fuel' =>
            simp only [execOps]
            have hun : ∀ (st : St), st.pinned = r :: s.pinned → st.dying = [] →
                unpin st r = { st with pinned := s.pinned } := by
              intro st h1 h2; simp [unpin, h1, h2]
            have hun' := hun { s with hints := hs, calls := Dict.set s.calls (r, m) ((Dict.get? s.calls (r, m)).getD 0 + 1), pinned := r :: s.pinned, log := Entry.cb (some r) (U.impl r m) args :: s.log } rfl hdy
            rw [hun']
            apply ih
            · exact hdy
            · have := length_filter_ne_lt rem (r, m) hmem
              omega

/-- `dispatch` terminates: with passive listeners a fuel of `#listeners + 3` is never exhausted -/
theorem dispatch_passive_fuel {U : Universe} (hp : Passive U) (fuel : Nat) (s : St) (ev args : String)
    (hdy : s.dying = []) (hf : (evl s ev).length + 3 ≤ fuel) :
    (execOp U fuel s (.dispatch ev args)).2 ≠ .outOfFuel := by
  cases fuel with
  | zero => omega
  | succ fuel =>
    rw [execOp]
    cases hg : Dict.get? s.events ev with
    | none => simp
    | some l =>
      simp only
      split
      · simp
      · apply deliver_passive_fuel hp fuel s l args hdy
        have : evl s ev = l := by simp [evl, hg]
        rw [this] at hf; omega

/-- fuel that suffices to release a queue -/
def releaseBound (s : St) : List (String × String) → Nat
  | [] => 1
  | e :: q => (evl s e.1).length + 4 + releaseBound s q

/-- the enabling assignment terminates: each iteration removes the head of the queue, and with
passive listeners nothing is appended meanwhile -/
theorem release_passive_fuel {U : Universe} (hp : Passive U) :
    ∀ (fuel : Nat) (s : St), s.dying = [] → s.enabled = true → releaseBound s s.queue ≤ fuel →
      (release U fuel s).2 ≠ .outOfFuel := by
  intro fuel
  induction fuel with
  | zero =>
    intro s _ _ h
    cases hq : s.queue <;> simp [hq, releaseBound] at h
  | succ fuel ih =>
    intro s hdy hen hf
    rw [release]
    cases hq : s.queue with
    | nil => simp
    | cons e q =>
      obtain ⟨ev, args⟩ := e
      simp only
      rw [hq] at hf
      simp only [releaseBound] at hf
      have hfuel : (evl { s with queue := q, released := s.released ++ [(ev, args)] } ev).length + 3 ≤ fuel := by
        show (evl s ev).length + 3 ≤ fuel
        omega
      have hne := dispatch_passive_fuel hp fuel { s with queue := q, released := s.released ++ [(ev, args)] }
        ev args hdy hfuel
      have key := dispatch_passive hp fuel { s with queue := q, released := s.released ++ [(ev, args)] }
        ev args hdy hen
      generalize execOp U fuel { s with queue := q, released := s.released ++ [(ev, args)] }
          (.dispatch ev args) = res at hne key ⊢
      simp only [hen, Bool.not_true, Bool.false_eq_true, if_false]
      obtain ⟨s', o⟩ := res
      cases o with
      | ok =>
        simp only
        obtain ⟨_, _, _, hsame⟩ := key rfl
        apply ih s'
        · rw [hsame.dying]; exact hdy
        · rw [hsame.enabled]; exact hen
        · have hq' : s'.queue = q := hsame.queue
          have hb : ∀ l, releaseBound s' l = releaseBound s l := by
            intro l
            induction l with
            | nil => rfl
            | cons a l ihl =>
              have : evl s' a.1 = evl s a.1 := by
                have he : s'.events = s.events := hsame.events
                simp only [evl, he]
              simp only [releaseBound, this, ihl]
          rw [hq', hb]; omega
      | raised x => simp
      | outOfFuel => exact absurd rfl hne
      | badHint => simp

end Desper.Disp
