import DesperProofs.Lemmas.DispInv
namespace Desper.Disp
open Desper

theorem reach_topOp (U : Universe) (fuel : Nat) (s : St) (op : Op) : Reach U s (topOp U fuel s op) := by
  unfold topOp
  have := (reach_all U fuel).1 s op
  cases h : execOp U fuel s op with
  | mk s' o =>
    rw [h] at this
    exact Star.tail this (.push _ _ (by intros; simp))

theorem reach_run (U : Universe) (fuel : Nat) (s : St) (ops : List Op) : Reach U s (run U fuel s ops) := by
  induction ops generalizing s with
  | nil => exact .refl _
  | cons op rest ih => exact Star.trans (reach_topOp U fuel s op) (ih _)

/-- initial state of a scenario -/
def init (held hints : List Obj) : St := { held := held, hints := hints }

/-! ### queue history -/

def QInv (s : St) : Prop := s.enqueued = s.released ++ s.queue

theorem removeWeak_queue (s : St) (o : Obj) :
    (removeWeak s o).1.queue = s.queue ∧ (removeWeak s o).1.enqueued = s.enqueued ∧
    (removeWeak s o).1.released = s.released ∧ (removeWeak s o).1.enabled = s.enabled ∧
    (removeWeak s o).1.log = s.log ∧ (removeWeak s o).1.held = s.held ∧
    (removeWeak s o).1.pinned = s.pinned := by
  unfold removeWeak
  split
  · exact ⟨rfl, rfl, rfl, rfl, rfl, rfl, rfl⟩
  · simp only; split <;> exact ⟨rfl, rfl, rfl, rfl, rfl, rfl, rfl⟩

theorem finalize_queue (s : St) (o : Obj) :
    (finalize s o).queue = s.queue ∧ (finalize s o).enqueued = s.enqueued ∧
    (finalize s o).released = s.released ∧ (finalize s o).enabled = s.enabled ∧
    (finalize s o).log = s.log ∧ (finalize s o).held = s.held ∧
    (finalize s o).pinned = s.pinned := by
  unfold finalize
  exact removeWeak_queue _ o

theorem dropObj_queue (s : St) (o : Obj) :
    (dropObj s o).queue = s.queue ∧ (dropObj s o).enqueued = s.enqueued ∧
    (dropObj s o).released = s.released ∧ (dropObj s o).enabled = s.enabled ∧
    (dropObj s o).log = s.log ∧ (dropObj s o).held = s.held.filter (· ≠ o) ∧
    (dropObj s o).pinned = s.pinned := by
  unfold dropObj
  simp only
  split
  · exact ⟨rfl, rfl, rfl, rfl, rfl, rfl, rfl⟩
  · exact finalize_queue _ o

theorem unpin_queue (s : St) (o : Obj) :
    (unpin s o).queue = s.queue ∧ (unpin s o).enqueued = s.enqueued ∧
    (unpin s o).released = s.released ∧ (unpin s o).enabled = s.enabled ∧
    (unpin s o).log = s.log ∧ (unpin s o).held = s.held ∧
    (unpin s o).pinned = s.pinned.erase o := by
  unfold unpin
  simp only
  split
  · exact finalize_queue _ o
  · exact ⟨rfl, rfl, rfl, rfl, rfl, rfl, rfl⟩

theorem qinv_prim {U : Universe} {s s' : St} (h : QInv s) (p : Prim U s s') : QInv s' := by
  unfold QInv at *
  cases p with
  | push e _ => exact h
  | add o m _ _ => exact h
  | removeWeak o =>
    obtain ⟨a, b, c, _⟩ := removeWeak_queue s o
    rw [a, b, c]; exact h
  | drop o _ =>
    obtain ⟨a, b, c, _⟩ := dropObj_queue s o
    rw [a, b, c]; exact h
  | clear => rfl
  | enqueue ev args _ _ => simp only; rw [h, List.append_assoc]
  | setEnabled b => exact h
  | pop ev args q hq _ => simp only; rw [h, hq]; simp
  | call r m lm args hs k _ _ => exact h
  | unpin r =>
    obtain ⟨a, b, c, _⟩ := unpin_queue s r
    rw [a, b, c]; exact h

theorem qinv_reach {U : Universe} {s s' : St} (h : QInv s) (r : Reach U s s') : QInv s' :=
  Star.invariant (P := QInv) (fun _ _ ha p => qinv_prim ha p) r h

/-! ### the enabling assignment returns only when the queue is empty or dispatching is off again -/

theorem release_drains (U : Universe) (fuel : Nat) (s : St)
    (h : (release U fuel s).2 = .ok) :
    (release U fuel s).1.queue = [] ∨ (release U fuel s).1.enabled = false := by
  induction fuel generalizing s with
  | zero => simp [release] at h
  | succ fuel ih =>
    rw [release] at h ⊢
    cases hq : s.queue with
    | nil => simp [hq]
    | cons e q =>
      obtain ⟨ev, args⟩ := e
      simp only [hq] at h ⊢
      generalize execOp U fuel { s with queue := q, released := s.released ++ [(ev, args)] }
            (.dispatch ev args) = res at h ⊢
      by_cases he : s.enabled = true
      · simp only [he, Bool.not_true, Bool.false_eq_true, if_false] at h ⊢
        obtain ⟨s', o⟩ := res
        cases o with
        | ok => exact ih s' h
        | raised e => simp at h
        | outOfFuel => simp at h
        | badHint => simp at h
      · have he' : s.enabled = false := by simpa using he
        simp [he']

end Desper.Disp

namespace Desper.Disp
open Desper

/-! ### an object that is gone is never called -/

def isCallTo (o : Obj) : Entry → Bool
  | .cb (some r) _ _ => r == o
  | _ => false

/-- number of callbacks the log records for receiver `o` -/
def callsTo (o : Obj) (log : List Entry) : Nat := (log.filter (isCallTo o)).length

def Dead (o : Obj) (c : Nat) (s : St) : Prop := s.alive o = false ∧ callsTo o s.log = c

theorem dead_prim {U : Universe} {o : Obj} {c : Nat} {s s' : St} (h : Dead o c s) (p : Prim U s s') :
    Dead o c s' := by
  obtain ⟨hd, hc⟩ := h
  have hd' : o ∉ s.held ∧ o ∉ s.pinned := by
    simp only [St.alive, Bool.or_eq_false_iff] at hd
    constructor
    · intro hm; have : s.held.contains o = true := by simpa using hm
      rw [this] at hd; exact absurd hd.1 (by simp)
    · intro hm; have : s.pinned.contains o = true := by simpa using hm
      rw [this] at hd; exact absurd hd.2 (by simp)
  have mk : ∀ s' : St, (∀ x, x ∈ s'.held → x ∈ s.held) → (∀ x, x ∈ s'.pinned → x ∈ s.pinned) →
      s'.log = s.log → Dead o c s' := by
    intro s' h1 h2 h3
    refine ⟨?_, by rw [h3]; exact hc⟩
    simp only [St.alive, Bool.or_eq_false_iff]
    constructor
    · cases hh : s'.held.contains o with
      | false => rfl
      | true => exact absurd (h1 o (by simpa using hh)) hd'.1
    · cases hh : s'.pinned.contains o with
      | false => rfl
      | true => exact absurd (h2 o (by simpa using hh)) hd'.2
  cases p with
  | push e hne =>
    refine ⟨hd, ?_⟩
    simp only [St.push, callsTo, List.filter_cons]
    cases e with
    | cb r m a => exact absurd rfl (hne r m a)
    | ish _ _ => simpa [isCallTo, callsTo] using hc
    | gone _ => simpa [isCallTo, callsTo] using hc
    | res _ => simpa [isCallTo, callsTo] using hc
  | add x m _ _ => exact mk _ (fun _ h => h) (fun _ h => h) rfl
  | removeWeak x =>
    obtain ⟨_, _, _, _, a, b, c'⟩ := removeWeak_queue s x
    exact mk _ (fun _ h => b ▸ h) (fun _ h => c' ▸ h) a
  | drop x _ =>
    obtain ⟨_, _, _, _, a, b, c'⟩ := dropObj_queue s x
    exact mk _ (fun y h => by rw [b] at h; exact (List.mem_filter.mp h).1) (fun _ h => c' ▸ h) a
  | clear => exact mk _ (fun _ h => h) (fun _ h => h) rfl
  | enqueue ev args _ _ => exact mk _ (fun _ h => h) (fun _ h => h) rfl
  | setEnabled b => exact mk _ (fun _ h => h) (fun _ h => h) rfl
  | pop ev args q _ _ => exact mk _ (fun _ h => h) (fun _ h => h) rfl
  | call r m lm args hs k halive _ =>
    have hne : r ≠ o := by
      intro e; subst e; rw [hd] at halive; exact absurd halive (by simp)
    refine ⟨?_, ?_⟩
    · simp only [St.alive, Bool.or_eq_false_iff]
      constructor
      · cases hh : s.held.contains o with
        | false => rfl
        | true => exact absurd (by simpa using hh) hd'.1
      · cases hh : (r :: s.pinned).contains o with
        | false => rfl
        | true =>
          have : o ∈ r :: s.pinned := by simpa using hh
          simp only [List.mem_cons] at this
          rcases this with e | e
          · exact absurd e.symm hne
          · exact absurd e hd'.2
    · simp only [callsTo, List.filter_cons, isCallTo]
      have : (r == o) = false := by simpa using hne
      simp only [this]
      exact hc
  | unpin r =>
    obtain ⟨_, _, _, _, a, b, c'⟩ := unpin_queue s r
    exact mk _ (fun _ h => b ▸ h) (fun y h => by rw [c'] at h; exact List.mem_of_mem_erase h) a

theorem dead_reach {U : Universe} {o : Obj} {c : Nat} {s s' : St} (h : Dead o c s)
    (r : Reach U s s') : Dead o c s' :=
  Star.invariant (P := Dead o c) (fun _ _ ha p => dead_prim ha p) r h

/-! ### no callback is ever logged with a missing receiver -/

def NoNone (s : St) : Prop := ∀ m a, Entry.cb none m a ∉ s.log

theorem nonone_prim {U : Universe} {s s' : St} (h : NoNone s) (p : Prim U s s') : NoNone s' := by
  unfold NoNone at *
  cases p with
  | push e hne =>
    intro m a hm
    simp only [St.push, List.mem_cons] at hm
    rcases hm with e' | hm
    · exact hne none m a e'.symm
    · exact h m a hm
  | add x m _ _ => exact h
  | removeWeak x => rw [(removeWeak_queue s x).2.2.2.2.1]; exact h
  | drop x _ => rw [(dropObj_queue s x).2.2.2.2.1]; exact h
  | clear => exact h
  | enqueue ev args _ _ => exact h
  | setEnabled b => exact h
  | pop ev args q _ _ => exact h
  | call r m lm args hs k _ _ =>
    intro m' a hm
    simp only [List.mem_cons] at hm
    rcases hm with e' | hm
    · simp at e'
    · exact h m' a hm
  | unpin r => rw [(unpin_queue s r).2.2.2.2.1]; exact h

theorem nonone_reach {U : Universe} {s s' : St} (h : NoNone s) (r : Reach U s s') : NoNone s' :=
  Star.invariant (P := NoNone) (fun _ _ ha p => nonone_prim ha p) r h

end Desper.Disp
