import DesperProofs.Lemmas.WorldLife
/-
  The registered-listener set stays duplicate free; exact delivery of plain events.
-/
namespace Desper.World
open Desper

/-- the registered set of `s'` is duplicate free whenever that of `s` is -/
def RegOk (s s' : St) : Prop := s.registered.Nodup → s'.registered.Nodup

theorem RegOk.refl (s : St) : RegOk s s := id
theorem RegOk.trans {a b c : St} (h1 : RegOk a b) (h2 : RegOk b c) : RegOk a c := fun h => h2 (h1 h)
theorem RegOk.of_eq {s s' : St} (h : s'.registered = s.registered) : RegOk s s' := by
  intro hn; rw [h]; exact hn

theorem callCb_reg (U : Universe) [U.NoReenter] (s : St) (o : Obj) (m : String) (e : Entry) :
    (callCb U s o m e).1.registered = s.registered := by
  unfold callCb; simp only [Universe.NoReenter.noReenter]; split <;> split <;> rfl

theorem lifecycle_reg (U : Universe) [U.NoReenter] (s : St) (ev : String) (o : Obj) (m : Mapping) (ent : Option Ent) :
    (lifecycle U s ev o m ent).1.registered = s.registered := by
  unfold lifecycle
  split
  · rfl
  · split
    · rw [callCb_reg]; exact (ctrlRecord_fields U s ev o ent).2.2.2.2.2.1
    · split <;> rfl

theorem attachEvents_regOk (U : Universe) [U.NoReenter] (s : St) (o : Obj) (ent : Option Ent) :
    RegOk s (attachEvents U s o ent).1 := by
  unfold attachEvents
  split
  · exact .refl s
  · intro hn
    rw [lifecycle_reg]
    exact nodup_insertSorted _ _ hn

theorem attachAll_regOk (U : Universe) [U.NoReenter] (s : St) (e : Ent) (cs : List Obj) :
    RegOk s (attachAll U s e cs).1 := by
  induction cs generalizing s with
  | nil => exact .refl s
  | cons c cs ih =>
    simp only [attachAll]
    have h1 := attachEvents_regOk U s c (some e)
    cases hx : attachEvents U s c (some e) with
    | mk s' o =>
      rw [hx] at h1
      cases o <;> simp only
      · exact h1.trans (ih s')
      all_goals exact h1

theorem detach_reg (s : St) (e : Ent) (st : Ty) : (detach s e st).registered = s.registered := by
  unfold detach; simp only; split <;> rfl

theorem removeComponent_regOk (U : Universe) [U.NoReenter] (s : St) (e : Ent) (t : Ty) :
    RegOk s (removeComponent U s e t).1 := by
  unfold removeComponent
  cases hf : (visit U t).find? (fun st => (Dict.get? (row s e) st).isSome) with
  | none => exact .refl s
  | some st =>
    simp only
    cases hc : Dict.get? (row s e) st with
    | none => exact .refl s
    | some removed =>
      simp only
      have h0 : RegOk s (detach s e st) := .of_eq (detach_reg s e st)
      cases hm : U.mapOf removed with
      | none => exact h0
      | some m =>
        simp only
        have h1 := lifecycle_reg U (detach s e st) onRemove removed m (some e)
        cases hl : lifecycle U (detach s e st) onRemove removed m (some e) with
        | mk s' o =>
          rw [hl] at h1
          cases o <;> simp only
          · intro hn
            show (s'.registered.filter (· ≠ removed)).Nodup
            rw [h1]
            exact (h0 hn).sublist List.filter_sublist
          all_goals exact h0.trans (.of_eq h1)

theorem removeTypes_regOk (U : Universe) [U.NoReenter] (s : St) (e : Ent) (ts : List Ty) :
    RegOk s (removeTypes U s e ts).1 := by
  induction ts generalizing s with
  | nil => exact .refl s
  | cons t ts ih =>
    simp only [removeTypes]
    have h1 := removeComponent_regOk U s e t
    cases hx : removeComponent U s e t with
    | mk s' r =>
      obtain ⟨o, c⟩ := r
      rw [hx] at h1
      cases o <;> simp only
      · exact h1.trans (ih s')
      all_goals exact h1

/-- without failures a plain event reaches every registered listener that maps it, once each, in
the order of the registered set, with exactly the given arguments -/
theorem deliverPlain_exact {U : Universe} [U.Passive] (hn : NoRaise U) (s : St) (ev args : String) :
    (deliverPlain U s ev args).1.log =
      (s.registered.filterMap fun o =>
        ((U.mapOf o).bind (fun m => Dict.get? m ev)).map fun meth => Entry.probe o meth args).reverse
        ++ s.log := by
  unfold deliverPlain
  generalize s.registered = l
  suffices H : ∀ (acc : St) , 
      (l.foldl (fun (acc : St × Outcome) o =>
        match acc.2 with
        | .ok =>
          match (U.mapOf o).bind (fun m => Dict.get? m ev) with
          | some meth => callCb U acc.1 o meth (.probe o meth args)
          | none => acc
        | _ => acc) (acc, .ok)).1.log =
      (l.filterMap fun o =>
        ((U.mapOf o).bind (fun m => Dict.get? m ev)).map fun meth => Entry.probe o meth args).reverse
        ++ acc.log from H s
  induction l with
  | nil => intro acc; simp
  | cons o l ih =>
    intro acc
    simp only [List.foldl_cons, List.filterMap_cons]
    cases hm : (U.mapOf o).bind (fun m => Dict.get? m ev) with
    | none => simp only [Option.map_none]; exact ih acc
    | some meth =>
      simp only [Option.map_some]
      rw [callCb_eq hn, ih]
      simp

end Desper.World

namespace Desper.World
open Desper

theorem foldAttach_reg (U : Universe) (e : Ent) (cs : List Obj) (s : St) :
    (cs.foldl (fun s c => attachTables U s e c) s).registered = s.registered := by
  induction cs generalizing s with
  | nil => rfl
  | cons c cs ih => simp only [List.foldl_cons]; rw [ih]; rfl

theorem createEntity_regOk (U : Universe) [U.NoReenter] (s : St) (id? : Option Ent) (cs : List Obj) :
    RegOk s (createEntity U s id? cs).1 := by
  unfold createEntity
  have key : ∀ (s0 : St) (e : Ent),
      RegOk s0 (match removeTypes U s0 e ((Dict.keys (row s0 e)).filter
          (fun t => cs.any (fun c => tyOf U c = t))) with
        | (s, .ok) =>
          match attachAll U (cs.foldl (fun s c => attachTables U s e c) s) e cs with
          | (s, o) => (s, o, e)
        | (s, o) => (s, o, e)).1 := by
    intro s0 e
    have h1 := removeTypes_regOk U s0 e ((Dict.keys (row s0 e)).filter
      (fun t => cs.any (fun c => tyOf U c = t)))
    cases hx : removeTypes U s0 e ((Dict.keys (row s0 e)).filter
        (fun t => cs.any (fun c => tyOf U c = t))) with
    | mk s' o =>
      rw [hx] at h1
      cases o <;> simp only
      · exact h1.trans ((RegOk.of_eq (foldAttach_reg U e cs s')).trans (attachAll_regOk U _ e cs))
      all_goals exact h1
  cases id? with
  | some e => exact key s e
  | none =>
    simp only
    exact fun hn => key { s with nextId := freshFrom (Dict.keys s.ents) ((Dict.keys s.ents).length + 1) s.nextId + 1 } _ hn

theorem addComponent_regOk (U : Universe) [U.NoReenter] (s : St) (e : Ent) (c : Obj) :
    RegOk s (addComponent U s e c).1 := by
  unfold addComponent
  simp only
  split
  · rename_i s' hx
    have h1 : RegOk s s' := by
      split at hx
      · have := removeComponent_regOk U s e (tyOf U c)
        simp only [Prod.mk.injEq] at hx
        rw [← hx.1]; exact this
      · simp only [Prod.mk.injEq] at hx; rw [← hx.1]; exact .refl s
    exact h1.trans ((RegOk.of_eq rfl).trans (attachEvents_regOk U (attachTables U s' e c) c (some e)))
  · rename_i r hne
    split
    · exact removeComponent_regOk U s e (tyOf U c)
    · exact .refl s

theorem deleteEntity_regOk (U : Universe) [U.NoReenter] (s : St) (e : Ent) (imm : Bool) :
    RegOk s (deleteEntity U s e imm).1 := by
  unfold deleteEntity
  split
  · split
    · exact .refl s
    · exact removeTypes_regOk U s e _
  · exact .of_eq rfl

theorem sweep_regOk (U : Universe) [U.NoReenter] (s : St) (es : List Ent) : RegOk s (sweep U s es).1 := by
  induction es generalizing s with
  | nil => exact .refl s
  | cons e es ih =>
    simp only [sweep]
    split
    · exact .refl s
    · rename_i r hr
      have h1 := removeTypes_regOk U s e (Dict.keys r)
      cases hx : removeTypes U s e (Dict.keys r) with
      | mk s' o =>
        rw [hx] at h1
        cases o <;> simp only
        · exact h1.trans (ih s')
        all_goals exact h1

theorem deliverFold_reg (U : Universe) [U.NoReenter] (ev args : String) (l : List Obj) (acc : St × Outcome) :
    (l.foldl (fun (acc : St × Outcome) o =>
        match acc.2 with
        | .ok =>
          match (U.mapOf o).bind (fun m => Dict.get? m ev) with
          | some meth => callCb U acc.1 o meth (.probe o meth args)
          | none => acc
        | _ => acc) acc).1.registered = acc.1.registered := by
  induction l generalizing acc with
  | nil => rfl
  | cons o l ih =>
    simp only [List.foldl_cons]
    rw [ih]
    obtain ⟨a1, a2⟩ := acc
    cases a2 <;> simp only
    split
    · exact callCb_reg U a1 o _ _
    · rfl

theorem deliverPlain_reg (U : Universe) [U.NoReenter] (s : St) (ev args : String) :
    (deliverPlain U s ev args).1.registered = s.registered := by
  unfold deliverPlain
  exact deliverFold_reg U ev args s.registered (s, .ok)

theorem dispatchPlain_reg (U : Universe) [U.NoReenter] (s : St) (ev args : String) :
    (dispatchPlain U s ev args).1.registered = s.registered := by
  unfold dispatchPlain
  split
  · rfl
  · split
    · rfl
    · exact deliverPlain_reg U s ev args

theorem runProcs_reg (U : Universe) [U.NoReenter] (s : St) (dt : String) (ps : List Obj) :
    (runProcs U s dt ps).1.registered = s.registered := by
  induction ps generalizing s with
  | nil => rfl
  | cons p ps ih =>
    simp only [runProcs]
    have h1 := callCb_reg U s p "process" (.proc p dt)
    cases hx : callCb U s p "process" (.proc p dt) with
    | mk s' o =>
      rw [hx] at h1
      cases o <;> simp only
      · split
        · rename_i s'' hy
          have h2 : s''.registered = s'.registered := by
            split at hy
            · have := dispatchPlain_reg U s' "on_update" dt
              rw [hy] at this; exact this
            · simp only [Prod.mk.injEq] at hy; rw [← hy.1]
          rw [ih, h2, h1]
        · rename_i r hne
          split
          · rw [dispatchPlain_reg]; exact h1
          · exact h1
      all_goals exact h1

theorem process_regOk (U : Universe) [U.NoReenter] (s : St) (dt : String) : RegOk s (process U s dt).1 := by
  unfold process
  have h1 : RegOk s (clearDead U s).1 := by
    unfold clearDead
    split
    · exact .refl s
    · exact (RegOk.of_eq rfl).trans (sweep_regOk U { s with dead := [], sweepHints := s.sweepHints.drop 1 } _)
  cases hx : clearDead U s with
  | mk s' o =>
    rw [hx] at h1
    cases o <;> simp only
    · exact h1.trans (.of_eq (runProcs_reg U s' dt _))
    all_goals exact h1

theorem removeProcessor_regOk (U : Universe) [U.NoReenter] (s : St) (t : Ty) :
    RegOk s (removeProcessor U s t).1 := by
  unfold removeProcessor
  cases hf : (visit U t).find? (fun st => (Dict.get? s.procs st).isSome) with
  | none => exact .refl s
  | some st =>
    simp only
    cases hc : Dict.get? s.procs st with
    | none => exact .refl s
    | some removed =>
      simp only
      have h0 : RegOk s (dropProc U s st) := .of_eq rfl
      cases hm : U.mapOf removed with
      | none => exact h0
      | some m =>
        simp only
        have h1 := lifecycle_reg U (dropProc U s st) onRemove removed m none
        cases hl : lifecycle U (dropProc U s st) onRemove removed m none with
        | mk s' o =>
          rw [hl] at h1
          cases o <;> simp only
          · intro hn
            show (s'.registered.filter (· ≠ removed)).Nodup
            rw [h1]
            exact (h0 hn).sublist List.filter_sublist
          all_goals exact h0.trans (.of_eq h1)

theorem addProcessor_regOk (U : Universe) [U.NoReenter] (s : St) (p : Obj) (prio? : Option Int) :
    RegOk s (addProcessor U s p prio?).1 := by
  unfold addProcessor
  simp only
  have hsp : ∀ s1 : St, (insertProc U (setPrio s1 p prio?) p).registered = s1.registered := by
    intro s1; cases prio? <;> rfl
  split
  · rename_i s1 hx
    have h1 : RegOk s s1 := by
      split at hx
      · simp only [Prod.mk.injEq] at hx
        rw [← hx.1]; exact removeProcessor_regOk U s _
      · simp only [Prod.mk.injEq] at hx; rw [← hx.1]; exact .refl s
    exact h1.trans ((RegOk.of_eq (hsp s1)).trans (attachEvents_regOk U _ p none))
  · rename_i r hne
    split
    · exact removeProcessor_regOk U s _
    · exact .refl s

theorem clear_regOk (U : Universe) [U.NoReenter] (s : St) : RegOk s (clear U s).1 := by
  intro hn
  unfold clear
  have hda : ∀ (es : List Ent) (s0 : St), RegOk s0 (deleteAll U s0 es).1 := by
    intro es
    induction es with
    | nil => intro s0; exact .refl s0
    | cons e es ih =>
      intro s0
      simp only [deleteAll]
      have h1 := deleteEntity_regOk U s0 e true
      cases hx : deleteEntity U s0 e true with
      | mk s' o =>
        rw [hx] at h1
        cases o <;> simp only
        · exact h1.trans (ih s')
        all_goals exact h1
  have hrp : ∀ (ps : List Obj) (s0 : St), RegOk s0 (removeProcs U s0 ps).1 := by
    intro ps
    induction ps with
    | nil => intro s0; exact .refl s0
    | cons p ps ih =>
      intro s0
      simp only [removeProcs]
      have h1 := removeProcessor_regOk U s0 (tyOf U p)
      cases hx : removeProcessor U s0 (tyOf U p) with
      | mk s' r =>
        obtain ⟨o, c⟩ := r
        rw [hx] at h1
        cases o <;> simp only
        · exact h1.trans (ih s')
        all_goals exact h1
  have h1 := hda (Dict.keys s.ents) s hn
  cases hx : deleteAll U s (Dict.keys s.ents) with
  | mk s1 o =>
    rw [hx] at h1
    cases o <;> simp only
    · have h3 := hrp { s1 with dead := [] }.sorted { s1 with dead := [] } h1
      cases hy : removeProcs U { s1 with dead := [] } { s1 with dead := [] }.sorted with
      | mk s2 o2 =>
        rw [hy] at h3
        cases o2 <;> simp only
        · exact List.nodup_nil
        all_goals exact h3
    all_goals exact h1

theorem releaseQ_reg (U : Universe) [U.NoReenter] (s : St) (qs : List QEv) :
    (releaseQ U s qs).1.registered = s.registered := by
  induction qs generalizing s with
  | nil => rfl
  | cons q qs ih =>
    simp only [releaseQ]
    have h1 : (deliverQ U { s with queue := qs } q).1.registered = s.registered := by
      cases q with
      | plain ev args =>
        simp only [deliverQ]
        split
        · exact deliverPlain_reg U _ ev args
        · rfl
      | relay event h ent =>
        simp only [deliverQ, deliverRelay]
        split
        · rfl
        · split
          · rfl
          · rw [callCb_reg]; exact (ctrlRecord_fields U _ event h ent).2.2.2.2.2.1
    cases hx : deliverQ U { s with queue := qs } q with
    | mk s' o =>
      rw [hx] at h1
      cases o <;> simp only
      · rw [ih, h1]
      all_goals exact h1

theorem step_regOk (U : Universe) [U.NoReenter] (s : St) (op : Op) : RegOk s (step U s op).1 := by
  cases op with
  | create id? cs => exact createEntity_regOk U s id? cs
  | add e c => exact addComponent_regOk U s e c
  | remove e t => exact removeComponent_regOk U s e t
  | delete e imm => exact deleteEntity_regOk U s e imm
  | process dt => exact process_regOk U s dt
  | clear => exact clear_regOk U s
  | addProc p prio? => exact addProcessor_regOk U s p prio?
  | rmProc t => exact removeProcessor_regOk U s t
  | enable b =>
    show RegOk s (setEnabled U s b).1
    unfold setEnabled; simp only
    split
    · exact .of_eq (releaseQ_reg U _ _)
    · exact .of_eq rfl
  | dispatch ev args => exact .of_eq (dispatchPlain_reg U s ev args)

theorem registered_nodup_run (U : Universe) [U.NoReenter] (hints : List (List Ent)) (ops : List Op) :
    (run U { sweepHints := hints } ops).registered.Nodup := by
  suffices H : ∀ s : St, s.registered.Nodup → (run U s ops).registered.Nodup from H _ List.nodup_nil
  induction ops with
  | nil => intro s h; exact h
  | cons op ops ih => intro s h; exact ih _ (step_regOk U s op h)

end Desper.World
