import DesperProofs.Lemmas.CoroLog
/-
  Promises: the value a generator returns is stored in the promise handed out by the start that is
  current, and the promise keeps it (used by Props/C09.lean).
-/
set_option linter.unusedSimpArgs false
set_option linter.unusedVariables false
namespace Desper.Coro
open Desper

/-- every `stored g p v` entry names the promise of the most recent start of `g` before it -/
def GoodP : List Entry → Prop
  | [] => True
  | .stored g p _ :: t => lastPromise g t = some p ∧ GoodP t
  | _ :: t => GoodP t

def isStored (p : Nat) : Entry → Bool
  | .stored _ p' _ => p' == p
  | _ => false

structure PI (s : St) : Prop where
  cur : ∀ g p, s.promises g = some p → lastPromise g s.log = some p
  fresh : ∀ g p, s.promises g = some p → p < s.nextPromise
  inj : ∀ g h p, s.promises g = some p → s.promises h = some p → g = h
  ret : ∀ g p v, Entry.stored g p v ∈ s.log →
    s.values p = v ∧ p < s.nextPromise ∧ ∀ h, s.promises h ≠ some p
  good : GoodP s.log

theorem pi_init : PI init := by
  constructor <;> simp [init, GoodP]

/-- neither a start nor a stored return value -/
def inertP : Entry → Bool
  | .started _ _ => false
  | .stored _ _ _ => false
  | _ => true

theorem lastPromise_inert (g : Gen) (e : Entry) (t : List Entry) (h : inertP e = true) :
    lastPromise g (e :: t) = lastPromise g t := by
  cases e <;> simp [inertP] at h <;> rfl

theorem goodP_inert (e : Entry) (t : List Entry) (h : inertP e = true) : GoodP (e :: t) ↔ GoodP t := by
  cases e <;> simp [inertP] at h <;> rfl

theorem stored_mem_inert {g : Gen} {p : Nat} {v : Option Int} {e : Entry} {t : List Entry}
    (h : inertP e = true) : Entry.stored g p v ∈ e :: t ↔ Entry.stored g p v ∈ t := by
  constructor
  · intro hm
    rcases List.mem_cons.mp hm with e' | e'
    · subst e'; simp [inertP] at h
    · exact e'
  · exact List.mem_cons_of_mem _

/-- promise tables only lose entries, the log gains an inert entry or nothing -/
theorem PI.weaken {s s' : St} (P : PI s) (hp : ∀ g p, s'.promises g = some p → s.promises g = some p)
    (hn : s'.nextPromise = s.nextPromise) (hv : s'.values = s.values)
    (hl : s'.log = s.log ∨ ∃ e, inertP e = true ∧ s'.log = e :: s.log) : PI s' := by
  rcases hl with hl | ⟨e, he, hl⟩
  · exact ⟨fun g p h => by rw [hl]; exact P.cur g p (hp g p h),
      fun g p h => by rw [hn]; exact P.fresh g p (hp g p h),
      fun g h p h1 h2 => P.inj g h p (hp g p h1) (hp h p h2),
      fun g p v hm => by
        rw [hl] at hm
        obtain ⟨a, b, c⟩ := P.ret g p v hm
        exact ⟨by rw [hv]; exact a, by rw [hn]; exact b, fun h hh => c h (hp h p hh)⟩,
      by rw [hl]; exact P.good⟩
  · exact ⟨fun g p h => by rw [hl, lastPromise_inert g e _ he]; exact P.cur g p (hp g p h),
      fun g p h => by rw [hn]; exact P.fresh g p (hp g p h),
      fun g h p h1 h2 => P.inj g h p (hp g p h1) (hp h p h2),
      fun g p v hm => by
        rw [hl, stored_mem_inert he] at hm
        obtain ⟨a, b, c⟩ := P.ret g p v hm
        exact ⟨by rw [hv]; exact a, by rw [hn]; exact b, fun h hh => c h (hp h p hh)⟩,
      by rw [hl, goodP_inert e _ he]; exact P.good⟩

theorem commit_pi {s t : St} (P : PI s) (h : Gen) (hl : t.log = s.log) (hp : t.promises = s.promises)
    (hn : t.nextPromise = s.nextPromise) (hv : t.values = s.values) : PI (startCommit t h).1 := by
  refine ⟨fun g p hg => ?_, fun g p hg => ?_, fun g g' p h1 h2 => ?_, fun g p v hm => ?_, ?_⟩
  · simp only [startCommit, upd_apply, hp, hn] at hg
    by_cases hgh : g = h
    · subst hgh; simp at hg; subst hg; simp [startCommit, lastPromise, hn]
    · simp only [hgh, if_false] at hg
      simp only [startCommit, lastPromise, Ne.symm hgh, if_false, hl]
      exact P.cur g p hg
  · simp only [startCommit, upd_apply, hp, hn] at hg ⊢
    by_cases hgh : g = h
    · subst hgh; simp at hg; omega
    · simp only [hgh, if_false] at hg; have := P.fresh g p hg; omega
  · simp only [startCommit, upd_apply, hp, hn] at h1 h2
    by_cases e1 : g = h <;> by_cases e2 : g' = h
    · rw [e1, e2]
    · simp [e1] at h1; simp only [e2, if_false] at h2
      have := P.fresh g' p h2; omega
    · simp [e2] at h2; simp only [e1, if_false] at h1
      have := P.fresh g p h1; omega
    · simp only [e1, e2, if_false] at h1 h2; exact P.inj g g' p h1 h2
  · simp only [startCommit, hl, List.mem_cons, reduceCtorEq, false_or] at hm
    obtain ⟨a, b, c⟩ := P.ret g p v hm
    refine ⟨by simp only [startCommit, hv]; exact a, by simp only [startCommit, hn]; omega, fun x hx => ?_⟩
    simp only [startCommit, upd_apply, hp, hn] at hx
    by_cases e : x = h
    · simp [e] at hx; omega
    · simp only [e, if_false] at hx; exact c x hx
  · simp only [startCommit, GoodP, hl]; exact P.good

theorem start_pi (U : Universe) {s : St} (P : PI s) (h : Gen) : PI (start U s h).1 := by
  unfold start
  split
  · exact P
  · split
    · exact P
    · split
      · simp only []
        split
        · exact P.weaken (fun _ _ h => h) rfl rfl (.inl rfl)
        · exact commit_pi P h rfl rfl rfl rfl
        · exact commit_pi P h rfl rfl rfl rfl
      · exact commit_pi P h rfl rfl rfl rfl

theorem kill_pi (U : Universe) {s : St} (P : PI s) (h : Gen) : PI (kill U s h).1 := by
  unfold kill
  split
  · exact P
  · split
    · exact P
    · exact P.weaken (fun _ _ h => h) rfl rfl (.inr ⟨_, rfl, rfl⟩)

theorem push_pi {s : St} (P : PI s) (e : Entry) (h : inertP e = true) : PI (s.push e) :=
  P.weaken (fun _ _ h => h) rfl rfl (.inr ⟨e, h, rfl⟩)

theorem execAct_pi (U : Universe) (x : Gen) (i : Nat) {s : St} (P : PI s) (a : Act) :
    PI (execAct U x i s a) := by
  cases a with
  | start h => exact push_pi (start_pi U P h) _ rfl
  | kill h => exact push_pi (kill_pi U P h) _ rfl
  | state h => simp only [execAct]; split <;> exact push_pi P _ rfl

theorem execActs_pi (U : Universe) (x : Gen) (i : Nat) {s : St} (P : PI s) (acts : List Act) :
    PI (execActs U x i s acts) := by
  induction acts generalizing s with
  | nil => exact P
  | cons a as ih => exact ih (execAct_pi U x i P a)

theorem runBody_pi (U : Universe) {s : St} (P : PI s) (g : Gen) : PI (runBody U s g).1 := by
  unfold runBody
  split
  · exact P
  · dsimp only
    split
    · exact P.weaken (fun _ _ h => h) rfl rfl (.inl rfl)
    · rename_i st _
      have P0 : PI { s with pc := upd s.pc g (s.pc g + 1), log := .step g (s.pc g) :: s.log } :=
        P.weaken (fun _ _ h => h) rfl rfl (.inr ⟨_, rfl, rfl⟩)
      have P1 := execActs_pi U g (s.pc g) P0 st.acts
      split
      · exact push_pi P1 _ rfl
      · exact P1.weaken (fun _ _ h => h) rfl rfl (.inr ⟨.returned g _, rfl, rfl⟩)
      · exact P1.weaken (fun _ _ h => h) rfl rfl (.inr ⟨.crashed g _, rfl, rfl⟩)

theorem finishHead_pi {s : St} (P : PI s) {g : Gen} {p : Nat} (v : Option Int)
    (hp : s.promises g = some p) : PI (finishHead s g p v) := by
  have hnot : ∀ g' v', Entry.stored g' p v' ∉ s.log := fun g' v' hm => (P.ret g' p v' hm).2.2 g hp
  refine ⟨fun x q hx => ?_, fun x q hx => ?_, fun x y q h1 h2 => ?_, fun x q w hm => ?_, ?_⟩
  · simp only [finishHead, dropHead, upd_apply] at hx
    by_cases e : x = g
    · simp [e] at hx
    · simp only [e, if_false] at hx
      simp only [finishHead, lastPromise]; exact P.cur x q hx
  · simp only [finishHead, dropHead, upd_apply] at hx ⊢
    by_cases e : x = g
    · simp [e] at hx
    · simp only [e, if_false] at hx; exact P.fresh x q hx
  · simp only [finishHead, dropHead, upd_apply] at h1 h2
    by_cases e1 : x = g
    · simp [e1] at h1
    · by_cases e2 : y = g
      · simp [e2] at h2
      · simp only [e1, e2, if_false] at h1 h2; exact P.inj x y q h1 h2
  · simp only [finishHead, List.mem_cons] at hm
    rcases hm with hm | hm
    · cases hm
      refine ⟨by simp [finishHead], P.fresh g p hp, fun h hh => ?_⟩
      simp only [finishHead, dropHead, upd_apply] at hh
      by_cases e : h = g
      · simp [e] at hh
      · simp only [e, if_false] at hh; exact e (P.inj h g p hh hp)
    · obtain ⟨a, b, c⟩ := P.ret x q w hm
      have hqp : q ≠ p := fun e => hnot x w (e ▸ hm)
      refine ⟨by simp [finishHead, hqp]; exact a, b, fun h hh => ?_⟩
      simp only [finishHead, dropHead, upd_apply] at hh
      by_cases e : h = g
      · simp [e] at hh
      · simp only [e, if_false] at hh; exact c h hh
  · simp only [finishHead, GoodP]; exact ⟨P.cur g p hp, P.good⟩

theorem afterBody_pi {b : St × Next} (P : PI b.1) (g : Gen) {p : Nat} (hp : b.1.promises g = some p) :
    PI (afterBody b g p) := by
  unfold afterBody
  split
  · exact finishHead_pi P _ hp
  · split
    · exact P.weaken (fun _ _ h => h) rfl rfl (.inl rfl)
    · exact P.weaken (fun _ _ h => h) rfl rfl (.inl rfl)
  · exact P

theorem dropHead_pi {s : St} (P : PI s) (g : Gen) : PI (dropHead s g) :=
  P.weaken (fun x q hx => by
    simp only [dropHead, upd_apply] at hx
    by_cases e : x = g
    · simp [e] at hx
    · simpa [e] using hx) rfl rfl (.inl rfl)

theorem turn_pi (U : Universe) [NoRaise U] {c : St} (I : Inv c) {g : Gen} {pend : List Gen}
    {done : List (Option Gen)} (h : Split c (g :: pend) done) (P : PI c) : PI (turn U c) := by
  obtain ⟨_, hc⟩ := turn_cases U I h
  rcases hc with ⟨_, ht, _⟩ | ⟨_, _, p, _, hp, _, _, ht, _⟩
  · rw [ht]; exact dropHead_pi P g
  · rw [ht]; exact afterBody_pi (runBody_pi U P g) g hp

theorem wakeOne_prom (s : St) (r : Rec) :
    (wakeOne s r).1.values = s.values ∧ (wakeOne s r).1.nextPromise = s.nextPromise ∧
    (wakeOne s r).1.log = s.log ∧
    ∀ x q, (wakeOne s r).1.promises x = some q → s.promises x = some q := by
  unfold wakeOne
  cases r with | mk rg rd =>
  cases rg with
  | none => simp
  | some g =>
    simp only []
    split
    · split
      · simp
      · split
        · simp
        · refine ⟨rfl, rfl, rfl, fun x q hx => ?_⟩
          simp only [upd_apply] at hx
          by_cases e : x = g
          · simp [e] at hx
          · simpa [e] using hx
    · simp

theorem wakeAll_prom (s : St) (l : List Rec) :
    (wakeAll s l).1.values = s.values ∧ (wakeAll s l).1.nextPromise = s.nextPromise ∧
    (wakeAll s l).1.log = s.log ∧
    ∀ x q, (wakeAll s l).1.promises x = some q → s.promises x = some q := by
  induction l generalizing s with
  | nil => simp [wakeAll]
  | cons r rs ih =>
    obtain ⟨a1, a2, a3, a4⟩ := wakeOne_prom s r
    unfold wakeAll
    cases hw : wakeOne s r with | mk s' o =>
    rw [hw] at a1 a2 a3 a4
    simp only at a1 a2 a3 a4
    cases o with
    | ok =>
      simp only []
      obtain ⟨b1, b2, b3, b4⟩ := ih s'
      exact ⟨b1.trans a1, b2.trans a2, b3.trans a3, fun x q hx => a4 x q (b4 x q hx)⟩
    | raised e => exact ⟨a1, a2, a3, a4⟩
    | state c => exact ⟨a1, a2, a3, a4⟩
    | outOfFuel => exact ⟨a1, a2, a3, a4⟩
    | crashed e => exact ⟨a1, a2, a3, a4⟩

theorem wake_pi {s : St} (P : PI s) (dt : Int) (hint : List Gen) : PI (wakePhase s dt hint).1 := by
  unfold wakePhase
  split
  · exact P
  · simp only []
    obtain ⟨b1, b2, b3, b4⟩ := wakeAll_prom
      { s with timer := s.timer + dt,
               waiting := s.waiting.filter (fun r => !decide (r.deadline ≤ s.timer + dt)) }
      (sortRecs hint (s.waiting.filter (fun r => decide (r.deadline ≤ s.timer + dt))))
    cases hw : wakeAll _ _ with | mk s' o =>
    rw [hw] at b1 b2 b3 b4
    simp only at b1 b2 b3 b4
    cases o with
    | ok =>
      simp only []
      split
      · exact P.weaken b4 b2 b1 (.inl b3)
      · exact P.weaken b4 b2 b1 (.inl b3)
    | raised e => exact P.weaken b4 b2 b1 (.inl b3)
    | state c => exact P.weaken b4 b2 b1 (.inl b3)
    | outOfFuel => exact P.weaken b4 b2 b1 (.inl b3)
    | crashed e => exact P.weaken b4 b2 b1 (.inl b3)

theorem process_pi (U : Universe) [NoRaise U] {s : St} (T : Top s) (dt : Int) (hint : List Gen) (P : PI s) :
    PI (process U s dt hint).1 := by
  obtain ⟨pend, _, I1, hsp, hp⟩ := process_frame U T dt hint
  have P0 : PI (rotHead (wakePhase s dt hint).1) :=
    (wake_pi P dt hint).weaken (fun _ _ h => h) rfl rfl (.inl rfl)
  have := (turns_rel U (fun a b => PI a → PI b) (fun _ h => h) (fun _ _ _ h1 h2 h => h2 (h1 h))
    (before := pend) (fun c x pend done I hs _ => turn_pi U I hs) I1 (rest := []) (done := [])
    (by simpa using hsp)).1
  rw [hp]
  exact this P0

theorem execOp_pi (U : Universe) [NoRaise U] {s : St} (T : Top s) (op : Op) (P : PI s) : PI (execOp U s op) := by
  cases op with
  | start h => exact push_pi (start_pi U P h) _ rfl
  | kill h => exact push_pi (kill_pi U P h) _ rfl
  | state h => simp only [execOp]; split <;> exact push_pi P _ rfl
  | value h => exact push_pi P _ rfl
  | process dt hint => exact push_pi (process_pi U T dt hint P) _ rfl

theorem run_pi (U : Universe) [NoRaise U] {s : St} (T : Top s) (ops : List Op) (P : PI s) : PI (run U s ops) := by
  induction ops generalizing s with
  | nil => exact P
  | cons op rest ih => exact ih (execOp_top U T op) (execOp_pi U T op P)

theorem goodP_split {post pre : List Entry} {g : Gen} {p : Nat} {v : Option Int}
    (h : GoodP (post ++ .stored g p v :: pre)) : lastPromise g pre = some p := by
  induction post with
  | nil => exact h.1
  | cons e t ih =>
    apply ih
    cases e <;> first | exact h | exact h.2

/-! ### a returned value is stored in the frame in which the generator returns -/

/-- the log only grows -/
def LogExt (s s' : St) : Prop := ∃ new, s'.log = new ++ s.log

theorem LogExt.refl (s : St) : LogExt s s := ⟨[], rfl⟩

theorem LogExt.trans {a b c : St} (h1 : LogExt a b) (h2 : LogExt b c) : LogExt a c := by
  obtain ⟨n1, e1⟩ := h1
  obtain ⟨n2, e2⟩ := h2
  exact ⟨n2 ++ n1, by rw [e2, e1, List.append_assoc]⟩

theorem LogExt.cons {s s' : St} (e : Entry) (h : s'.log = e :: s.log) : LogExt s s' := ⟨[e], h⟩

theorem start_ext (U : Universe) (s : St) (h : Gen) : LogExt s (start U s h).1 := by
  unfold start
  split
  · exact LogExt.refl s
  · split
    · exact LogExt.refl s
    · split
      · simp only []
        split
        · exact ⟨[], rfl⟩
        · exact LogExt.cons _ rfl
        · exact LogExt.cons _ rfl
      · exact LogExt.cons _ rfl

theorem kill_ext (U : Universe) (s : St) (h : Gen) : LogExt s (kill U s h).1 := by
  unfold kill
  split
  · exact LogExt.refl s
  · split
    · exact LogExt.refl s
    · exact LogExt.cons _ rfl

theorem execAct_ext (U : Universe) (x : Gen) (i : Nat) (s : St) (a : Act) : LogExt s (execAct U x i s a) := by
  cases a with
  | start h => exact (start_ext U s h).trans (LogExt.cons _ rfl)
  | kill h => exact (kill_ext U s h).trans (LogExt.cons _ rfl)
  | state h => simp only [execAct]; split <;> exact LogExt.cons _ rfl

theorem execActs_ext (U : Universe) (x : Gen) (i : Nat) (s : St) (acts : List Act) :
    LogExt s (execActs U x i s acts) := by
  induction acts generalizing s with
  | nil => exact LogExt.refl s
  | cons a as ih => exact (execAct_ext U x i s a).trans (ih _)

theorem runBody_ext (U : Universe) (s : St) (g : Gen) : LogExt s (runBody U s g).1 := by
  unfold runBody
  split
  · exact LogExt.refl s
  · dsimp only
    split
    · exact ⟨[], rfl⟩
    · rename_i st _
      have k0 : LogExt s { s with pc := upd s.pc g (s.pc g + 1), log := .step g (s.pc g) :: s.log } :=
        LogExt.cons _ rfl
      have k1 := execActs_ext U g (s.pc g)
        { s with pc := upd s.pc g (s.pc g + 1), log := .step g (s.pc g) :: s.log } st.acts
      split
      · exact (k0.trans k1).trans (LogExt.cons _ rfl)
      · exact (k0.trans k1).trans (LogExt.cons (.returned g _) rfl)
      · exact (k0.trans k1).trans (LogExt.cons (.crashed g _) rfl)

theorem afterBody_ext (b : St × Next) (g : Gen) (p : Nat) : LogExt b.1 (afterBody b g p) := by
  unfold afterBody
  split
  · exact LogExt.cons _ rfl
  · split <;> exact ⟨[], rfl⟩
  · exact ⟨[], rfl⟩

theorem turn_ext (U : Universe) [NoRaise U] {c : St} (I : Inv c) {x : Gen} {pend : List Gen}
    {done : List (Option Gen)} (h : Split c (x :: pend) done) : LogExt c (turn U c) := by
  obtain ⟨_, hc⟩ := turn_cases U I h
  rcases hc with ⟨_, ht, _⟩ | ⟨_, _, p, _, _, _, _, ht, _⟩
  · rw [ht]; exact ⟨[], rfl⟩
  · rw [ht]; exact (runBody_ext U c x).trans (afterBody_ext _ x p)

theorem turns_ext (U : Universe) [NoRaise U] {c : St} (I : Inv c) {before rest : List Gen}
    {done : List (Option Gen)} (h : Split c (before ++ rest) done) :
    LogExt c (turns U before.length c) :=
  (turns_rel U LogExt LogExt.refl (fun _ _ _ => LogExt.trans) (before := before)
    (fun c x pend done I hs _ => turn_ext U I hs) I h).1

/-- when a generator that runs in this frame finishes (its step ends in `ret v`, or it is
exhausted: `v = None`), `stored g p v` is logged in this frame for some promise `p` -/
theorem process_returns (U : Universe) [NoRaise U] {s : St} (T : Top s) (dt : Int) (hint : List Gen) {g : Gen}
    {v : Option Int} (hr : runnableIn s dt g) (hk : s.kill g = false)
    (hno : ∀ h, runnableIn s dt h → ∀ st, curStep U s h = some st → Act.kill g ∉ st.acts)
    (hret : (hasCode U s g ∧ ∃ st, curStep U s g = some st ∧ st.fin = .ret v) ∨
      (¬ hasCode U s g ∧ v = none)) :
    ∃ new p, (process U s dt hint).1.log = new ++ s.log ∧ Entry.stored g p v ∈ new := by
  obtain ⟨pend, hact, I0, hsp, hp⟩ := process_frame U T dt hint
  obtain ⟨w1, w2, wlog, w4, _, _⟩ := wake_frame T.inv dt hint
  have hmem := pend_mem U T dt hint hact
  have hpc : (rotHead (wakePhase s dt hint).1).pc = s.pc := w1
  have hfin : (rotHead (wakePhase s dt hint).1).fin = s.fin := w2
  have hlog0 : (rotHead (wakePhase s dt hint).1).log = s.log := wlog
  have hk0 : (rotHead (wakePhase s dt hint).1).kill g = false := by
    show (wakePhase s dt hint).1.kill g = false
    cases hq : (wakePhase s dt hint).1.kill g with
    | false => rfl
    | true => have := w4 g hq; simp [hk] at this
  rw [hp]
  simp only []
  have hgp : g ∈ pend := (hmem g).mpr hr
  generalize rotHead (wakePhase s dt hint).1 = c0 at *
  obtain ⟨before, after, hsplit⟩ := List.append_of_mem hgp
  subst hsplit
  obtain ⟨c1, d1, hc1, I1, hs1, _, hga, _, p1, p2, p3, hfinal⟩ := before_turn U I0 hsp
  have e01 : LogExt c0 c1 := hc1 ▸ turns_ext U I0 hsp
  rw [hfinal]
  have hk1 := p3 hk0 (fun h hh st' hst' => by
    rw [curStep_congr U (congrFun hpc h)] at hst'
    exact hno h ((hmem h).mp (List.mem_append_left _ hh)) st' hst')
  obtain ⟨I2, hc⟩ := turn_cases U I1 hs1
  rcases hc with ⟨hkt, _, _⟩ | ⟨_, extra, p, _, _, _, _, ht, e2, hs2⟩
  · simp [hk1] at hkt
  have hs2' : Split (turn U c1) (after ++ []) (d1 ++ e2) := by simpa using hs2
  have hstop : (runBody U c1 g).2 = .stop v := by
    rcases hret with ⟨hcs, st, hst, hv⟩ | ⟨hnc, hv⟩
    · have hc1 : hasCode U c1 g :=
        (hasCode_congr U (p1.trans (congrFun hpc g)) (p2.trans (congrFun hfin g))).mpr hcs
      have hst1 : curStep U c1 g = some st := by
        rw [curStep_congr U (p1.trans (congrFun hpc g))]; exact hst
      rw [runBody_next U hc1 hst1, hv]
    · have hc1 : ¬ hasCode U c1 g := fun h =>
        hnc ((hasCode_congr U (p1.trans (congrFun hpc g)) (p2.trans (congrFun hfin g))).mp h)
      rw [runBody_next_none U hc1, hv]
  have e12 : LogExt c1 (runBody U c1 g).1 := runBody_ext U c1 g
  have e34 := turns_ext U I2 hs2'
  obtain ⟨n1, h1⟩ := e01
  obtain ⟨n2, h2⟩ := e12
  obtain ⟨n3, h3⟩ := e34
  have hfin : (turn U c1).log = .stored g p v :: (runBody U c1 g).1.log := by
    rw [ht]; simp [afterBody, hstop, finishHead]
  refine ⟨n3 ++ .stored g p v :: (n2 ++ n1), p, ?_, by simp⟩
  rw [h3, hfin, h2, h1, hlog0]
  simp [List.append_assoc]

end Desper.Coro
