/-- reflexive-transitive closure (kept local so that proof files need no Mathlib for it) -/
inductive Star {α : Type} (R : α → α → Prop) : α → α → Prop
  | refl (a : α) : Star R a a
  | tail {a b c : α} : Star R a b → R b c → Star R a c

namespace Star
variable {α : Type} {R : α → α → Prop}

theorem single {a b : α} (h : R a b) : Star R a b := .tail (.refl a) h

theorem trans {a b c : α} (h1 : Star R a b) (h2 : Star R b c) : Star R a c := by
  induction h2 with
  | refl => exact h1
  | tail _ hr ih => exact .tail ih hr

theorem head {a b c : α} (h : R a b) (h2 : Star R b c) : Star R a c := trans (single h) h2

/-- an invariant of every step is an invariant of every reachable state -/
theorem invariant {P : α → Prop} (hstep : ∀ a b, P a → R a b → P b) {a b : α}
    (h : Star R a b) (ha : P a) : P b := by
  induction h with
  | refl => exact ha
  | tail _ hr ih => exact hstep _ _ ih hr

/-- a relation between the start and every reachable state that every step extends -/
theorem invariant2 {Q : α → α → Prop} (hrefl : ∀ a, Q a a)
    (hstep : ∀ a b c, Q a b → R b c → Q a c) {a b : α} (h : Star R a b) : Q a b := by
  induction h with
  | refl => exact hrefl _
  | tail _ hr ih => exact hstep _ _ _ ih hr
end Star
