import DesperModel.Coro
/-
  The table invariant of the coroutine processor model and its preservation by every
  operation (used by Props/C08.lean and Props/C09.lean).
-/
set_option linter.unusedSimpArgs false
set_option linter.unusedVariables false
namespace Desper.Coro
open Desper

@[simp] theorem upd_apply {α : Type} (f : Gen → α) (g x : Gen) (v : α) :
    upd f g v x = if x = g then v else f x := rfl

/-- the record carries generator `g` -/
def isRec (g : Gen) (r : Rec) : Bool := r.gen == some g

/-- occurrences of `g` in the deque / among the live records of the heap -/
def cntA (s : St) (g : Gen) : Nat := s.active.count (some g)
def cntW (s : St) (g : Gen) : Nat := s.waiting.countP (isRec g)

/-- Each generator occurs at most once in `active ∪ waiting`; `dom gens` is that set, with the
right kind of entry; `kill ⊆ dom gens`; `dom promises = dom gens`; one sentinel. -/
structure Inv (s : St) : Prop where
  sentinel : s.active.count none = 1
  once : ∀ g, cntA s g + cntW s g ≤ 1
  absent : ∀ g, s.gens g = none → cntA s g + cntW s g = 0
  runnable : ∀ g, s.gens g = some none → cntA s g = 1
  paused : ∀ g d, s.gens g = some (some d) → (⟨some g, d⟩ : Rec) ∈ s.waiting
  marked : ∀ g, s.kill g = true → s.gens g ≠ none
  promised : ∀ g, s.promises g = none ↔ s.gens g = none

theorem inv_init : Inv init := by
  constructor <;> simp [init, cntA, cntW]

theorem cntW_pos_of_mem {s : St} {g : Gen} {d : Int} (h : (⟨some g, d⟩ : Rec) ∈ s.waiting) :
    0 < cntW s g := by
  unfold cntW
  rw [List.countP_pos_iff]
  exact ⟨_, h, by simp [isRec]⟩

theorem Inv.paused_cnt {s : St} (I : Inv s) {g : Gen} {d : Int} (h : s.gens g = some (some d)) :
    cntW s g = 1 ∧ cntA s g = 0 := by
  have := cntW_pos_of_mem (I.paused g d h)
  have := I.once g
  omega

theorem Inv.runnable_cnt {s : St} (I : Inv s) {g : Gen} (h : s.gens g = some none) :
    cntA s g = 1 ∧ cntW s g = 0 := by
  have := I.runnable g h
  have := I.once g
  omega

/-! ### kill -/

theorem kill_inv (U : Universe) {s : St} (I : Inv s) (g : Gen) : Inv (kill U s g).1 := by
  unfold kill
  split
  · exact I
  · split
    · exact I
    · rename_i h
      simp at h
      exact { I with marked := by intro x hx; have := I.marked x; simp at hx; grind }

/-! ### start -/

theorem countP_void (l : List Rec) (g x : Gen) :
    (l.map (voidRec g)).countP (isRec x) = if x = g then 0 else l.countP (isRec x) := by
  induction l with
  | nil => simp
  | cons r rs ih =>
    simp only [List.map_cons, List.countP_cons, ih]
    cases r with | mk rg rd =>
    cases rg with
    | none => simp [voidRec, isRec]
    | some y => by_cases hy : y = g <;> by_cases hx : x = g <;> simp [voidRec, isRec, hy, hx] <;> grind

theorem mem_void {l : List Rec} {g x : Gen} {d : Int} :
    (⟨some x, d⟩ : Rec) ∈ l.map (voidRec g) ↔ x ≠ g ∧ (⟨some x, d⟩ : Rec) ∈ l := by
  induction l with
  | nil => simp
  | cons r rs ih =>
    simp only [List.map_cons, List.mem_cons, ih]
    cases r with | mk rg rd =>
    cases rg with
    | none => simp [voidRec]
    | some y => by_cases hy : y = g <;> simp [voidRec, hy] <;> grind

theorem stateOf_terminated {U : Universe} {s : St} {g : Gen}
    (h : stateOf U s g = .ok .terminated) : s.gens g = none ∨ s.kill g = true := by
  unfold stateOf at h
  split at h
  · cases h
  · split at h
    · exact .inl (by assumption)
    · split at h
      · exact .inr (by assumption)
      · split at h <;> cases h

@[simp] theorem isRec_some (x g : Gen) (d : Int) : isRec x ⟨some g, d⟩ = decide (g = x) := by
  simp only [isRec]
  by_cases h : g = x <;> simp [h]

@[simp] theorem isRec_none (x : Gen) (d : Int) : isRec x ⟨none, d⟩ = false := by
  simp [isRec]

/-- instantiate every clause of the invariant at `x`, unfold the counters, let `grind` finish -/
syntax "inv_auto " ident ident : tactic
macro_rules
  | `(tactic| inv_auto $I $x) => `(tactic| (
      have h1 := Inv.once $I $x
      have h2 := Inv.absent $I $x
      have h3 := Inv.runnable $I $x
      have h5 := Inv.marked $I $x
      have h6 := Inv.promised $I $x
      simp only [cntA, cntW, List.count_append, List.countP_append, List.count_cons,
        List.countP_cons, List.count_nil, List.countP_nil, countP_void, mem_void, upd_apply,
        isRec_some, isRec_none,
        List.mem_cons, List.mem_append] at *
      grind))

theorem start_inv (U : Universe) {s : St} (I : Inv s) (g : Gen) : Inv (start U s g).1 := by
  unfold start
  split
  · exact I
  · rename_i st hst
    split
    · exact I
    · rename_i hterm
      simp at hterm
      subst hterm
      have hk := stateOf_terminated hst
      by_cases hkill : s.kill g = true
      · simp only [hkill, if_true]
        have hm := I.marked g hkill
        cases hg : s.gens g with
        | none => exact absurd hg hm
        | some w =>
          cases w with
          | none =>
            simp only [startCommit]
            have hc := I.runnable_cnt hg
            constructor
            · exact I.sentinel
            · intro x; inv_auto I x
            · intro x hx; inv_auto I x
            · intro x hx; inv_auto I x
            · intro x d hx; have := I.paused x d; inv_auto I x
            · intro x hx; inv_auto I x
            · intro x; inv_auto I x
          | some d =>
            simp only [startCommit]
            have hc := I.paused_cnt hg
            constructor
            · simp [List.count_append]; exact I.sentinel
            · intro x; inv_auto I x
            · intro x hx; inv_auto I x
            · intro x hx; inv_auto I x
            · intro x d hx; have := I.paused x d; inv_auto I x
            · intro x hx; inv_auto I x
            · intro x; inv_auto I x
      · simp only [hkill]
        have hg : s.gens g = none := by grind
        have hc := I.absent g hg
        simp only [Bool.false_eq_true, if_false, startCommit]
        constructor
        · simp [List.count_append]; exact I.sentinel
        · intro x; inv_auto I x
        · intro x hx; inv_auto I x
        · intro x hx; inv_auto I x
        · intro x d hx; have := I.paused x d; inv_auto I x
        · intro x hx; inv_auto I x
        · intro x; inv_auto I x

/-! ### the wake-up loop -/

theorem insertRec_perm (hint : List Gen) (r : Rec) (l : List Rec) :
    (insertRec hint r l).Perm (r :: l) := by
  induction l with
  | nil => simp [insertRec]
  | cons x xs ih =>
    simp only [insertRec]
    split
    · exact List.Perm.refl _
    · exact (List.Perm.cons x ih).trans (List.Perm.swap r x xs)

theorem sortRecs_perm (hint : List Gen) (l : List Rec) : (sortRecs hint l).Perm l := by
  induction l with
  | nil => simp [sortRecs]
  | cons x xs ih =>
    simp only [sortRecs, List.foldr_cons]
    exact (insertRec_perm hint x _).trans (List.Perm.cons x ih)

/-- the invariant with the records `pend` already popped from the heap but not yet handled -/
def InvP (s : St) (pend : List Rec) : Prop := Inv { s with waiting := pend ++ s.waiting }

theorem Inv.perm {s : St} (I : Inv s) {w : List Rec} (h : w.Perm s.waiting) :
    Inv { s with waiting := w } := by
  constructor
  · exact I.sentinel
  · intro x; have := I.once x; simp only [cntA, cntW] at *; rw [h.countP_eq]; exact this
  · intro x hx; have := I.absent x hx; simp only [cntA, cntW] at *; rw [h.countP_eq]; exact this
  · exact I.runnable
  · intro x d hx; exact h.mem_iff.mpr (I.paused x d hx)
  · exact I.marked
  · exact I.promised

theorem wakeOne_spec {s : St} {r : Rec} {rs : List Rec} (I : InvP s (r :: rs)) :
    (wakeOne s r).2 = .ok ∧ InvP (wakeOne s r).1 rs ∧ (wakeOne s r).1.waiting = s.waiting := by
  unfold InvP at *
  unfold wakeOne
  cases r with | mk rg rd =>
  cases rg with
  | none =>
    refine ⟨by first | rfl | trivial, ?_, by first | rfl | trivial⟩
    constructor
    · exact I.sentinel
    · intro x; have := I.once x; simp [cntA, cntW, isRec] at *; exact this
    · intro x hx; have := I.absent x hx; simp [cntA, cntW, isRec] at *; exact this
    · exact I.runnable
    · intro x d hx; have := I.paused x d hx; simp at this ⊢; exact this
    · exact I.marked
    · exact I.promised
  | some g =>
    have hmem : (⟨some g, rd⟩ : Rec) ∈ ({ s with waiting := (⟨some g, rd⟩ :: rs) ++ s.waiting } : St).waiting := by
      simp
    have hpos := cntW_pos_of_mem hmem
    have hone := I.once g
    have habs := I.absent g
    have hrun := I.runnable g
    have hprom := I.promised g
    simp only []
    by_cases hk : s.kill g = true
    · simp only [hk, if_true]
      cases hg : s.gens g with
      | none => simp [hg] at habs; simp [cntA, cntW, isRec] at habs
      | some w =>
        simp only []
        cases hp : s.promises g with
        | none => simp [hp, hg] at hprom
        | some pr =>
          simp only [upd_apply, if_true, hp]
          refine ⟨by first | rfl | trivial, ?_, by first | rfl | trivial⟩
          constructor
          · exact I.sentinel
          · intro x; have := I.paused x; inv_auto I x
          · intro x hx; inv_auto I x
          · intro x hx; inv_auto I x
          · intro x d hx; have := I.paused x d; inv_auto I x
          · intro x hx; inv_auto I x
          · intro x; inv_auto I x
    · simp only [hk, Bool.false_eq_true, if_false]
      refine ⟨by first | rfl | trivial, ?_, by first | rfl | trivial⟩
      constructor
      · simp [List.count_append]; exact I.sentinel
      · intro x; inv_auto I x
      · intro x hx; inv_auto I x
      · intro x hx; inv_auto I x
      · intro x d hx; have := I.paused x d; inv_auto I x
      · intro x hx; inv_auto I x
      · intro x; inv_auto I x

theorem wakeAll_spec {s : St} {l : List Rec} (I : InvP s l) :
    (wakeAll s l).2 = .ok ∧ Inv (wakeAll s l).1 ∧ (wakeAll s l).1.waiting = s.waiting := by
  induction l generalizing s with
  | nil => exact ⟨rfl, I, rfl⟩
  | cons r rs ih =>
    obtain ⟨h1, h2, h3⟩ := wakeOne_spec I
    unfold wakeAll
    cases hw : wakeOne s r with | mk s' o =>
    rw [hw] at h1 h2 h3
    simp only at h1 h2 h3
    subst h1
    simp only []
    obtain ⟨k1, k2, k3⟩ := ih h2
    exact ⟨k1, k2, k3.trans h3⟩

theorem wakePhase_spec {s : St} (I : Inv s) (dt : Int) (hint : List Gen) :
    (wakePhase s dt hint).2 = .ok ∧ Inv (wakePhase s dt hint).1 := by
  unfold wakePhase
  split
  · exact ⟨rfl, I⟩
  · simp only []
    have hperm : (sortRecs hint (s.waiting.filter (fun r => decide (r.deadline ≤ s.timer + dt))) ++
        s.waiting.filter (fun r => !decide (r.deadline ≤ s.timer + dt))).Perm s.waiting :=
      ((sortRecs_perm hint _).append_right _).trans (List.filter_append_perm _ _)
    have I2 : InvP ({ s with waiting := s.waiting.filter (fun r => !decide (r.deadline ≤ s.timer + dt)),
                             timer := s.timer + dt } : St)
        (sortRecs hint (s.waiting.filter (fun r => decide (r.deadline ≤ s.timer + dt)))) := by
      have := I.perm hperm
      unfold InvP
      constructor
      · exact this.sentinel
      · exact this.once
      · exact this.absent
      · exact this.runnable
      · exact this.paused
      · exact this.marked
      · exact this.promised
    obtain ⟨k1, k2, _⟩ := wakeAll_spec I2
    cases hw : wakeAll _ _ with | mk s' o =>
    rw [hw] at k1 k2
    simp only at k1 k2
    subst k1
    simp only []
    refine ⟨trivial, ?_⟩
    split
    · exact { k2 with }
    · exact k2

/-! ### generator bodies -/

theorem Inv.frame {s s' : St} (I : Inv s) (h1 : s'.gens = s.gens) (h2 : s'.active = s.active)
    (h3 : s'.waiting = s.waiting) (h4 : s'.kill = s.kill) (h5 : s'.promises = s.promises) :
    Inv s' := by
  cases s; cases s'
  simp only at h1 h2 h3 h4 h5
  subst h1 h2 h3 h4 h5
  exact ⟨I.sentinel, I.once, I.absent, I.runnable, I.paused, I.marked, I.promised⟩

/-- what start / kill / a whole body can do to the deque and the clock: append, nothing -/
structure Grows (s s' : St) : Prop where
  active : ∃ extra, s'.active = s.active ++ extra
  timer : s'.timer = s.timer

theorem Grows.refl (s : St) : Grows s s := ⟨⟨[], by simp⟩, rfl⟩

theorem Grows.trans {a b c : St} (h1 : Grows a b) (h2 : Grows b c) : Grows a c := by
  obtain ⟨⟨e1, h1a⟩, h1t⟩ := h1
  obtain ⟨⟨e2, h2a⟩, h2t⟩ := h2
  exact ⟨⟨e1 ++ e2, by rw [h2a, h1a, List.append_assoc]⟩, h2t.trans h1t⟩

theorem start_grows (U : Universe) (s : St) (g : Gen) : Grows s (start U s g).1 := by
  unfold start
  split
  · exact Grows.refl s
  · split
    · exact Grows.refl s
    · split
      · simp only []
        split
        · exact ⟨⟨[], by simp⟩, rfl⟩
        · exact ⟨⟨[], by simp [startCommit]⟩, rfl⟩
        · exact ⟨⟨[some g], rfl⟩, rfl⟩
      · exact ⟨⟨[some g], rfl⟩, rfl⟩

theorem kill_grows (U : Universe) (s : St) (g : Gen) : Grows s (kill U s g).1 := by
  unfold kill
  split
  · exact Grows.refl s
  · split
    · exact Grows.refl s
    · exact ⟨⟨[], by simp⟩, rfl⟩

theorem execAct_spec (U : Universe) (g : Gen) (i : Nat) {s : St} (I : Inv s) (a : Act) :
    Inv (execAct U g i s a) ∧ Grows s (execAct U g i s a) := by
  cases a with
  | start h =>
    simp only [execAct, St.push]
    exact ⟨(start_inv U I h).frame rfl rfl rfl rfl rfl,
      (start_grows U s h).trans ⟨⟨[], by simp⟩, rfl⟩⟩
  | kill h =>
    simp only [execAct, St.push]
    exact ⟨(kill_inv U I h).frame rfl rfl rfl rfl rfl,
      (kill_grows U s h).trans ⟨⟨[], by simp⟩, rfl⟩⟩
  | state h =>
    simp only [execAct, St.push]
    split <;> exact ⟨I.frame rfl rfl rfl rfl rfl, ⟨⟨[], by simp⟩, rfl⟩⟩

theorem execActs_spec (U : Universe) (g : Gen) (i : Nat) {s : St} (I : Inv s) (acts : List Act) :
    Inv (execActs U g i s acts) ∧ Grows s (execActs U g i s acts) := by
  induction acts generalizing s with
  | nil => exact ⟨I, Grows.refl s⟩
  | cons a as ih =>
    obtain ⟨I1, G1⟩ := execAct_spec U g i I a
    obtain ⟨I2, G2⟩ := ih I1
    exact ⟨I2, G1.trans G2⟩

theorem runBody_spec (U : Universe) {s : St} (I : Inv s) (g : Gen) :
    Inv (runBody U s g).1 ∧ Grows s (runBody U s g).1 := by
  unfold runBody
  split
  · exact ⟨I, Grows.refl s⟩
  · dsimp only
    split
    · exact ⟨I.frame rfl rfl rfl rfl rfl, ⟨⟨[], by simp⟩, rfl⟩⟩
    · rename_i st _
      have I0 : Inv { s with pc := upd s.pc g (s.pc g + 1), log := .step g (s.pc g) :: s.log } :=
        I.frame rfl rfl rfl rfl rfl
      obtain ⟨I1, G1⟩ := execActs_spec U g (s.pc g) I0 st.acts
      have G0 : Grows s { s with pc := upd s.pc g (s.pc g + 1), log := .step g (s.pc g) :: s.log } :=
        ⟨⟨[], by simp⟩, rfl⟩
      split
      · exact ⟨I1.frame rfl rfl rfl rfl rfl, (G0.trans G1).trans ⟨⟨[], by simp [St.push]⟩, rfl⟩⟩
      · exact ⟨I1.frame rfl rfl rfl rfl rfl, (G0.trans G1).trans ⟨⟨[], by simp⟩, rfl⟩⟩
      · exact ⟨I1.frame rfl rfl rfl rfl rfl, (G0.trans G1).trans ⟨⟨[], by simp⟩, rfl⟩⟩

/-- bodies of a program that never raises never crash -/
theorem runBody_no_crash (U : Universe) [hnr : NoRaise U] (s : St) (g : Gen) (e : String) :
    (runBody U s g).2 ≠ .crash e := by
  unfold runBody
  split
  · simp
  · dsimp only
    split
    · simp
    · rename_i st hs
      have hmem : st ∈ (U.script g).getD [] := List.mem_of_getElem? hs
      cases hsc : U.script g with
      | none => simp [hsc] at hmem
      | some sc =>
        simp only [hsc, Option.getD_some] at hmem
        have := hnr.out g sc hsc st hmem
        split
        · simp
        · simp
        · rename_i e' he; exact absurd he (this e')

/-! ### the run loop -/

/-- number of entries in front of the sentinel: the measure of the run loop -/
def front : List (Option Gen) → Nat
  | [] => 0
  | none :: _ => 0
  | some _ :: t => front t + 1

theorem front_append {l : List (Option Gen)} (m : List (Option Gen)) (h : none ∈ l) :
    front (l ++ m) = front l := by
  induction l with
  | nil => simp at h
  | cons a t ih =>
    cases a with
    | none => simp [front]
    | some x =>
      simp only [List.mem_cons, reduceCtorEq, false_or] at h
      simp [front, ih h]

theorem front_le_length (l : List (Option Gen)) : front l ≤ l.length := by
  induction l with
  | nil => simp [front]
  | cons a t ih => cases a <;> simp [front] <;> omega

theorem Inv.gens_of_active {s : St} (I : Inv s) {g : Gen} (h : some g ∈ s.active) :
    s.gens g = some none := by
  have hpos : 0 < cntA s g := by
    unfold cntA; exact List.count_pos_iff.mpr h
  cases hg : s.gens g with
  | none => have := I.absent g hg; omega
  | some w =>
    cases w with
    | none => rfl
    | some d => have := I.paused_cnt hg; omega

theorem Inv.none_mem_tail {s : St} (I : Inv s) {g : Gen} {tl : List (Option Gen)}
    (h : s.active = some g :: tl) : none ∈ tl := by
  have := I.sentinel
  rw [h] at this
  simp [List.count_cons] at this
  exact List.count_pos_iff.mp (by omega)

/-- removing the head `g` of the deque together with its table entries : coroutines.py:239-242,
249-252 -/
theorem Inv.drop_head {s : St} (I : Inv s) {g : Gen} {tl : List (Option Gen)}
    (h : s.active = some g :: tl) :
    Inv { s with gens := upd s.gens g none, kill := upd s.kill g false, active := tl,
                 promises := upd s.promises g none } := by
  have hg := I.gens_of_active (g := g) (by simp [h])
  have hc := I.runnable_cnt hg
  have hs := I.sentinel
  simp only [cntA, cntW, h, List.count_cons] at hc hs
  constructor
  · simpa using hs
  · intro x; have := I.once x; simp only [cntA, cntW, h, List.count_cons] at this; inv_auto I x
  · intro x hx; have := I.absent x; simp only [cntA, cntW, h, List.count_cons] at this; inv_auto I x
  · intro x hx; have := I.runnable x; simp only [cntA, cntW, h, List.count_cons] at this; inv_auto I x
  · intro x d hx; have := I.paused x d; inv_auto I x
  · intro x hx; inv_auto I x
  · intro x; inv_auto I x

/-- the head `g` of the deque yielded a positive wait : coroutines.py:257-260 -/
theorem Inv.pause_head {s : St} (I : Inv s) {g : Gen} {tl : List (Option Gen)} (d : Int)
    (h : s.active = some g :: tl) :
    Inv { s with waiting := ⟨some g, d⟩ :: s.waiting, gens := upd s.gens g (some (some d)),
                 active := s.active.tail } := by
  have hg := I.gens_of_active (g := g) (by simp [h])
  have hc := I.runnable_cnt hg
  have hs := I.sentinel
  simp only [cntA, cntW, h, List.count_cons] at hc hs
  constructor
  · simpa [h] using hs
  · intro x; have := I.once x; simp only [cntA, cntW, h, List.count_cons, List.tail_cons] at *; inv_auto I x
  · intro x hx; have := I.absent x; simp only [cntA, cntW, h, List.count_cons, List.tail_cons] at *; inv_auto I x
  · intro x hx; have := I.runnable x; simp only [cntA, cntW, h, List.count_cons, List.tail_cons] at *; inv_auto I x
  · intro x e hx; have := I.paused x e; inv_auto I x
  · intro x hx; inv_auto I x
  · intro x; inv_auto I x

/-- `rotate(-1)` -/
theorem Inv.rotate {s : St} (I : Inv s) : Inv { s with active := rotl s.active } := by
  cases h : s.active with
  | nil => have := I.sentinel; simp [h] at this
  | cons a t =>
    have hs := I.sentinel
    simp only [rotl]
    constructor
    · simp only [h, List.count_cons, List.count_append, List.count_nil] at hs ⊢; omega
    · intro x; have := I.once x; simp only [cntA, cntW, h, List.count_cons, List.count_append, List.count_nil] at *; omega
    · intro x hx; have := I.absent x hx; simp only [cntA, cntW, h, List.count_cons, List.count_append, List.count_nil] at *; omega
    · intro x hx; have := I.runnable x hx; simp only [cntA, h, List.count_cons, List.count_append, List.count_nil] at *; omega
    · exact I.paused
    · exact I.marked
    · exact I.promised

/-- the three ways an iteration of the run loop leaves the head `g` of the deque -/
def dropHead (s : St) (g : Gen) : St :=
  { s with gens := upd s.gens g none, kill := upd s.kill g false, active := s.active.tail,
           promises := upd s.promises g none }

def finishHead (s : St) (g : Gen) (p : Nat) (v : Option Int) : St :=
  { dropHead s g with values := fun q => if q = p then v else s.values q,
                      log := .stored g p v :: s.log }

def pauseHead (s : St) (g : Gen) (d : Int) : St :=
  { s with waiting := ⟨some g, d⟩ :: s.waiting, gens := upd s.gens g (some (some d)),
           active := s.active.tail }

def rotHead (s : St) : St := { s with active := rotl s.active }

/-- the state after the body ran, by how the step ended : coroutines.py:247-262 -/
def afterBody (b : St × Next) (g : Gen) (p : Nat) : St :=
  match b.2 with
  | .stop v => finishHead b.1 g p v
  | .yield w => if positive w then pauseHead b.1 g (w.getD 0 + b.1.timer) else rotHead b.1
  | .crash _ => b.1

/-- the body of the head `g` raised: `g` leaves every table, the sentinel comes back to the front
: coroutines.py:254-263 -/
def crashDrop (s : St) (g : Gen) : St :=
  { dropHead s g with active := frontNone s.active.tail }

/-- what an iteration whose body ran makes of it -/
def iterAfter (b : St × Next) (g : Gen) (p : Nat) : Iter :=
  match b.2 with
  | .crash e => .crash (crashDrop b.1 g) e
  | _ => .next (afterBody b g p)

theorem frontNone_perm (l : List (Option Gen)) : (frontNone l).Perm l := by
  unfold frontNone
  exact List.perm_append_comm.trans (by rw [List.takeWhile_append_dropWhile])

theorem dropWhile_head {l : List (Option Gen)} (h : none ∈ l) :
    ∃ r, l.dropWhile (·.isSome) = none :: r := by
  induction l with
  | nil => simp at h
  | cons a t ih =>
    cases a with
    | none => exact ⟨t, by simp [List.dropWhile]⟩
    | some x =>
      simp only [List.mem_cons, reduceCtorEq, false_or] at h
      obtain ⟨r, hr⟩ := ih h
      exact ⟨r, by simp [List.dropWhile, hr]⟩

theorem frontNone_head {l : List (Option Gen)} (h : none ∈ l) : ∃ rest, frontNone l = none :: rest := by
  obtain ⟨r, hr⟩ := dropWhile_head h
  exact ⟨r ++ l.takeWhile (·.isSome), by simp [frontNone, hr]⟩

/-- a permutation of the deque keeps the invariant -/
theorem Inv.perm_active {s : St} (I : Inv s) {a : List (Option Gen)} (h : a.Perm s.active) :
    Inv { s with active := a } := by
  constructor
  · rw [h.count_eq]; exact I.sentinel
  · intro x; have := I.once x; simp only [cntA, cntW] at *; rw [h.count_eq]; exact this
  · intro x hx; have := I.absent x hx; simp only [cntA, cntW] at *; rw [h.count_eq]; exact this
  · intro x hx; have := I.runnable x hx; simp only [cntA] at *; rw [h.count_eq]; exact this
  · exact I.paused
  · exact I.marked
  · exact I.promised

theorem iter_exit (U : Universe) {s : St} {tl : List (Option Gen)} (h : s.active = none :: tl) :
    iter U s = .exit := by
  simp [iter, h]

theorem Inv.promise_of_gens {s : St} (I : Inv s) {g : Gen} {w : Option Int} (h : s.gens g = some w) :
    ∃ p, s.promises g = some p := by
  cases hp : s.promises g with
  | none => have := (I.promised g).mp hp; simp [h] at this
  | some p => exact ⟨p, rfl⟩

theorem iter_drop (U : Universe) {s : St} (I : Inv s) {g : Gen} {tl : List (Option Gen)}
    (h : s.active = some g :: tl) (hk : s.kill g = true) :
    iter U s = .next (dropHead s g) := by
  have hg := I.gens_of_active (g := g) (by simp [h])
  obtain ⟨p, hp⟩ := I.promise_of_gens hg
  simp [iter, h, hk, hg, hp, dropHead]

theorem iter_run_gen (U : Universe) {s : St} (I : Inv s) {g : Gen} {tl : List (Option Gen)}
    (h : s.active = some g :: tl) (hk : s.kill g = false) :
    ∃ extra p, (runBody U s g).1.active = some g :: (tl ++ extra) ∧
      (runBody U s g).1.promises g = some p ∧ (runBody U s g).1.gens g = some none ∧
      Inv (runBody U s g).1 ∧ (runBody U s g).1.timer = s.timer ∧
      iter U s = iterAfter (runBody U s g) g p := by
  obtain ⟨I1, ⟨extra, hact⟩, htimer⟩ := runBody_spec U I g
  rw [h] at hact
  have hg := I1.gens_of_active (g := g) (by simp [hact])
  obtain ⟨p, hp⟩ := I1.promise_of_gens hg
  refine ⟨extra, p, by simpa using hact, hp, hg, I1, htimer, ?_⟩
  unfold iter
  simp only [h, hk, Bool.false_eq_true, if_false]
  cases hb : runBody U s g with | mk s1 nx =>
  rw [hb] at hact hg hp
  simp only at hact hg hp
  cases nx with
  | stop v =>
    simp [hact, hg, hp, iterAfter, afterBody, finishHead, dropHead]
  | yield w =>
    simp only [iterAfter, afterBody]
    split <;> simp [pauseHead, rotHead]
  | crash e =>
    have hn := I1.none_mem_tail (by rw [hb]; exact hact)
    have hn2 : none ∈ tl ∨ none ∈ extra := List.mem_append.mp hn
    simp [hact, hg, hp, iterAfter, crashDrop, dropHead]
    intro h1
    exact hn2.resolve_left h1

theorem crashDrop_inv {s : St} (I : Inv s) {g : Gen} {tl : List (Option Gen)}
    (h : s.active = some g :: tl) :
    Inv (crashDrop s g) ∧ ∃ rest, (crashDrop s g).active = none :: rest := by
  have I1 := I.drop_head h
  have hn := I.none_mem_tail h
  have hp : (frontNone tl).Perm tl := frontNone_perm tl
  refine ⟨(I1.perm_active hp).frame rfl (by simp [crashDrop, h]) rfl rfl rfl, ?_⟩
  obtain ⟨rest, hr⟩ := frontNone_head hn
  exact ⟨rest, by simp [crashDrop, h, hr]⟩

theorem iter_run (U : Universe) [NoRaise U] {s : St} (I : Inv s) {g : Gen} {tl : List (Option Gen)}
    (h : s.active = some g :: tl) (hk : s.kill g = false) :
    ∃ extra p, (runBody U s g).1.active = some g :: (tl ++ extra) ∧
      (runBody U s g).1.promises g = some p ∧ (runBody U s g).1.gens g = some none ∧
      Inv (runBody U s g).1 ∧ (runBody U s g).1.timer = s.timer ∧
      iter U s = .next (afterBody (runBody U s g) g p) := by
  obtain ⟨extra, p, h1, h2, h3, h4, h5, h6⟩ := iter_run_gen U I h hk
  refine ⟨extra, p, h1, h2, h3, h4, h5, ?_⟩
  rw [h6]
  unfold iterAfter
  split
  · rename_i e he; exact absurd he (runBody_no_crash U s g e)
  · rfl

theorem dropHead_inv {s : St} (I : Inv s) {g : Gen} {tl : List (Option Gen)}
    (h : s.active = some g :: tl) : Inv (dropHead s g) := by
  have := I.drop_head h
  exact this.frame rfl (by simp [dropHead, h]) rfl rfl rfl

theorem afterBody_inv {b : St × Next} (I : Inv b.1) {g : Gen} {tl : List (Option Gen)} (p : Nat)
    (h : b.1.active = some g :: tl) : Inv (afterBody b g p) := by
  unfold afterBody
  split
  · exact (dropHead_inv I h).frame rfl rfl rfl rfl rfl
  · split
    · exact I.pause_head _ h
    · exact I.rotate
  · exact I

theorem afterBody_front {b : St × Next} {g : Gen} {tl : List (Option Gen)} (p : Nat)
    (h : b.1.active = some g :: tl) (hn : none ∈ tl) (hnc : ∀ e, b.2 ≠ .crash e) :
    front (afterBody b g p).active = front tl := by
  unfold afterBody
  split
  · simp [finishHead, dropHead, h]
  · split
    · simp [pauseHead, h]
    · simp [rotHead, h, rotl, front_append _ hn]
  · rename_i e he; exact absurd he (hnc e)

/-- one iteration keeps the invariant; it consumes one entry in front of the sentinel, or the body
it runs raises; the bookkeeping itself never raises -/
theorem iter_spec_gen (U : Universe) {s : St} (I : Inv s) :
    (iter U s = .exit ∧ front s.active = 0) ∨
    (∃ s', iter U s = .next s' ∧ Inv s' ∧ front s'.active + 1 = front s.active) ∨
    (∃ s' e, iter U s = .crash s' e ∧ Inv s' ∧ ∃ rest, s'.active = none :: rest) := by
  cases h : s.active with
  | nil => have := I.sentinel; simp [h] at this
  | cons a tl =>
    cases a with
    | none => exact .inl ⟨iter_exit U h, by simp [front]⟩
    | some g =>
      right
      have hn := I.none_mem_tail h
      cases hk : s.kill g with
      | true =>
        refine .inl ⟨_, iter_drop U I h hk, dropHead_inv I h, ?_⟩
        simp [dropHead, h, front]
      | false =>
        obtain ⟨extra, p, hact, _, _, I1, _, hit⟩ := iter_run_gen U I h hk
        rw [hit]
        unfold iterAfter
        split
        · have := crashDrop_inv I1 hact
          exact .inr ⟨_, _, rfl, this.1, this.2⟩
        · rename_i hnc
          refine .inl ⟨_, rfl, afterBody_inv I1 p hact, ?_⟩
          rw [afterBody_front p hact (by simp [hn]) (fun e he => hnc e he), front_append _ hn]
          simp [front]

/-- for a program whose bodies never raise: exit or next -/
theorem iter_spec (U : Universe) [NoRaise U] {s : St} (I : Inv s) :
    (iter U s = .exit ∧ front s.active = 0) ∨
    (∃ s', iter U s = .next s' ∧ Inv s' ∧ front s'.active + 1 = front s.active) := by
  rcases iter_spec_gen U I with h | h | ⟨s', e, h, _, _⟩
  · exact .inl h
  · exact .inr h
  · exfalso
    cases hact : s.active with
    | nil => have := I.sentinel; simp [hact] at this
    | cons a tl =>
      cases a with
      | none => rw [iter_exit U hact] at h; cases h
      | some g =>
        cases hk : s.kill g with
        | true => rw [iter_drop U I hact hk] at h; cases h
        | false =>
          obtain ⟨_, _, _, _, _, _, _, hit⟩ := iter_run U I hact hk
          rw [hit] at h; cases h

/-- the run loop: the tables stay coherent; it ends normally or because a body raised — never
because of the bookkeeping, never by running out of fuel -/
theorem loop_spec_gen (U : Universe) (fuel : Nat) {s : St} (I : Inv s) (hf : front s.active < fuel) :
    ((loop U fuel s).2 = .ok ∨ ∃ e, (loop U fuel s).2 = .crashed e) ∧ Inv (loop U fuel s).1 := by
  induction fuel generalizing s with
  | zero => omega
  | succ n ih =>
    unfold loop
    rcases iter_spec_gen U I with ⟨he, _⟩ | ⟨s', hn, I', hfr⟩ | ⟨s', e, hc, I', _⟩
    · simp [he, I]
    · simp only [hn]
      exact ih I' (by omega)
    · simp only [hc]
      exact ⟨.inr ⟨e, rfl⟩, I'⟩

theorem loop_spec (U : Universe) [NoRaise U] (fuel : Nat) {s : St} (I : Inv s)
    (hf : front s.active < fuel) : (loop U fuel s).2 = .ok ∧ Inv (loop U fuel s).1 := by
  induction fuel generalizing s with
  | zero => omega
  | succ n ih =>
    unfold loop
    rcases iter_spec U I with ⟨he, _⟩ | ⟨s', hn, I', hfr⟩
    · simp [he, I]
    · simp only [hn]
      exact ih I' (by omega)

theorem process_spec_gen (U : Universe) {s : St} (I : Inv s) (dt : Int) (hint : List Gen) :
    ((process U s dt hint).2 = .ok ∨ ∃ e, (process U s dt hint).2 = .crashed e) ∧
    Inv (process U s dt hint).1 := by
  unfold process
  obtain ⟨h1, I1⟩ := wakePhase_spec I dt hint
  cases hw : wakePhase s dt hint with | mk s1 o =>
  rw [hw] at h1 I1
  simp only at h1 I1
  subst h1
  simp only []
  apply loop_spec_gen U _ I1.rotate
  have := front_le_length (rotl s1.active)
  simp only
  omega

theorem process_spec (U : Universe) [NoRaise U] {s : St} (I : Inv s) (dt : Int) (hint : List Gen) :
    (process U s dt hint).2 = .ok ∧ Inv (process U s dt hint).1 := by
  unfold process
  obtain ⟨h1, I1⟩ := wakePhase_spec I dt hint
  cases hw : wakePhase s dt hint with | mk s1 o =>
  rw [hw] at h1 I1
  simp only at h1 I1
  subst h1
  simp only []
  apply loop_spec U _ I1.rotate
  have := front_le_length (rotl s1.active)
  simp only
  omega

theorem execOp_inv (U : Universe) {s : St} (I : Inv s) (op : Op) : Inv (execOp U s op) := by
  cases op with
  | start g => exact (start_inv U I g).frame rfl rfl rfl rfl rfl
  | kill g => exact (kill_inv U I g).frame rfl rfl rfl rfl rfl
  | state g => simp only [execOp]; split <;> exact I.frame rfl rfl rfl rfl rfl
  | process dt hint => exact (process_spec_gen U I dt hint).2.frame rfl rfl rfl rfl rfl
  | value g => exact I.frame rfl rfl rfl rfl rfl

theorem run_inv (U : Universe) {s : St} (I : Inv s) (ops : List Op) : Inv (run U s ops) := by
  induction ops generalizing s with
  | nil => exact I
  | cons op rest ih => exact ih (execOp_inv U I op)

/-! ### the invariant spelled out, `state`, errors -/

theorem mem_waiting_cnt {s : St} {g : Gen} (h : 0 < cntW s g) : ∃ d, (⟨some g, d⟩ : Rec) ∈ s.waiting := by
  unfold cntW at h
  obtain ⟨r, hr, hp⟩ := List.countP_pos_iff.mp h
  cases r with | mk rg rd =>
  cases rg with
  | none => simp at hp
  | some y => simp at hp; subst hp; exact ⟨rd, hr⟩

theorem Inv.gens_of_waiting {s : St} (I : Inv s) {g : Gen} {d : Int}
    (h : (⟨some g, d⟩ : Rec) ∈ s.waiting) : ∃ d', s.gens g = some (some d') := by
  have hpos := cntW_pos_of_mem h
  cases hg : s.gens g with
  | none => have := I.absent g hg; omega
  | some w =>
    cases w with
    | none => have := I.runnable_cnt hg; omega
    | some d' => exact ⟨d', rfl⟩

theorem Inv.gens_none_iff {s : St} (I : Inv s) (g : Gen) :
    s.gens g = none ↔ (some g ∉ s.active ∧ ∀ d, (⟨some g, d⟩ : Rec) ∉ s.waiting) := by
  constructor
  · intro h
    have := I.absent g h
    refine ⟨fun hm => ?_, fun d hm => ?_⟩
    · have : 0 < cntA s g := List.count_pos_iff.mpr hm
      omega
    · have := cntW_pos_of_mem hm; omega
  · intro ⟨h1, h2⟩
    cases hg : s.gens g with
    | none => rfl
    | some w =>
      cases w with
      | none =>
        have := I.runnable g hg
        exact absurd (List.count_pos_iff.mp (by unfold cntA at this; omega)) h1
      | some d => exact absurd (I.paused g d hg) (h2 d)

theorem Inv.explicit {s : St} (I : Inv s) :
    s.active.count none = 1 ∧
    (∀ g, s.active.count (some g) + s.waiting.countP (fun r => r.gen == some g) ≤ 1) ∧
    (∀ g, s.gens g = none ↔ (some g ∉ s.active ∧ ∀ d, (⟨some g, d⟩ : Rec) ∉ s.waiting)) ∧
    (∀ g, s.gens g = some none ↔ some g ∈ s.active) ∧
    (∀ g, (∃ d, s.gens g = some (some d)) ↔ ∃ d, (⟨some g, d⟩ : Rec) ∈ s.waiting) ∧
    (∀ g d, s.gens g = some (some d) → (⟨some g, d⟩ : Rec) ∈ s.waiting) ∧
    (∀ g, s.kill g = true → s.gens g ≠ none) ∧
    (∀ g, s.promises g = none ↔ s.gens g = none) := by
  refine ⟨I.sentinel, I.once, I.gens_none_iff, fun g => ⟨fun h => ?_, I.gens_of_active⟩,
    fun g => ⟨fun ⟨d, h⟩ => ⟨d, I.paused g d h⟩, fun ⟨d, h⟩ => I.gens_of_waiting h⟩,
    I.paused, I.marked, I.promised⟩
  have := I.runnable g h
  exact List.count_pos_iff.mp (by unfold cntA at this; omega)

theorem stateOf_spec (U : Universe) {s : St} (I : Inv s) (g : Gen) (hg : U.script g ≠ none) :
    (stateOf U s g = .ok .active ↔ (some g ∈ s.active ∧ s.kill g = false)) ∧
    (stateOf U s g = .ok .paused ↔ ((∃ d, (⟨some g, d⟩ : Rec) ∈ s.waiting) ∧ s.kill g = false)) ∧
    (stateOf U s g = .ok .terminated ↔
      ((some g ∉ s.active ∧ ∀ d, (⟨some g, d⟩ : Rec) ∉ s.waiting) ∨ s.kill g = true)) := by
  obtain ⟨_, _, hnone, hrun, hwait, _, _, _⟩ := I.explicit
  cases hs : U.script g with
  | none => exact absurd hs hg
  | some sc =>
    rw [← hnone g, ← hrun g, ← hwait g]
    unfold stateOf
    simp only [hs]
    cases hgens : s.gens g with
    | none => simp
    | some w =>
      cases hk : s.kill g <;> cases w <;> simp

theorem errors_spec (U : Universe) (s : St) (g : Gen) :
    (∀ c, stateOf U s g = .ok c → c ≠ .terminated → start U s g = (s, .raised "ValueError")) ∧
    (stateOf U s g = .ok .terminated → kill U s g = (s, .raised "ValueError")) ∧
    (U.script g = none → start U s g = (s, .raised "TypeError") ∧
      kill U s g = (s, .raised "TypeError") ∧ stateOf U s g = .error "TypeError") := by
  refine ⟨fun c h hc => ?_, fun h => ?_, fun h => ?_⟩
  · simp [start, h, hc]
  · have := stateOf_terminated h
    unfold kill
    unfold stateOf at h
    cases hs : U.script g with
    | none => simp [hs] at h
    | some sc =>
      simp only []
      rcases this with h1 | h1 <;> simp [h1]
  · simp [start, kill, stateOf, h]

end Desper.Coro
