import DesperModel.Loader
import DesperProofs.Lemmas.LoaderRegex
import DesperProofs.Lemmas.LoaderWorld
import DesperProofs.Lemmas.LoaderLoad
/-
  The re-entrant release (`releaseR`, callbacks with scripted reactions, listener sets visited in
  the hinted order) against the passive one (`release`): when no callback reacts and the hints are
  the receivers in registration order, both deliver the same callbacks in the same order.
-/
namespace Desper.Loader
open Desper

/-- no callback of the program does anything to the world -/
def Passive (U : Universe) : Prop := ∀ l m k, U.reaction l m k = []

def bumpCalls (calls : Dict (Label × Str) Nat) (es : List Entry) : Dict (Label × Str) Nat :=
  es.foldl (fun c e => Dict.set c (e.recv, e.meth) ((Dict.get? c (e.recv, e.meth)).getD 0 + 1)) calls

theorem bumpCalls_append (calls : Dict (Label × Str) Nat) (a b : List Entry) :
    bumpCalls calls (a ++ b) = bumpCalls (bumpCalls calls a) b := by
  simp [bumpCalls, List.foldl_append]

/-- what a delivery adds to everything but the log, the call counters and the hints: nothing -/
def RW.logged (rw : RW) (es : List Entry) (hs : List Label) : RW :=
  { rw with w := { rw.w with log := rw.w.log ++ es }, calls := bumpCalls rw.calls es, hints := hs }

theorem logged_nil (rw : RW) : rw.logged [] rw.hints = rw := by
  obtain ⟨⟨sorted, procs, entities, nextAuto, enabled, queue, handlers, log, failed⟩, calls, hints, ns, kn, bad⟩ := rw
  simp [RW.logged, bumpCalls]

theorem logged_logged (rw : RW) (a b : List Entry) (h1 h2 : List Label) :
    (rw.logged a h1).logged b h2 = rw.logged (a ++ b) h2 := by
  simp [RW.logged, bumpCalls_append, List.append_assoc]

theorem callR_passive {U : Universe} (hp : Passive U) (f : Nat) (rw : RW) (ev : Str) (h : Inst)
    (a : CbArgs) (meth : Str) (hs : List Label) (hm : methOf U h.cls ev = some meth)
    (hh : rw.hints = h.label :: hs) :
    callR U (f + 2) rw ev h a = rw.logged [⟨h.label, meth, a⟩] hs := by
  unfold methOf at hm
  simp only [callR, hm, hh, ne_eq, not_true_eq_false, ite_false]
  rw [hp]
  simp [execOps, RW.logged, bumpCalls]

def entryFor (U : Universe) (ev : Str) (a : CbArgs) (h : Inst) : List Entry :=
  match methOf U h.cls ev with
  | some m => [⟨h.label, m, a⟩]
  | none => []

theorem logged_stop (rw : RW) (es : List Entry) (hs : List Label) : (rw.logged es hs).stop = rw.stop := rfl

theorem recv_entryFor {U : Universe} {ev : Str} {a : CbArgs} {rem : List Inst}
    (hl : ∀ h ∈ rem, (methOf U h.cls ev).isSome = true) :
    (rem.flatMap (entryFor U ev a)).map (·.recv) = rem.map (·.label) := by
  induction rem with
  | nil => rfl
  | cons h rem ih =>
    obtain ⟨meth, hm⟩ := Option.isSome_iff_exists.mp (hl h (List.mem_cons_self ..))
    simp [entryFor, hm, ih (fun x hx => hl x (List.mem_cons_of_mem _ hx))]

theorem deliverSetR_passive {U : Universe} (hp : Passive U) (n : Nat) (ev : Str) (a : CbArgs)
    (rem : List Inst) (rw : RW) (hs : List Label)
    (hl : ∀ h ∈ rem, (methOf U h.cls ev).isSome = true)
    (hn : (rem.map (·.label)).Nodup) (hh : rw.hints = rem.map (·.label) ++ hs) (hstop : rw.stop = false) :
    deliverSetR U (n + rem.length + 3) rw ev a rem = rw.logged (rem.flatMap (entryFor U ev a)) hs := by
  induction rem generalizing rw with
  | nil =>
    simp only [List.map_nil, List.nil_append] at hh
    simp only [List.length_nil, Nat.add_zero, deliverSetR, List.flatMap_nil]
    rw [← hh, logged_nil]
  | cons h rem ih =>
    have hsome := hl h (List.mem_cons_self ..)
    obtain ⟨meth, hm⟩ := Option.isSome_iff_exists.mp hsome
    rw [List.map_cons, List.nodup_cons] at hn
    have hfilter : (h :: rem).filter (fun x => x.label ≠ h.label) = rem := by
      simp only [List.filter_cons, ne_eq, not_true_eq_false, decide_false, Bool.false_eq_true, ite_false]
      rw [List.filter_eq_self]
      intro x hx
      have : x.label ≠ h.label := fun e => hn.1 (e ▸ List.mem_map_of_mem (f := (·.label)) hx)
      simp [this]
    have e1 : n + (h :: rem).length + 3 = (n + rem.length + 3) + 1 := by simp; omega
    rw [e1]
    simp only [deliverSetR, hh, List.map_cons, List.cons_append, List.find?_cons, decide_true, hfilter]
    have e2 : n + rem.length + 3 = (n + rem.length + 1) + 2 := by omega
    have hc := callR_passive hp (n + rem.length + 1) rw ev h a meth (rem.map (·.label) ++ hs) hm
      (by rw [hh]; rfl)
    rw [← e2] at hc
    rw [hc, logged_stop, hstop]
    simp only [Bool.false_eq_true, ite_false]
    rw [ih _ (fun x hx => hl x (List.mem_cons_of_mem _ hx)) hn.2 rfl (by rw [logged_stop]; exact hstop)]
    rw [logged_logged]
    simp [entryFor, hm]

theorem listeners_entries (U : Universe) (ev : Str) (a : CbArgs) (w : World) :
    (listeners U w ev).flatMap (entryFor U ev a) = w.handlers.flatMap (entryFor U ev a) := by
  unfold listeners
  induction w.handlers with
  | nil => rfl
  | cons h hs ih =>
    cases hm : methOf U h.cls ev with
    | none =>
      have : ((eventsOf U h.cls).bind (fun m => Dict.get? m ev)).isSome = false := by
        unfold methOf at hm; simp [hm]
      simp [List.filter_cons, this, ih, entryFor, hm]
    | some m =>
      have : ((eventsOf U h.cls).bind (fun m => Dict.get? m ev)).isSome = true := by
        unfold methOf at hm; simp [hm]
      simp [List.filter_cons, this, ih]

theorem listeners_isSome (U : Universe) (ev : Str) (w : World) :
    ∀ h ∈ listeners U w ev, (methOf U h.cls ev).isSome = true := by
  intro h hh
  exact (List.mem_filter.mp hh).2

theorem listeners_nodup (U : Universe) (ev : Str) (w : World) (hn : (w.handlers.map (·.label)).Nodup) :
    ((listeners U w ev).map (·.label)).Nodup :=
  List.Nodup.sublist (List.Sublist.map _ (List.filter_sublist ..)) hn

/-- the entries a delivered event adds, written with `entryFor` -/
def evEntries (U : Universe) (hs : List Inst) : Ev → List Entry
  | .single ev h a => entryFor U ev a h
  | .worldLoad => hs.flatMap (entryFor U onWorldLoad .handleWorld)
  | .event name => hs.flatMap (entryFor U name .none)

theorem evEntries_eq (U : Universe) (hs : List Inst) (ev : Ev) : evEntries U hs ev = entriesOf U hs ev := by
  cases ev <;> rfl

theorem deliverSet_fuel (U : Universe) (w : World) (ev : Str) (k : Nat) :
    ∃ m, k + w.handlers.length + 3 = m + (listeners U w ev).length + 3 :=
  ⟨k + w.handlers.length - (listeners U w ev).length, by
    have : (listeners U w ev).length ≤ w.handlers.length := List.length_filter_le _ _
    omega⟩

theorem deliverEvR_passive {U : Universe} (hp : Passive U) (k : Nat) (rw : RW) (ev : Ev)
    (hs : List Label) (hg : GoodEv U ev) (hn : (rw.w.handlers.map (·.label)).Nodup)
    (hh : rw.hints = (evEntries U rw.w.handlers ev).map (·.recv) ++ hs) (hstop : rw.stop = false) :
    deliverEvR U (k + rw.w.handlers.length + 4) rw ev = rw.logged (evEntries U rw.w.handlers ev) hs := by
  have e : k + rw.w.handlers.length + 4 = (k + rw.w.handlers.length + 3) + 1 := by omega
  rw [e]
  cases ev with
  | single event h a =>
    simp only [GoodEv] at hg
    obtain ⟨meth, hm⟩ := Option.isSome_iff_exists.mp hg
    simp only [evEntries, entryFor, hm, List.map_cons, List.map_nil, List.cons_append,
      List.nil_append] at hh ⊢
    have e2 : k + rw.w.handlers.length + 3 = (k + rw.w.handlers.length + 1) + 2 := by omega
    simp only [deliverEvR]
    rw [e2]
    exact callR_passive hp _ rw event h a meth hs hm hh
  | worldLoad =>
    simp only [deliverEvR, evEntries] at hh ⊢
    obtain ⟨m, hm⟩ := deliverSet_fuel U rw.w onWorldLoad k
    rw [hm, ← listeners_entries U onWorldLoad .handleWorld rw.w]
    refine deliverSetR_passive hp m onWorldLoad .handleWorld _ rw hs
      (listeners_isSome U _ rw.w) (listeners_nodup U _ rw.w hn) ?_ hstop
    rw [hh, ← listeners_entries U onWorldLoad .handleWorld rw.w,
      recv_entryFor (listeners_isSome U _ rw.w)]
  | event name =>
    simp only [deliverEvR, evEntries] at hh ⊢
    obtain ⟨m, hm⟩ := deliverSet_fuel U rw.w name k
    rw [hm, ← listeners_entries U name .none rw.w]
    refine deliverSetR_passive hp m name .none _ rw hs
      (listeners_isSome U _ rw.w) (listeners_nodup U _ rw.w hn) ?_ hstop
    rw [hh, ← listeners_entries U name .none rw.w, recv_entryFor (listeners_isSome U _ rw.w)]

theorem releaseR_nil (U : Universe) (f : Nat) (rw : RW) (hq : rw.w.queue = []) :
    releaseR U (f + 1) rw = rw := by
  rw [releaseR]; simp only [hq]

theorem releaseR_cons (U : Universe) (f : Nat) (rw : RW) (ev : Ev) (q : List Ev)
    (hq : rw.w.queue = ev :: q) (hen : rw.w.enabled = true) :
    releaseR U (f + 1) rw =
      if (deliverEvR U f { rw with w := { rw.w with queue := q } } ev).stop
      then deliverEvR U f { rw with w := { rw.w with queue := q } } ev
      else releaseR U f (deliverEvR U f { rw with w := { rw.w with queue := q } } ev) := by
  rw [releaseR]; simp only [hq, hen, Bool.not_true, Bool.false_eq_true, ite_false]

/-- delivery of the events of a queue, no callback reacting: what `releaseR` does is what the
passive `release` does (`release_good`), the receivers being taken off the hints -/
theorem releaseR_passive {U : Universe} (hp : Passive U) (evs : List Ev) (n : Nat) (rw : RW)
    (hs : List Label) (hq : rw.w.queue = evs) (hen : rw.w.enabled = true) (hstop : rw.stop = false)
    (hg : ∀ ev ∈ evs, GoodEv U ev) (hn : (rw.w.handlers.map (·.label)).Nodup)
    (hh : rw.hints = (evs.flatMap (evEntries U rw.w.handlers)).map (·.recv) ++ hs) :
    releaseR U (n + evs.length + rw.w.handlers.length + 5) rw =
      ({ rw with w := { rw.w with queue := [] } } : RW).logged (evs.flatMap (evEntries U rw.w.handlers)) hs := by
  induction evs generalizing rw with
  | nil =>
    have e : n + ([] : List Ev).length + rw.w.handlers.length + 5 = (n + rw.w.handlers.length + 4) + 1 := by
      simp only [List.length_nil]; omega
    rw [e, releaseR_nil U _ rw hq]
    simp only [List.flatMap_nil, List.map_nil, List.nil_append] at hh ⊢
    rw [← hh]
    obtain ⟨⟨sorted, procs, entities, nextAuto, enabled, queue, handlers, log, failed⟩, calls, hints, ns, kn, bad⟩ := rw
    simp only at hq
    subst hq
    simp [RW.logged, bumpCalls]
  | cons ev evs ih =>
    have e : n + (ev :: evs).length + rw.w.handlers.length + 5 =
        ((n + evs.length + 1) + rw.w.handlers.length + 4) + 1 := by simp; omega
    rw [e, releaseR_cons U _ rw ev evs hq hen]
    simp only [List.flatMap_cons, List.map_append, List.append_assoc] at hh
    have hst : ({ rw with w := { rw.w with queue := evs } } : RW).stop = false := hstop
    have hd := deliverEvR_passive hp (n + evs.length + 1) ({ rw with w := { rw.w with queue := evs } } : RW) ev
      ((evs.flatMap (evEntries U rw.w.handlers)).map (·.recv) ++ hs)
      (hg ev (List.mem_cons_self ..)) hn hh hst
    rw [hd, logged_stop, hst]
    simp only [Bool.false_eq_true, ite_false]
    have e3 : (n + evs.length + 1) + rw.w.handlers.length + 4 = n + evs.length + rw.w.handlers.length + 5 := by omega
    rw [e3]
    have := ih (({ rw with w := { rw.w with queue := evs } } : RW).logged (evEntries U rw.w.handlers ev)
        ((evs.flatMap (evEntries U rw.w.handlers)).map (·.recv) ++ hs))
      rfl hen (by rw [logged_stop]; exact hst) (fun x hx => hg x (List.mem_cons_of_mem _ hx)) hn rfl
    simp only [RW.logged] at this ⊢
    rw [this]
    simp [bumpCalls_append, List.append_assoc]

/-- enabling dispatching on a world whose callbacks do not react: the re-entrant model, following
hints that name the receivers in registration order, ends in the world of the passive model -/
theorem setEnabledR_passive {U : Universe} (hp : Passive U) (w : World) (n : Nat)
    (hf : w.failed = none) (hg : ∀ ev ∈ w.queue, GoodEv U ev) (hn : (w.handlers.map (·.label)).Nodup) :
    let rw := setEnabledR U (n + w.queue.length + w.handlers.length + 6)
      { w := w, hints := (w.queue.flatMap (entriesOf U w.handlers)).map (·.recv) }
    rw.w = setEnabled U w true ∧ rw.bad = none ∧ rw.hints = [] := by
  have e : n + w.queue.length + w.handlers.length + 6 = (n + w.queue.length + w.handlers.length + 5) + 1 := by omega
  simp only [setEnabledR]
  rw [e]
  simp only [execOp, ite_true]
  have hr := releaseR_passive hp w.queue n
    ({ w := { w with enabled := true }, hints := (w.queue.flatMap (entriesOf U w.handlers)).map (·.recv) } : RW)
    [] rfl rfl (by simp [RW.stop, hf]) hg hn
    (by
      have : evEntries U w.handlers = entriesOf U w.handlers := funext (evEntries_eq U _)
      simp only [List.append_nil, this])
  simp only at hr
  rw [hr]
  have hfl : evEntries U w.handlers = entriesOf U w.handlers := funext (evEntries_eq U _)
  refine ⟨?_, rfl, rfl⟩
  simp only [RW.logged, setEnabled, ite_true, hfl]
  rw [release_good U w.queue { w with enabled := true } hg hf]

theorem flatMap_handlerOf_sublist (U : Universe) (l : List Inst) : (l.flatMap (handlerOf U)).Sublist l := by
  induction l with
  | nil => exact List.Sublist.slnil
  | cons i l ih =>
    simp only [List.flatMap_cons, handlerOf]
    split
    · exact List.Sublist.cons₂ _ ih
    · exact List.Sublist.cons _ ih

theorem entInsts_withIds (n : Nat) (es : List (Option EntId × List Item)) :
    entInsts (withIds n es) = (es.flatMap (·.2)).map toInst := by
  induction es generalizing n with
  | nil => rfl
  | cons e es ih =>
    obtain ⟨eid, cs⟩ := e
    cases eid <;> simp [withIds, entInsts, List.flatMap_cons] <;>
      (first | exact ih _ | (have := ih n; simpa [entInsts] using this) | (have := ih (n+1); simpa [entInsts] using this))

theorem toInst_label_nodup {l : List Item} (h : (l.map (·.label)).Nodup) :
    ((l.map toInst).map (·.label)).Nodup := by
  have : (l.map toInst).map (·.label) = (l.map (·.label)).map Label.item := by
    simp [toInst, instOf, Function.comp_def]
  rw [this]
  generalize l.map (·.label) = ns at h
  induction ns with
  | nil => exact List.nodup_nil
  | cons a ns ih =>
    rw [List.nodup_cons] at h
    rw [List.map_cons, List.nodup_cons]
    refine ⟨?_, ih h.2⟩
    intro hm
    obtain ⟨b, hb, e⟩ := List.mem_map.mp hm
    cases e
    exact h.1 hb

theorem loadedFile_facts (U : Universe) (td : Desc)
    (hlab : ((td.processors ++ td.entities.flatMap (·.2)).map (·.label)).Nodup) :
    (loadedFile U td).failed = none ∧ (∀ ev ∈ (loadedFile U td).queue, GoodEv U ev) ∧
    ((loadedFile U td).handlers.map (·.label)).Nodup := by
  simp only [loadedFile, populated, defaultProcessors_disabled, Bool.false_eq_true, ite_false,
    List.nil_append]
  refine ⟨trivial, ?_, ?_⟩
  · intro ev hev
    simp only [List.mem_append, List.mem_singleton] at hev
    rcases hev with (h | h) | h
    · exact goodEv_onAddEv U _ _ ev h
    · exact goodEv_entQueue U _ ev h
    · subst h; trivial
  · rw [entInsts_withIds, ← List.flatMap_append, ← List.map_append]
    exact List.Nodup.sublist (List.Sublist.map _ (flatMap_handlerOf_sublist U _)) (toInst_label_nodup hlab)

end Desper.Loader
