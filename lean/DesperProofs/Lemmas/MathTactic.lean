/-
  Tactic shorthand used by the C18 proofs: both sides are structures (Vec2 .. Mat4) - compare
  them entry by entry, every entry being a polynomial identity.
-/
import DesperProofs.Generated.MathGen
import Mathlib.Tactic.Ring

/-- `ext` on the structure, reduce the projections, close each entry by `ring` -/
macro "by_entries" : tactic => `(tactic| (ext <;> dsimp only <;> ring))
