import DesperModel.Dict
namespace Desper.Dict
variable {κ ν : Type} [DecidableEq κ]

@[simp] theorem get?_nil (k : κ) : get? ([] : Dict κ ν) k = none := rfl

theorem get?_set (d : Dict κ ν) (k k' : κ) (v : ν) :
    get? (set d k v) k' = if k = k' then some v else get? d k' := by
  induction d with
  | nil => simp [set, get?]
  | cons p rest ih =>
    obtain ⟨a, b⟩ := p
    simp only [set]
    split
    · rename_i h; subst h
      simp only [get?]
      split <;> simp_all
    · rename_i h
      simp only [get?, ih]
      split
      · rename_i h2; subst h2
        have : ¬ k = a := fun e => h e.symm
        simp [this]
      · rfl

theorem get?_erase (d : Dict κ ν) (k k' : κ) :
    get? (erase d k) k' = if k = k' then none else get? d k' := by
  induction d with
  | nil => simp [erase, get?]
  | cons p rest ih =>
    obtain ⟨a, b⟩ := p
    simp only [erase]
    split
    · rename_i h; subst h
      rw [ih]; simp only [get?]
      split
      · rfl
      · rfl
    · rename_i h
      simp only [get?, ih]
      split
      · rename_i h2; subst h2
        have : ¬ k = a := fun e => h e.symm
        simp [this]
      · rfl

theorem get?_some_mem {d : Dict κ ν} {k : κ} {v : ν} (h : get? d k = some v) : (k, v) ∈ d := by
  induction d with
  | nil => simp [get?] at h
  | cons p rest ih =>
    obtain ⟨a, b⟩ := p
    simp only [get?] at h
    split at h
    · rename_i h2; subst h2; simp at h; subst h; simp
    · exact List.mem_cons_of_mem _ (ih h)

theorem contains_iff (d : Dict κ ν) (k : κ) : contains d k = true ↔ ∃ v, get? d k = some v := by
  simp [contains, Option.isSome_iff_exists]

end Desper.Dict

namespace Desper
variable {α : Type} [DecidableEq α]

theorem mem_setAdd (s : List α) (a b : α) : b ∈ setAdd s a ↔ b ∈ s ∨ b = a := by
  unfold setAdd; split
  · constructor
    · intro h; exact .inl h
    · rintro (h | h)
      · exact h
      · subst h; assumption
  · simp

theorem mem_setDiscard (s : List α) (a b : α) : b ∈ setDiscard s a ↔ b ∈ s ∧ b ≠ a := by
  simp [setDiscard]

end Desper
