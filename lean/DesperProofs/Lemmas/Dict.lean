import DesperModel.Dict
namespace Desper.Dict
variable {κ ν : Type} [DecidableEq κ]

@[simp] theorem get?_nil (k : κ) : get? ([] : Dict κ ν) k = none := rfl

theorem get?_set (d : Dict κ ν) (k k' : κ) (v : ν) :
    get? (set d k v) k' = if k = k' then some v else get? d k' := by
  induction d with
  | nil => simp [set, get?]
  | cons p rest ih =>
    obtain ⟨a, b⟩ := p
    simp only [set]
    split
    · rename_i h; subst h
      simp only [get?]
      split <;> simp_all
    · rename_i h
      simp only [get?, ih]
      split
      · rename_i h2; subst h2
        have : ¬ k = a := fun e => h e.symm
        simp [this]
      · rfl

theorem get?_erase (d : Dict κ ν) (k k' : κ) :
    get? (erase d k) k' = if k = k' then none else get? d k' := by
  induction d with
  | nil => simp [erase, get?]
  | cons p rest ih =>
    obtain ⟨a, b⟩ := p
    simp only [erase]
    split
    · rename_i h; subst h
      rw [ih]; simp only [get?]
      split
      · rfl
      · rfl
    · rename_i h
      simp only [get?, ih]
      split
      · rename_i h2; subst h2
        have : ¬ k = a := fun e => h e.symm
        simp [this]
      · rfl

theorem get?_some_mem {d : Dict κ ν} {k : κ} {v : ν} (h : get? d k = some v) : (k, v) ∈ d := by
  induction d with
  | nil => simp [get?] at h
  | cons p rest ih =>
    obtain ⟨a, b⟩ := p
    simp only [get?] at h
    split at h
    · rename_i h2; subst h2; simp at h; subst h; simp
    · exact List.mem_cons_of_mem _ (ih h)

theorem contains_iff (d : Dict κ ν) (k : κ) : contains d k = true ↔ ∃ v, get? d k = some v := by
  simp [contains, Option.isSome_iff_exists]

end Desper.Dict

namespace Desper
variable {α : Type} [DecidableEq α]

theorem mem_setAdd (s : List α) (a b : α) : b ∈ setAdd s a ↔ b ∈ s ∨ b = a := by
  unfold setAdd; split
  · constructor
    · intro h; exact .inl h
    · rintro (h | h)
      · exact h
      · subst h; assumption
  · simp

theorem mem_setDiscard (s : List α) (a b : α) : b ∈ setDiscard s a ↔ b ∈ s ∧ b ≠ a := by
  simp [setDiscard]

end Desper

namespace Desper.Dict
variable {κ ν : Type} [DecidableEq κ]

theorem mem_keys_of_mem_set {d : Dict κ ν} {k : κ} {v : ν} {x : κ} (h : x ∈ keys (set d k v)) :
    x = k ∨ x ∈ keys d := by
  induction d with
  | nil => simp [set, keys] at h; exact .inl h
  | cons p rest ih =>
    obtain ⟨a, b⟩ := p
    simp only [set] at h
    split at h
    · rename_i hc
      simp only [keys, List.map_cons, List.mem_cons] at h ⊢
      rcases h with h | h
      · exact .inr (.inl h)
      · exact .inr (.inr h)
    · simp only [keys, List.map_cons, List.mem_cons] at h ⊢
      rcases h with h | h
      · exact .inr (.inl h)
      · rcases ih h with h1 | h1
        · exact .inl h1
        · exact .inr (.inr h1)

theorem keys_nodup_set (d : Dict κ ν) (k : κ) (v : ν) (h : (keys d).Nodup) : (keys (set d k v)).Nodup := by
  induction d with
  | nil => simp [set, keys]
  | cons p rest ih =>
    obtain ⟨a, b⟩ := p
    simp only [set]
    split
    · exact h
    · rename_i hne
      simp only [keys, List.map_cons, List.nodup_cons] at h ⊢
      refine ⟨?_, ih h.2⟩
      intro hm
      rcases mem_keys_of_mem_set hm with h1 | h1
      · exact hne h1
      · exact h.1 h1

theorem mem_keys_of_mem_erase {d : Dict κ ν} {k x : κ} (h : x ∈ keys (erase d k)) : x ∈ keys d ∧ x ≠ k := by
  induction d with
  | nil => simp [erase, keys] at h
  | cons p rest ih =>
    obtain ⟨a, b⟩ := p
    simp only [erase] at h
    split at h
    · rename_i hc
      have := ih h
      exact ⟨by simp [keys] at this ⊢; exact .inr this.1, this.2⟩
    · rename_i hc
      simp only [keys, List.map_cons, List.mem_cons] at h ⊢
      rcases h with h | h
      · exact ⟨.inl h, by rw [h]; exact hc⟩
      · have := ih h
        exact ⟨.inr (by simpa [keys] using this.1), this.2⟩

theorem keys_nodup_erase (d : Dict κ ν) (k : κ) (h : (keys d).Nodup) : (keys (erase d k)).Nodup := by
  induction d with
  | nil => simp [erase, keys]
  | cons p rest ih =>
    obtain ⟨a, b⟩ := p
    simp only [keys, List.map_cons, List.nodup_cons] at h
    simp only [erase]
    split
    · exact ih h.2
    · simp only [keys, List.map_cons, List.nodup_cons]
      refine ⟨?_, ih h.2⟩
      intro hm
      have := (mem_keys_of_mem_erase (d := rest) (by simpa [keys] using hm)).1
      exact h.1 (by simpa [keys] using this)

theorem mem_keys_iff (d : Dict κ ν) (k : κ) : k ∈ keys d ↔ (get? d k).isSome := by
  induction d with
  | nil => simp [keys, get?]
  | cons p rest ih =>
    obtain ⟨a, b⟩ := p
    simp only [keys, List.map_cons, List.mem_cons, get?]
    split
    · rename_i h; subst h; simp
    · rename_i h
      have : ¬ k = a := fun e => h e.symm
      simp only [this, false_or]
      exact ih

theorem mem_values_iff (d : Dict κ ν) (h : (keys d).Nodup) (v : ν) :
    v ∈ values d ↔ ∃ k, get? d k = some v := by
  induction d with
  | nil => simp [values, get?]
  | cons p rest ih =>
    obtain ⟨a, b⟩ := p
    simp only [keys, List.map_cons, List.nodup_cons] at h
    simp only [values, List.map_cons, List.mem_cons]
    constructor
    · rintro (hv | hv)
      · exact ⟨a, by simp [get?, hv]⟩
      · obtain ⟨k, hk⟩ := (ih h.2).mp (by simpa [values] using hv)
        refine ⟨k, ?_⟩
        simp only [get?]
        split
        · rename_i e; subst e
          exfalso; apply h.1
          have := (mem_keys_iff rest a).mpr (by simp [hk])
          simpa [keys] using this
        · exact hk
    · rintro ⟨k, hk⟩
      simp only [get?] at hk
      split at hk
      · left; simpa using hk.symm
      · right
        have := (ih h.2).mpr ⟨k, hk⟩
        simpa [values] using this

theorem mem_iff_get? (d : Dict κ ν) (h : (keys d).Nodup) (k : κ) (v : ν) :
    (k, v) ∈ d ↔ get? d k = some v := by
  refine ⟨?_, get?_some_mem⟩
  induction d with
  | nil => simp
  | cons p rest ih =>
    obtain ⟨a, b⟩ := p
    simp only [keys, List.map_cons, List.nodup_cons] at h
    intro hm
    simp only [List.mem_cons, Prod.mk.injEq] at hm
    simp only [get?]
    rcases hm with ⟨rfl, rfl⟩ | hm
    · simp
    · split
      · rename_i e; subst e
        exfalso; apply h.1
        exact List.mem_map.mpr ⟨(a, v), hm, rfl⟩
      · exact ih h.2 hm

theorem eq_nil_of_forall_get?_none (d : Dict κ ν) (h : ∀ k, get? d k = none) : d = [] := by
  cases d with
  | nil => rfl
  | cons p rest =>
    obtain ⟨a, b⟩ := p
    have := h a
    simp [get?] at this

end Desper.Dict
