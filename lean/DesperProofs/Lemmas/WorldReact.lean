import DesperProofs.Lemmas.WorldProcFrame
/-
  Callbacks that call `delete_entity` themselves (`Universe.reacts`): a mark made at any moment —
  also while the sweep at the start of `process()` is running — stays until the entity has lost all
  of its components.  Nothing here assumes `U.Passive`.
-/
namespace Desper.World
open Desper

/-- marks are only dropped together with the row, and rows that are empty stay empty -/
structure Keep (s s' : St) : Prop where
  dead : ∀ x, x ∈ s.dead → x ∈ s'.dead ∨ row s' x = []
  rows : ∀ x, row s x = [] → row s' x = []

theorem Keep.refl (s : St) : Keep s s := ⟨fun _ h => .inl h, fun _ h => h⟩

theorem Keep.trans {a b c : St} (h1 : Keep a b) (h2 : Keep b c) : Keep a c :=
  ⟨fun x hx => (h1.dead x hx).elim (h2.dead x) (fun h => .inr (h2.rows x h)),
   fun x hx => h2.rows x (h1.rows x hx)⟩

/-- event handling (callbacks included, whatever they mark) keeps every mark and every row -/
theorem Keep.of_tables {U : Universe} {s s' : St} (h : SameTables U s s') : Keep s s' :=
  ⟨fun x hx => .inl (h.deadMono x hx), fun x hx => by rw [row_of_ents h.ents]; exact hx⟩

theorem row_detach_eq (s : St) (e e' : Ent) (st : Ty) :
    row (detach s e st) e' = if e = e' then Dict.erase (row s e) st else row s e' := by
  show ((Dict.get? (detach s e st).ents e').getD []) = _
  rw [detach_ents]
  by_cases hr : (Dict.erase (row s e) st).isEmpty = true
  · simp only [hr, if_true, Dict.get?_erase]
    split
    · simp only [Option.getD_none]
      exact (List.isEmpty_iff.mp hr).symm
    · rfl
  · simp only [hr, Bool.false_eq_true, if_false, Dict.get?_set]
    split
    · rfl
    · rfl

theorem keep_detach (s : St) (e : Ent) (st : Ty) : Keep s (detach s e st) := by
  refine ⟨?_, ?_⟩
  · intro x hx
    by_cases hr : (Dict.erase (row s e) st).isEmpty = true
    · by_cases hxe : x = e
      · right
        rw [row_detach_eq, hxe, if_pos rfl]
        exact List.isEmpty_iff.mp hr
      · left
        unfold detach; simp only [hr, if_true]
        exact List.mem_filter.mpr ⟨hx, by simpa using hxe⟩
    · left
      unfold detach; simp only [hr]
      exact hx
  · intro x hx
    rw [row_detach_eq]
    split
    · rename_i he; subst he; rw [hx]; rfl
    · exact hx

theorem keep_removeComponent (U : Universe) [U.NoReenter] (s : St) (e : Ent) (t : Ty) :
    Keep s (removeComponent U s e t).1 := by
  rcases removeComponent_spec U s e t with ⟨_, heq⟩ | ⟨st, c, _, _, _, hsame⟩
  · rw [heq]; exact .refl s
  · exact (keep_detach s e st).trans (Keep.of_tables hsame)

theorem keep_removeTypes (U : Universe) [U.NoReenter] (s : St) (e : Ent) (ts : List Ty) :
    Keep s (removeTypes U s e ts).1 := by
  induction ts generalizing s with
  | nil => exact .refl s
  | cons t ts ih =>
    simp only [removeTypes]
    have h1 := keep_removeComponent U s e t
    cases hx : removeComponent U s e t with
    | mk s' r =>
      obtain ⟨o, c⟩ := r
      rw [hx] at h1
      cases o <;> simp only
      · exact h1.trans (ih s')
      all_goals exact h1

theorem keep_sweep (U : Universe) [U.NoReenter] (s : St) (es : List Ent) : Keep s (sweep U s es).1 := by
  induction es generalizing s with
  | nil => exact .refl s
  | cons e es ih =>
    simp only [sweep]
    split
    · exact .refl s
    · rename_i r hr
      have h1 := keep_removeTypes U s e (Dict.keys r)
      cases hx : removeTypes U s e (Dict.keys r) with
      | mk s' o =>
        rw [hx] at h1
        cases o <;> simp only
        · exact h1.trans (ih s')
        all_goals exact h1

/-- the callback that calls `delete_entity(x)`: from its return (or its exception) on, `x` is awaiting
deletion -/
theorem callCb_marks (U : Universe) [U.NoReenter] (s : St) (o : Obj) (m : String) (e : Entry) (x : Ent)
    (h : U.reacts o m ((Dict.get? s.calls (o, m)).getD 0) = some x) :
    x ∈ (callCb U s o m e).1.dead := by
  unfold callCb
  simp only [h, Universe.NoReenter.noReenter]
  split <;> exact (mem_setAdd _ _ _).mpr (.inr rfl)

end Desper.World
