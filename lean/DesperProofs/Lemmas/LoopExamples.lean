import DesperProofs.Lemmas.LoopSwitch
/-
  Concrete scenarios used by the non-vacuity examples and the guard witnesses of C13 / C14.
-/
namespace Desper.Loop.Ex

/-- three handles with two plain processors each; handle 1 dispatches c2(3) while loading;
every callback returns normally -/
def U : Universe :=
  { loadEvents := fun h => if h = 1 then [(.custom 2, .tok 3)] else []
    procs := fun _ => [.plain, .plain]
    react := fun _ => .none }

/-- the test program called `loop.switch(handle0)` -/
def s0 : St := run U 10 {} [.switch 0 false false]

theorem s0_idle : Idle s0 := run_idle U 10 _ _ idle_init

/-- D26: handle 0 only; the callback of delivery 1 (the on_switch_out of the first request)
requests `switch(handle0, clear_current=True)` itself -/
def U26 : Universe :=
  { loadEvents := fun _ => []
    procs := fun _ => [.plain]
    react := fun n => if n = 1 then .switch 0 true false else .none }

/-- `loop.switch(handle0)`, then a start whose first frame requests `switch(handle0, clear_next=True)` -/
def ops26 : List Op :=
  [.switch 0 false false,
   .start [⟨3, 3, [.user (.switch 0 false true)]⟩, ⟨5, 5, [.user .none]⟩,
     ⟨6, 6, [.user .raiseQuit]⟩]]

def hasSwitchIn (log : List Entry) : Bool :=
  log.any fun
    | .ev _ .switchIn _ => true
    | _ => false

def loadsOf (h : Handle) (log : List Entry) : Nat :=
  (log.filter fun
    | .load i => i.h = h
    | _ => false).length

end Desper.Loop.Ex
