import DesperModel.Disp
import DesperModel.World
import DesperModel.Spatial
import DesperModel.Logic
import DesperModel.Coro
import DesperModel.Tree
import DesperModel.Loop
import DesperModel.Loader
import DesperModel.Pop
import DesperModel.MathExec
/-
  Line-protocol driver.  stdin: a sequence of
      scenario <model> <id>
      <line> ...
      end
  stdout, per scenario:
      begin <id>
      <observation line> ...
      end <id>
-/
open Desper

def runModel (model : String) (lines : List String) : List String :=
  match model with
  | "disp"   => Disp.runScenario lines
  | "world"  => World.runScenario lines
  | "spatial" => Spatial.runScenario lines
  | "logic" => Logic.runScenario lines
  | "coro"   => Coro.runScenario lines
  | "tree"   => Tree.runScenario lines
  | "loop"   => Loop.runScenario lines
  | "loader" => Loader.runScenario lines
  | "pop"    => Pop.runScenario lines
  | "math"   => MathExec.runScenario lines
  | _        => ["bad-model"]

partial def loop (h : IO.FS.Stream) (cur : Option (String × String)) (acc : Array String) : IO Unit := do
  let line ← h.getLine
  if line.isEmpty then return ()
  let l := (line.dropEndWhile (fun c => c = '\n' || c = '\r')).toString
  match cur with
  | none =>
    match Proto.tokens l with
    | ["scenario", model, id] => loop h (some (model, id)) #[]
    | [] => loop h none #[]
    | _ => IO.println "bad-header"; loop h none #[]
  | some (model, id) =>
    if l = "end" then
      IO.println s!"begin {id}"
      for o in runModel model acc.toList do IO.println o
      IO.println s!"end {id}"
      loop h none #[]
    else loop h cur (acc.push l)

def main : IO Unit := do
  loop (← IO.getStdin) none #[]
