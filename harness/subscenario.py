"""Soundness self-test of the failing-input shrinker and of the oracles (not a registered check).

    /venv/bin/python harness/subscenario.py <pid> [seed]

The shrinker deletes lines of a failing scenario and keeps a candidate when the oracle still reports the same
signature.  That is only sound if, on a tree where the property HOLDS, no sub-scenario of a generated scenario
makes the oracle report anything: an ill-formed sub-scenario (a reference to a declaration that was deleted)
must be rejected by the runner (ValueError), and a well-formed one must be judged correctly.  This tool takes
60 generated scenarios, deletes 1-3 random lines 12 times each, and prints every violation the oracle reports
on the unchanged tree (expected: none).
"""
import sys, random, importlib, collections
sys.path.insert(0, str(__import__('pathlib').Path(__file__).resolve().parent.parent))
from harness import core
core.use_repo()
pid = sys.argv[1]
prop = importlib.import_module(f'harness.props.{pid}')
model_mod = importlib.import_module(f'harness.models.{prop.MODEL}')
rng = random.Random(int(sys.argv[2]) if len(sys.argv) > 2 else 0)
import itertools
scen = list(itertools.islice(prop.generate(rng, 'quick'), 60))
known = {e['sig'] for e in core.load_findings(pid) if e.get('status') == 'known'}
bad = collections.Counter(); n = 0; rejected = 0
for s in scen:
    for _ in range(12):
        k = rng.randint(1, 3)
        cand = list(s); removed = []
        for _ in range(k):
            if cand: removed.append(cand.pop(rng.randrange(len(cand))))
        n += 1
        try:
            obs, _ = core.run_impl_guarded(model_mod, cand)
        except core.Timeout:
            obs = ['hang']
        except Exception as e:
            rejected += 1
            continue
        try:
            vs = prop.oracle(cand, obs)
        except Exception as e:
            continue
        for v in vs:
            sig = v['sig']
            if sig in known: continue
            bad[sig] += 1
            if bad[sig] <= 2:
                print('---', pid, sig, v['what'][:300]); print('REMOVED', removed); print('\n'.join(cand))
print(pid, 'candidates', n, 'rejected', rejected, 'violations', dict(bad))
