"""Seeded scenario generators for the `loop` model (C13, C14)."""
import itertools

KINDS = ['p', 'p', 'p', 'u', 'c']


def gen_act(rng, nh, weights):
    """weights: dict kind -> weight over none/switch/rswitch/quit/quitto/rquit/rother and, for
    processors only, lswitch/setclock/peek (direct calls of the running loop's public API)"""
    kinds = list(weights)
    k = rng.choices(kinds, [weights[x] for x in kinds])[0]
    if k == 'setclock':
        return f'setclock {rng.randint(0, 1)}'
    if k in ('switch', 'rswitch', 'lswitch'):
        flags = rng.choice([(0, 0), (0, 0), (1, 0), (0, 1), (1, 1)])
        return f'{k} {rng.randrange(nh)} {flags[0]} {flags[1]}'
    if k == 'quitto':
        return f'quitto {rng.randrange(nh)}'
    return k


FRAME_W = {'none': 10, 'switch': 5, 'rswitch': 1.5, 'quit': 1, 'quitto': 0.5, 'rquit': 1, 'rother': 0.7,
           'lswitch': 2, 'setclock': 0.7, 'peek': 1.5}
REACT_W = {'none': 2, 'switch': 4, 'rswitch': 1, 'quit': 1, 'quitto': 0.5, 'rquit': 1.5, 'rother': 1}


# clock readings as a dimension of their own: how the time function represents a reading, where the
# readings lie (small, around 2**53 where doubles stop being exact for integers, nanoseconds since
# the epoch, negative) and how they move (C14 says non-decreasing; decreasing steps are fed as well,
# the difference is what the code must hand on)
BASES = [0, 0, 7, -40, 2 ** 53 - 3, 2 ** 53 + 1, 2 ** 63 + 5, 1_700_000_000_123_456_789,
         -(2 ** 53) - 11]
STEPS = [0, 1, 1, 2, 3, 5, 8, 13, 255, 257, 16_666_667, 1_000_000_007, 2 ** 31 + 1]


def gen_clock(rng):
    """-> (kind, base, step function)"""
    kind = rng.choices(['f8', 'int', 'frac'], [5, 4, 2])[0]
    if kind == 'f8':
        base = rng.randrange(-20, 50)
        steps = [0, 1, 1, 2, 3, 5, 8, 13]
    elif kind == 'int':
        base = rng.choice(BASES)
        steps = STEPS if abs(base) > 1000 or rng.random() < 0.5 else STEPS[:8]
    else:
        base = rng.choice([0, 1, -9, 22, 10 ** 18 + 3])
        steps = STEPS[:10]
    backwards = rng.random() < 0.15

    def step():
        d = rng.choice(steps)
        return -d if backwards and rng.random() < 0.4 else d
    return kind, base, step


def gen_identity(rng, nh, p=0.45):
    """Python protocol dressing of the scenario's handles and worlds, a dimension of every loop
    scenario: distinct handle objects that compare equal (value objects: one equality group, or
    two), hashing alike or unhashable (`__eq__` only), falsy handles and falsy worlds (`__bool__`
    False, `__len__` 0).  The scenario means the same with or without these lines."""
    if rng.random() >= p:
        return []
    groups = ['a'] * nh if rng.random() < 0.6 else [rng.choice(['a', 'b', '-']) for _ in range(nh)]
    hmode = rng.choice(['g', 'g', 'none'])
    out = []
    for h in range(nh):
        truth = rng.choice(['t', 't', 'bool', 'len'])
        world = rng.choice(['t', 't', 'bool', 'len'])
        out.append(f'identity {h} eq={groups[h]} hash={hmode} truth={truth} world={world}')
    return out


def gen_scenario(rng, frame_w=FRAME_W, react_p=0.35, max_handles=3, max_starts=3, max_frames=8):
    nh = rng.randint(1, max_handles)
    lines, procs = [], []
    kind, reading, step = gen_clock(rng)
    if kind != 'f8' or rng.random() < 0.5:
        lines.append(f'clock {kind}')
    # the second time function: same representation, its own readings
    two_clocks = rng.random() < 0.5
    alt = reading + rng.choice([-5, 3, 1000, 12345678901])
    for h in range(nh):
        ks = [rng.choice(KINDS) for _ in range(rng.randint(1, 3))]
        procs.append(ks)
        ld = [f'{rng.randrange(4)}:{rng.randrange(10)}' for _ in range(rng.choice([0, 0, 1, 2]))]
        lines.append(f'handle {h} procs={",".join(ks)} load={",".join(ld) or "-"}')
    lines += gen_identity(rng, nh)
    if rng.random() < react_p:
        for n in sorted(rng.sample(range(0, 30), rng.randint(1, 5))):
            lines.append(f'react {n} {gen_act(rng, nh, REACT_W)}')
    for h in range(nh):
        if rng.random() < 0.2:
            lines.append(f'op load {h}')
    if rng.random() < 0.95:
        fl = rng.choice([(0, 0), (0, 0), (0, 0), (1, 0), (0, 1), (1, 1)])
        lines.append(f'op switch {rng.randrange(nh)} {fl[0]} {fl[1]}')
    for _ in range(rng.randint(1, max_starts)):
        lines.append('op start')
        nf = rng.randint(1, max_frames)
        for f in range(nf):
            reading += step()
            alt += step()
            acts = [gen_act(rng, nh, frame_w) for _ in range(3)]
            if f == nf - 1 and rng.random() < 0.6:
                acts[rng.randrange(3)] = rng.choice(['quit', 'rquit', 'rquit'])
            lines.append(f'frame {reading}{"/%d" % alt if two_clocks else ""} ' + ' ; '.join(acts))
        if rng.random() < 0.15:
            lines.append(f'op switch {rng.randrange(nh)} {rng.randint(0, 1)} {rng.randint(0, 1)}')
    return lines


def small_scope(react_acts=('none',)):
    """Two handles, every switch kind (switch(), raise SwitchWorld, loop.switch() called directly) /
    flag combination / target / cached-or-not, requested by a plain processor, an on_update callback
    and a coroutine; then more frames (one peeks at loop.current_world) and a quit."""
    for kind, pre, act, tgt, cc, cn, ra in itertools.product(
            ['p', 'u', 'c'], [0, 1], ['switch', 'rswitch', 'lswitch'], [0, 1], [0, 1], [0, 1], react_acts):
        if kind == 'u' and act == 'lswitch':
            continue                     # direct API calls are scripted for processors only
        lines = [f'handle 0 procs=p,{kind},p load=1:7', 'handle 1 procs=p,p load=2:3,0:4']
        if (pre + tgt + cc + cn) % 2:
            # every other case with value-equal (and here unhashable, falsy) handles and falsy worlds
            lines += ['identity 0 eq=a hash=none truth=bool world=len',
                      'identity 1 eq=a hash=none truth=len world=bool']
        if pre:
            lines.append('op load 1')
        lines.append('op switch 0 0 0')
        a = f'{act} {tgt} {cc} {cn}'
        if kind == 'u':
            # deliveries so far: c1, on_world_load of 0#1 (2), frame 1's on_update is number 2,
            # frame 2's is number 3
            lines.append(f'react 3 {a}')
            a = 'none'
        if ra != 'none':
            lines.append(f'react 5 {ra}')
        lines += ['op start', 'frame 3 none ; none ; none', f'frame 5 none ; {a} ; none',
                  'frame 6 peek ; none ; none', 'frame 10 none ; none ; none',
                  'frame 11 switch 0 0 0 ; none', 'frame 12 none ; none', 'frame 14 rquit',
                  'op start', 'frame 20 none', 'frame 21 quit']
        yield lines
