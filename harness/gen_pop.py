"""Seeded scenario generator for the `pop` model (C16): real directory trees, rule lists, options."""
from harness.gen_tree import Gen as TreeGen

STEMS = ['a', 'b', 'a1', 'x', 'data', 'img']
# (extensions are compared as they are spelled: '.TXT' is not '.txt')
EXTS = ['', '', '.txt', '.txt', '.png', '.gz', '.tar.gz', '.', '.d', '.TXT', '.Png', '.txT']
FILTERS = [[], [], ['.txt'], ['.png', '.txt'], ['.gz'], ['.d'], ['.txt', '.'], ['.TXT'], ['.txt', '.Png']]
# L<n> D<n> U<n> G<n> K<n>: argument OBJECTS (a list, a dict, an object that cannot be copied, a generator, a
# lock): the factory must be handed those very objects, whatever they are
ARGS = ['-', '-', 'a', 'a.b', '|k=v', 'a|k=v.j=w', 'L0', 'a.D1', '|opt=U2', 'G3.L0', 'L0|same=L0', '|lock=K4', 'D1|d=D5']
TOPS = ['r', 'img', 'snd.d']
# the container type file_exts is passed in (documented: Iterable[str]) - one-shot iterables included
CONTAINERS = ['list', 'list', 'tuple', 'set', 'frozenset', 'dictkeys', 'dict', 'gen', 'iter', 'map', 'reversed']
# spellings of the populator's root (harness/models/pop.py): trailing separator, '/.', relative to the working
# directory, './x', '' and '.' with the root as working directory
SPELLINGS = ['abs', 'abs', 'abs_s', 'abs_dot', 'rel', 'rel_s', 'dot_rel', 'rel_dot', 'empty', 'dot', 'dot_s']


def gen_tree(rng):
    """dirs, files as component lists; depth <= 4, <= 15 entries"""
    dirs, files = [], []
    tops = rng.sample(TOPS, rng.randint(1, 3))
    for t in tops:
        dirs.append([t])
    budget = rng.randint(2, 15 - len(tops))
    for _ in range(budget):
        parent = rng.choice(dirs)
        name = rng.choice(STEMS) + rng.choice(EXTS)
        cs = parent + [name]
        if cs in dirs or cs in files:
            continue
        if len(cs) < 4 and rng.random() < 0.3:
            dirs.append(cs)
        else:
            files.append(cs)
    # collisions between a directory and a trimmed file name, between two trimmed names
    if rng.random() < 0.35 and dirs:
        d = rng.choice(dirs)
        cand = d[:-1] + [d[-1].split('.')[0] + rng.choice(['.txt', '.png'])]
        if len(d) > 1 and cand not in dirs and cand not in files:
            files.append(cand)
    if rng.random() < 0.35 and files:
        f = rng.choice(files)
        stem = f[-1].split('.')[0]
        cand = f[:-1] + [stem + rng.choice(['.txt', '.png', '.gz'])]
        if cand not in dirs and cand not in files:
            files.append(cand)
    return tops, dirs, files


def spell(rng, cs):
    s = '/'.join(cs)
    r = rng.random()
    if r < 0.1:
        return s + '/'
    if r < 0.2:
        return './' + s
    return s


def gen_c16(rng, static=False):
    """`static`: after every population a snapshot of the populated map is taken and probed side by side with
    the map itself (C17 on trees built by the populator)"""
    nsnap = 0
    tops, dirs, files = gen_tree(rng)
    lines = []
    for d in dirs:
        lines.append('fs dir :' + '/'.join(d))
    for f in files:
        lines.append('fs file :' + '/'.join(f))
    nmaps = rng.randint(1, 2)
    eq_mode = rng.random() < 0.3
    for k in range(nmaps):
        lines.append(f'newmap m{k}' + (rng.choice(['', ' eq=A', ' ueq=A', ' falsy=1', ' eq=A falsy=1']) if eq_mode else ''))
    nh = rng.randint(0, 2)
    for k in range(nh):
        lines.append(f'newhandle h{k} obj' + (rng.choice([' eq=A', ' ueq=A', ' eq=A falsy=1']) if eq_mode else ''))
    npops = rng.randint(1, 2)
    for p in range(npops):
        lines.append(f'pop p{p} nest={rng.randint(0, 1)} trim={rng.randint(0, 1)} root={rng.choice(SPELLINGS)}')
        for _ in range(rng.randint(1, 4)):
            r = rng.random()
            if r < 0.08:
                d = spell(rng, [rng.choice(['nothing', 'r/none'])])
            elif r < 0.16 and files:
                d = '/'.join(rng.choice(files))          # exists, not a directory
            elif r < 0.21:
                d = '.'
            elif r < 0.45 and len(dirs) > len(tops):
                d = spell(rng, rng.choice(dirs))
            else:
                d = spell(rng, [rng.choice(tops)])
            exts = rng.choice(FILTERS)
            lines.append(f'rule p{p} :{d} fac={rng.randint(0, 2)} exts={",".join(exts) or "-"} '
                         f'args={rng.choice(ARGS)} cont={rng.choice(CONTAINERS)}')
    # keys that files will take (to aim pre-existing content and conflicts at them)
    keys = ['/'.join(f) for f in files] + ['/'.join(f[:-1] + [f[-1].rsplit('.', 1)[0] or f[-1]]) for f in files]
    unused = [f'h{k}' for k in range(nh)]
    last_pop = None
    for step in range(rng.randint(1, 4)):
        r = rng.random()
        # the tree changes between two populations (deep in it: the directories above keep their mtime)
        if step > 0 and rng.random() < 0.45:
            for _ in range(rng.randint(1, 2)):
                deep = [d for d in dirs if len(d) >= 2] or dirs
                q = rng.random()
                if q < 0.55 or not files:
                    parent = rng.choice(deep)
                    cs = parent + [rng.choice(STEMS) + rng.choice(['.txt', '.png', '.gz', '']) + 'n']
                    if cs not in files and cs not in dirs and len(cs) <= 4:
                        files.append(cs)
                        lines.append('fs file :' + '/'.join(cs))
                elif q < 0.7:
                    parent = rng.choice(deep)
                    cs = parent + [rng.choice(STEMS) + 'd']
                    if cs not in files and cs not in dirs and len(cs) <= 3:
                        dirs.append(cs)
                        lines.append('fs dir :' + '/'.join(cs))
                else:
                    victims = [f for f in files if len(f) >= 3] + [d for d in dirs if len(d) >= 3]
                    if victims:
                        v = rng.choice(victims)
                        dirs[:] = [d for d in dirs if d[:len(v)] != v]
                        files[:] = [f for f in files if f[:len(v)] != v]
                        lines.append('fs rm :' + '/'.join(v))
        if r < 0.2 and unused and keys:
            lines.append(f'op set m0 :{rng.choice(keys)} {unused.pop()}')
        elif r < 0.25:
            lines.append('op layer m0')
        elif r < 0.30:
            lines.append('op clear m0')
        flag = lambda: rng.choice(['N', 'N', 'N', '0', '1'])   # noqa
        m = f'm{rng.randrange(nmaps)}' if rng.random() < 0.2 else 'm0'
        # the same populator object again, more often than not (it must look at the tree afresh every time)
        pop = last_pop if last_pop is not None and rng.random() < 0.65 else rng.randrange(npops)
        last_pop = pop
        lines.append(f'op populate p{pop} {m} nest={flag()} trim={flag()} '
                     f'root={rng.choice(["0", "0", "0", "1"] + SPELLINGS)}')
        lines.append(f'op dump {m}')
        if rng.random() < 0.3:
            lines.append('op links')
        if static:
            s = f's{nsnap}'
            nsnap += 1
            lines.append(f'op snap {s} {m}')
            lines.append(f'op sdump {s}')
            # the keys files and directories take (with and without extension), a few absent ones
            probes = []
            for cs in rng.sample(files + dirs, min(len(files + dirs), rng.randint(2, 6))):
                probes.append(cs)
                stem = cs[-1].rsplit('.', 1)[0]
                if stem and stem != cs[-1]:
                    probes.append(cs[:-1] + [stem])
            probes.append([rng.choice(tops), 'nope'])
            for cs in probes:
                tok = ':' + '/'.join(cs)
                lines.append(f'op get {m} {tok}')
                lines.append(f'op sget {s} {tok}')
                lines.append(f'op chain {m} {tok}')
                lines.append(f'op {rng.choice(["sgetitem", "sgetattr"])} {s} {tok}')
            lines.append(f'op sdump {s}')
    names = sorted({cs[-1] for cs in dirs + files})
    for n in names:
        lines.append(f'op splitext :{n}')
    for n in ['.hid', '..', 'a..b', '...x', 'x.y.', '.a.b']:
        if rng.random() < 0.2:
            lines.append(f'op splitext :{n}')
    return lines
