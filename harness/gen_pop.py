"""Seeded scenario generator for the `pop` model (C16): real directory trees, rule lists, options."""
from harness.gen_tree import Gen as TreeGen

STEMS = ['a', 'b', 'a1', 'x', 'data', 'img']
EXTS = ['', '', '.txt', '.txt', '.png', '.gz', '.tar.gz', '.', '.d']
FILTERS = [[], [], ['.txt'], ['.png', '.txt'], ['.gz'], ['.d'], ['.txt', '.']]
ARGS = ['-', '-', 'a', 'a.b', '|k=v', 'a|k=v.j=w']
TOPS = ['r', 'img', 'snd.d']
# the container type file_exts is passed in (documented: Iterable[str]) - one-shot iterables included
CONTAINERS = ['list', 'list', 'tuple', 'set', 'frozenset', 'dictkeys', 'dict', 'gen', 'iter', 'map', 'reversed']
# spellings of the populator's root (harness/models/pop.py): trailing separator, '/.', relative to the working
# directory, './x', '' and '.' with the root as working directory
SPELLINGS = ['abs', 'abs', 'abs_s', 'abs_dot', 'rel', 'rel_s', 'dot_rel', 'rel_dot', 'empty', 'dot', 'dot_s']


def gen_tree(rng):
    """dirs, files as component lists; depth <= 4, <= 15 entries"""
    dirs, files = [], []
    tops = rng.sample(TOPS, rng.randint(1, 3))
    for t in tops:
        dirs.append([t])
    budget = rng.randint(2, 15 - len(tops))
    for _ in range(budget):
        parent = rng.choice(dirs)
        name = rng.choice(STEMS) + rng.choice(EXTS)
        cs = parent + [name]
        if cs in dirs or cs in files:
            continue
        if len(cs) < 4 and rng.random() < 0.3:
            dirs.append(cs)
        else:
            files.append(cs)
    # collisions between a directory and a trimmed file name, between two trimmed names
    if rng.random() < 0.35 and dirs:
        d = rng.choice(dirs)
        cand = d[:-1] + [d[-1].split('.')[0] + rng.choice(['.txt', '.png'])]
        if len(d) > 1 and cand not in dirs and cand not in files:
            files.append(cand)
    if rng.random() < 0.35 and files:
        f = rng.choice(files)
        stem = f[-1].split('.')[0]
        cand = f[:-1] + [stem + rng.choice(['.txt', '.png', '.gz'])]
        if cand not in dirs and cand not in files:
            files.append(cand)
    return tops, dirs, files


def spell(rng, cs):
    s = '/'.join(cs)
    r = rng.random()
    if r < 0.1:
        return s + '/'
    if r < 0.2:
        return './' + s
    return s


def gen_c16(rng):
    tops, dirs, files = gen_tree(rng)
    lines = []
    for d in dirs:
        lines.append('fs dir :' + '/'.join(d))
    for f in files:
        lines.append('fs file :' + '/'.join(f))
    nmaps = rng.randint(1, 2)
    eq_mode = rng.random() < 0.3
    for k in range(nmaps):
        lines.append(f'newmap m{k}' + (rng.choice(['', ' eq=A', ' ueq=A', ' falsy=1', ' eq=A falsy=1']) if eq_mode else ''))
    nh = rng.randint(0, 2)
    for k in range(nh):
        lines.append(f'newhandle h{k} obj' + (rng.choice([' eq=A', ' ueq=A', ' eq=A falsy=1']) if eq_mode else ''))
    npops = rng.randint(1, 2)
    for p in range(npops):
        lines.append(f'pop p{p} nest={rng.randint(0, 1)} trim={rng.randint(0, 1)} root={rng.choice(SPELLINGS)}')
        for _ in range(rng.randint(1, 4)):
            r = rng.random()
            if r < 0.08:
                d = spell(rng, [rng.choice(['nothing', 'r/none'])])
            elif r < 0.16 and files:
                d = '/'.join(rng.choice(files))          # exists, not a directory
            elif r < 0.21:
                d = '.'
            elif r < 0.45 and len(dirs) > len(tops):
                d = spell(rng, rng.choice(dirs))
            else:
                d = spell(rng, [rng.choice(tops)])
            exts = rng.choice(FILTERS)
            lines.append(f'rule p{p} :{d} fac={rng.randint(0, 2)} exts={",".join(exts) or "-"} '
                         f'args={rng.choice(ARGS)} cont={rng.choice(CONTAINERS)}')
    # keys that files will take (to aim pre-existing content and conflicts at them)
    keys = ['/'.join(f) for f in files] + ['/'.join(f[:-1] + [f[-1].rsplit('.', 1)[0] or f[-1]]) for f in files]
    unused = [f'h{k}' for k in range(nh)]
    for _ in range(rng.randint(1, 4)):
        r = rng.random()
        if r < 0.2 and unused and keys:
            lines.append(f'op set m0 :{rng.choice(keys)} {unused.pop()}')
        elif r < 0.25:
            lines.append('op layer m0')
        elif r < 0.30:
            lines.append('op clear m0')
        flag = lambda: rng.choice(['N', 'N', 'N', '0', '1'])   # noqa
        m = f'm{rng.randrange(nmaps)}' if rng.random() < 0.2 else 'm0'
        lines.append(f'op populate p{rng.randrange(npops)} {m} nest={flag()} trim={flag()} '
                     f'root={rng.choice(["0", "0", "0", "1"] + SPELLINGS)}')
        lines.append(f'op dump {m}')
        if rng.random() < 0.3:
            lines.append('op links')
    names = sorted({cs[-1] for cs in dirs + files})
    for n in names:
        lines.append(f'op splitext :{n}')
    for n in ['.hid', '..', 'a..b', '...x', 'x.y.', '.a.b']:
        if rng.random() < 0.2:
            lines.append(f'op splitext :{n}')
    return lines
