"""Inventory of the public surface of desper/math.py (C18).

One static table, used by
  * the tracing translator (harness/translate_math.py): every entry is run on symbolic scalars,
  * the implementation runner (harness/models/math.py): every entry is run on exact rationals /
    floats,
so both call the real code in exactly the same way.  The table is static on purpose: a change of
desper/math.py that breaks a function must not remove the function from the scenarios.

An entry is  name -> Entry(params, fn, tr, named)
    params : list of (python parameter name, kind)   kind in s v2 v3 v4 m3 m4
    fn     : lambda M, *args -> value      M is the module desper.math, args are real desper
             objects (Vec2 ... Mat4) or scalars
    tr     : True when the function goes through sqrt / sin / cos / atan2 / tan / pi
             ("transcendental": proved over the reals, executed under a stand-in interpretation,
             tested on floats)
    named  : True when the property statement C18 names the function (oracle + theorems);
             False: translated and validated only.
"""
from collections import namedtuple, OrderedDict

Entry = namedtuple('Entry', 'name params fn tr named')

KIND_LEN = {'s': 1, 'v2': 2, 'v3': 3, 'v4': 4, 'm3': 9, 'm4': 16, 't3': 3, 't4': 4}
VEC_FIELDS = ['x', 'y', 'z', 'w']


def fields(kind):
    if kind == 's':
        return ['']
    if kind[0] == 'v':
        return VEC_FIELDS[:int(kind[1])]
    return [f'e{i}' for i in range(KIND_LEN[kind])]


def build(M, kind, leaves):
    """Real desper object of the given kind over the given scalar leaves."""
    leaves = list(leaves)
    assert len(leaves) == KIND_LEN[kind]
    if kind == 's':
        return leaves[0]
    if kind == 'v2':
        return M.Vec2(*leaves)
    if kind == 'v3':
        return M.Vec3(*leaves)
    if kind == 'v4':
        return M.Vec4(*leaves)
    if kind == 'm3':
        return M.Mat3(tuple(leaves))
    if kind == 'm4':
        return M.Mat4(tuple(leaves))
    raise ValueError(kind)


def classify(M, value, is_scalar):
    """(kind, leaves) of a value returned by desper.math; None when it is not a math value."""
    if is_scalar(value):
        return 's', [value]
    t = type(value)
    for kind, cls in (('v2', M.Vec2), ('v3', M.Vec3), ('v4', M.Vec4), ('m3', M.Mat3), ('m4', M.Mat4)):
        if t is cls:
            if len(value) != KIND_LEN[kind] or not all(is_scalar(x) for x in value):
                return None
            return kind, list(value)
    if t is tuple and len(value) in (3, 4) and all(is_scalar(x) for x in value):
        return f't{len(value)}', list(value)
    return None


def _table():
    T = OrderedDict()

    def add(name, params, fn, tr=False, named=True):
        assert name not in T
        T[name] = Entry(name, params, fn, tr, named)

    add('clamp', [('num', 's'), ('min_val', 's'), ('max_val', 's')],
        lambda M, a, b, c: M.clamp(a, b, c))
    for n in (2, 3, 4):
        V, k = f'Vec{n}', f'v{n}'
        cls = (lambda M, V=V: getattr(M, V))
        add(f'{V}.new0', [], lambda M, cls=cls: cls(M)())
        for f in VEC_FIELDS[:n]:
            add(f'{V}.prop_{f}', [('self', k)], lambda M, v, f=f: getattr(v, f))
        add(f'{V}.add', [('self', k), ('other', k)], lambda M, a, b: a + b)
        add(f'{V}.sub', [('self', k), ('other', k)], lambda M, a, b: a - b)
        add(f'{V}.mul', [('self', k), ('other', k)], lambda M, a, b: a * b)
        add(f'{V}.truediv', [('self', k), ('other', k)], lambda M, a, b: a / b)
        add(f'{V}.abs', [('self', k)], lambda M, a: abs(a), tr=True)
        add(f'{V}.neg', [('self', k)], lambda M, a: -a)
        add(f'{V}.radd', [('self', k), ('other', k)], lambda M, a, b: a.__radd__(b))
        add(f'{V}.radd0', [('self', k)], lambda M, a: 0 + a)
        add(f'{V}.sum3', [('a', k), ('b', k), ('c', k)], lambda M, a, b, c: sum([a, b, c]))
        if n < 4:
            add(f'{V}.mag', [('self', k)], lambda M, a: a.mag, tr=True)
            add(f'{V}.from_magnitude', [('self', k), ('magnitude', 's')],
                lambda M, a, m: a.from_magnitude(m), tr=True)
            add(f'{V}.limit', [('self', k), ('max_', 's')], lambda M, a, m: a.limit(m), tr=True)
        if n == 2:
            add('Vec2.heading', [('self', k)], lambda M, a: a.heading, tr=True)
            add('Vec2.from_polar', [('mag', 's'), ('angle', 's')],
                lambda M, m, a: M.Vec2.from_polar(m, a), tr=True)
            add('Vec2.from_heading', [('self', k), ('heading', 's')],
                lambda M, a, h: a.from_heading(h), tr=True)
            add('Vec2.rotate', [('self', k), ('angle', 's')], lambda M, a, h: a.rotate(h), tr=True)
        if n == 3:
            add('Vec3.cross', [('self', k), ('other', k)], lambda M, a, b: a.cross(b))
        add(f'{V}.lerp', [('self', k), ('other', k), ('alpha', 's')], lambda M, a, b, t: a.lerp(b, t))
        add(f'{V}.scale', [('self', k), ('value', 's')], lambda M, a, s: a.scale(s))
        add(f'{V}.distance', [('self', k), ('other', k)], lambda M, a, b: a.distance(b), tr=True)
        add(f'{V}.normalize', [('self', k)], lambda M, a: a.normalize(), tr=True)
        add(f'{V}.clamp', [('self', k), ('min_val', 's'), ('max_val', 's')],
            lambda M, a, lo, hi: a.clamp(lo, hi))
        add(f'{V}.dot', [('self', k), ('other', k)], lambda M, a, b: a.dot(b))

    # ---- Mat3 (desper/math.py:625-723)
    add('Mat3.new0', [], lambda M: M.Mat3())
    add('Mat3.scale', [('self', 'm3'), ('sx', 's'), ('sy', 's')], lambda M, a, x, y: a.scale(x, y),
        named=False)
    add('Mat3.translate', [('self', 'm3'), ('tx', 's'), ('ty', 's')],
        lambda M, a, x, y: a.translate(x, y), named=False)
    add('Mat3.rotate', [('self', 'm3'), ('phi', 's')], lambda M, a, p: a.rotate(p), tr=True,
        named=False)
    add('Mat3.shear', [('self', 'm3'), ('sx', 's'), ('sy', 's')], lambda M, a, x, y: a.shear(x, y),
        named=False)
    add('Mat3.add', [('self', 'm3'), ('other', 'm3')], lambda M, a, b: a + b)
    add('Mat3.sub', [('self', 'm3'), ('other', 'm3')], lambda M, a, b: a - b)
    add('Mat3.pos', [('self', 'm3')], lambda M, a: +a)
    add('Mat3.neg', [('self', 'm3')], lambda M, a: -a)
    add('Mat3.matmul', [('self', 'm3'), ('other', 'm3')], lambda M, a, b: a @ b)
    add('Mat3.matvec', [('self', 'm3'), ('other', 'v3')], lambda M, a, v: a @ v)

    # "with the default matrix as identity": the products with the default-constructed matrix
    add('Mat3.identity_left', [('other', 'm3')], lambda M, b: M.Mat3() @ b)
    add('Mat3.identity_right', [('self', 'm3')], lambda M, a: a @ M.Mat3())
    add('Mat3.identity_vec', [('other', 'v3')], lambda M, v: M.Mat3() @ v)

    # ---- Mat4 (desper/math.py:726-1039)
    add('Mat4.new0', [], lambda M: M.Mat4())
    six = [('left', 's'), ('right', 's'), ('bottom', 's'), ('top', 's'), ('z_near', 's'),
           ('z_far', 's')]
    add('Mat4.orthogonal_projection', six,
        lambda M, *a: M.Mat4.orthogonal_projection(*a))
    add('Mat4.perspective_projection', six + [('fov', 's')],
        lambda M, *a: M.Mat4.perspective_projection(*a), tr=True, named=False)
    add('Mat4.perspective_projection_default_fov', six,
        lambda M, *a: M.Mat4.perspective_projection(*a), tr=True, named=False)
    add('Mat4.from_translation', [('vector', 'v3')], lambda M, v: M.Mat4.from_translation(v))
    add('Mat4.from_rotation', [('angle', 's'), ('vector', 'v3')],
        lambda M, a, v: M.Mat4.from_rotation(a, v), tr=True, named=False)
    add('Mat4.from_scale', [('vector', 'v3')], lambda M, v: M.Mat4.from_scale(v))
    add('Mat4.look_at_direction', [('direction', 'v3'), ('up', 'v3')],
        lambda M, d, u: M.Mat4.look_at_direction(d, u), tr=True, named=False)
    add('Mat4.look_at', [('position', 'v3'), ('target', 'v3'), ('up', 'v3')],
        lambda M, p, t, u: M.Mat4.look_at(p, t, u), tr=True, named=False)
    for i in range(4):
        add(f'Mat4.row_{i}', [('self', 'm4')], lambda M, a, i=i: a.row(i), named=False)
        add(f'Mat4.column_{i}', [('self', 'm4')], lambda M, a, i=i: a.column(i), named=False)
    add('Mat4.scale', [('self', 'm4'), ('vector', 'v3')], lambda M, a, v: a.scale(v), named=False)
    add('Mat4.translate', [('self', 'm4'), ('vector', 'v3')], lambda M, a, v: a.translate(v))
    add('Mat4.rotate', [('self', 'm4'), ('angle', 's'), ('vector', 'v3')],
        lambda M, a, t, v: a.rotate(t, v), tr=True, named=False)
    add('Mat4.transpose', [('self', 'm4')], lambda M, a: a.transpose())
    add('Mat4.add', [('self', 'm4'), ('other', 'm4')], lambda M, a, b: a + b)
    add('Mat4.sub', [('self', 'm4'), ('other', 'm4')], lambda M, a, b: a - b)
    add('Mat4.pos', [('self', 'm4')], lambda M, a: +a)
    add('Mat4.neg', [('self', 'm4')], lambda M, a: -a)
    add('Mat4.invert', [('self', 'm4')], lambda M, a: ~a)
    add('Mat4.matmul', [('self', 'm4'), ('other', 'm4')], lambda M, a, b: a @ b)
    add('Mat4.matvec', [('self', 'm4'), ('other', 'v4')], lambda M, a, v: a @ v)
    add('Mat4.identity_left', [('other', 'm4')], lambda M, b: M.Mat4() @ b)
    add('Mat4.identity_right', [('self', 'm4')], lambda M, a: a @ M.Mat4())
    add('Mat4.identity_vec', [('other', 'v4')], lambda M, v: M.Mat4() @ v)
    return T


API = _table()

# public members that are deliberately not translated (none is named by the property)
NOT_TRANSLATED = {
    'Vec2/Vec3/Vec4/Mat3/Mat4.__round__': 'round() is not a field operation',
    'Vec2/Vec3/Vec4/Mat3/Mat4.__repr__': 'string formatting',
    'Mat3/Mat4.__mul__': 'raises NotImplementedError by design',
}

SWIZZLE_CLASSES = ['Vec2', 'Vec3', 'Vec4']
SWIZZLE_LETTERS = 'xyzw' + 'aX'      # the component letters plus two foreign ones
SWIZZLE_MAXLEN = 5


def swizzle_universe():
    """All attribute strings of length 0..5 over the letters (9331 strings)."""
    out = ['']
    layer = ['']
    for _ in range(SWIZZLE_MAXLEN):
        layer = [s + c for s in layer for c in SWIZZLE_LETTERS]
        out += layer
    return out


# ---- the stand-in interpretation of the transcendental functions, used ONLY to execute the
# translated definitions exactly (translator validation): rational functions, the same ones as
# in the prelude of lean/DesperModel/MathExec.lean.  The translator treats sqrt/sin/... as
# uninterpreted symbols, so agreement under one interpretation checks the traced structure.
class StandIn:
    """Replacement for desper.math._math over exact rationals (any ring with / and *)."""
    def __init__(self, mk):
        self.mk = mk
        self.pi = mk(22) / mk(7)

    def sqrt(self, x):
        x = self.mk(x)
        return x * (x + 3) / 4

    def sin(self, x):
        x = self.mk(x)
        return 2 * x / (1 + x * x)

    def cos(self, x):
        x = self.mk(x)
        return (1 - x * x) / (1 + x * x)

    def tan(self, x):
        x = self.mk(x)
        return x / 3 + x * x

    def atan2(self, y, x):
        x, y = self.mk(x), self.mk(y)
        return (y - 2 * x) / 3 + y * x

    def radians(self, x):
        return self.mk(x) * (self.pi / 180)



def install_shims(M, math_shim=None, warn_shim=None):
    """Replace, in module M, every global that refers to the `math` module, to one of its functions or
    constants, to the `warnings` module or to `warnings.warn` — whatever names the source uses for them —
    by the corresponding attribute of the shims.  Returns a function that restores the originals."""
    import math
    import warnings
    saved = {}
    for k, v in list(vars(M).items()):
        new = None
        if math_shim is not None:
            if v is math:
                new = math_shim
            elif v is math.pi and k != 'pi_' and not k.startswith('__'):
                new = getattr(math_shim, 'pi')
            elif callable(v) and getattr(v, '__module__', None) == 'math' and \
                    getattr(math, getattr(v, '__name__', ''), None) is v:
                new = getattr(math_shim, v.__name__)
        if new is None and warn_shim is not None:
            if v is warnings:
                new = warn_shim
            elif v is warnings.warn:
                new = warn_shim.warn
        if new is not None:
            saved[k] = v
            setattr(M, k, new)

    def restore():
        for k, v in saved.items():
            setattr(M, k, v)
    return restore
