"""Executable statement of the resource-tree properties (C11, C12, C17) — the *oracle*.

Written from the property texts, independent of desper and of the Lean model.  It is an abstract
interpreter over plain Python objects:

  * a map is a dictionary name -> sub-map plus a stack of *scopes* name -> handle (the top scope is
    the visible one; a handle in a lower scope is "shadowed but retrievable", C16's wording).  Under
    one map a name denotes either a handle or a sub-map, the latest assignment wins (C11);
  * a handle is a flag and a load counter: an access loads iff the flag is unset (C12);
  * a snapshot is a deep copy of the visible structure that shares the handles (C17).

It does not reproduce the implementation's stream.  It walks the implementation's observations
and checks each against what the property text requires; fields the properties leave open
(`.parent`/`.key` of objects that are no longer reachable, or that were inserted more than once)
are not looked at.  Every violation carries a clause specific signature.
"""

MAX_DEPTH = 4


class AMap:
    aparent = None            # the map this object was last stored in (None: stored nowhere / detached)

    def __init__(self, label=None, implicit=False):
        self.label = label
        self.subs = {}
        self.scopes = [{}]
        self.inserted = 1 if implicit else 0

    def visible(self, k):
        for s in self.scopes:
            if k in s:
                return s[k]
        return None


class AHandle:
    aparent = None
    on_load = None            # the loader's own code (a script that may use the tree), run while loading

    def __init__(self, label, fails=()):
        self.label = label
        self.loads = 0            # loads that returned
        self.tries = 0            # invocations of the loader
        self.fails = set(fails)   # the invocations that raise
        self.cached = False
        self.inserted = 0

    def access(self):
        """an access loads iff nothing is cached; a load that raises caches nothing (the next access loads
        again) and its exception leaves the access"""
        if not self.cached:
            self.tries += 1
            if self.tries in self.fails:
                return 'raised LoadError'
            if self.on_load is not None:
                self.on_load()
            # whatever the loader did meanwhile (clearing this very handle included), what it returns is
            # what the handle now holds
            self.loads += 1
            self.cached = True
        return f'val {self.label} {self.loads}'


class ASnap:
    def __init__(self):
        self.handles = {}
        self.subs = {}


class Stop(Exception):
    pass


def comps(tok):
    return tok[1:].split('/')


def reserved(k):
    return k in ('get', '_handle_names') or (k.startswith('__') and k.endswith('__'))


def key_field(s):
    """'key=:x' -> 'x' ; 'key=None' -> None"""
    v = s.split('=', 1)[1]
    return None if v == 'None' else v[1:]


class Spec:
    def __init__(self, lines, obs, pid):
        self.pid = pid
        self.lines = lines
        self.obs = list(obs)
        self.pos = 0
        self.menv = {}
        self.hs = {}
        self.mdecl = []
        self.senv = {}
        self.bind = {}            # id(AMap) -> implementation's name of an anonymous map
        self.rev = {}
        self.detached = {}        # id(obj) -> (obj, 'm0 cleared') : must show parent None / key None
        self.last_mut = ''
        self.violations = []
        # scripted user code (property setters of user subclasses, loaders that use the tree)
        self.reactions, self.fired = {}, {}
        for ln in lines:
            t = ln.split()
            if t[:1] == ['react']:
                ops, cur = [], []
                for tok in t[5:] + [';']:
                    if tok == ';':
                        if cur:
                            ops.append(cur)
                        cur = []
                    else:
                        cur.append(tok)
                self.reactions[(t[1], t[2], int(t[3]))] = ops
        self.alphabet = sorted({c for ln in lines for t in ln.split() if t.startswith(':')
                                for c in comps(t)})

    # ----- plumbing
    def next(self):
        if self.pos >= len(self.obs):
            self.fail('C11:stream', 'observation stream ended early')
        o = self.obs[self.pos]
        self.pos += 1
        return o

    def fail(self, sig, what):
        """record a violation of the property under check and stop; a disagreement that belongs
        to one of the other two properties is left to that property's check"""
        if sig.endswith(':stream'):
            sig = self.pid + ':stream'
        if sig.split(':')[0] == self.pid:
            self.violations.append({'sig': sig, 'what': what})
            raise Stop()

    def expect(self, want, sig, ctx):
        got = self.next()
        if got != want:
            self.fail(sig, f'{ctx}: required `{want}`, implementation gave `{got}`')

    def expect_access(self, got, want, ln, through):
        """an access that must hand out `want` (= `<tag> val h<k> <load>`): classify the disagreement"""
        if got == want:
            return
        g, w = got.split(), want.split()
        if w[-2:] == ['raised', 'LoadError']:
            sig = 'C12:failed-load-swallowed'
            what = 'nothing is cached, so the access must load, and the exception of the loader must leave it'
        elif g[-2:] == ['raised', 'LoadError']:
            sig = 'C12:loaded-again-without-clear'
            what = 'load() was invoked although a loaded resource is cached'
        elif g[-2:-1] == ['val'] and g[-1] in ('None', 'foreign'):
            sig = 'C12:not-the-loaded-object'
            what = 'the access returned something no load produced'
        elif 'raised' in g or g[0] == 'op-raised':
            sig = 'C12:access-raised'
            what = 'the access must return the cached resource without inspecting it'
        elif g[:-1] == w[:-1] and g[-1].isdigit() and w[-1].isdigit() and int(g[-1]) > int(w[-1]):
            sig = 'C12:loaded-again-without-clear'
            what = (f'load() ran again: the object of load #{g[-1]} was returned, the cached object of load '
                    f'#{w[-1]} is required')
        elif g[:-1] == w[:-1]:
            sig = 'C12:not-the-loaded-object'
            what = 'the returned object is not the one the current load produced'
        else:
            sig = through
            what = 'wrong resource'
        self.fail(sig, f'{ln}: {what}: required `{want}`, implementation gave `{got}`')

    def same_map(self, amap, name):
        """does the implementation's name denote the abstract map object?"""
        if amap is None:
            return name == 'None'
        if amap.label is not None:
            return name == amap.label
        if id(amap) in self.bind:
            return self.bind[id(amap)] == name
        if name in self.rev or not name.startswith('a'):
            return False
        self.bind[id(amap)] = name
        self.rev[name] = amap
        return True

    def name_of(self, amap):
        if amap.label is not None:
            return amap.label
        return self.bind.get(id(amap), '<new anonymous map>')

    # ----- the abstract operations
    def resolve(self, m, ks):
        """the node a '/'-composed key denotes: (kind, obj) or None"""
        cur = m
        for k in ks[:-1]:
            cur = cur.subs.get(k)
            if cur is None:
                return None
        h = cur.visible(ks[-1])
        if h is not None:
            return ('handle', h)
        if ks[-1] in cur.subs:
            return ('map', cur.subs[ks[-1]])
        return None

    # ----- scripted user code
    def fire(self, hook, label):
        if label is None:
            return
        k = self.fired.get((hook, label), 0)
        self.fired[(hook, label)] = k + 1
        for t in self.reactions.get((hook, label, k), ()):
            self.silent(t)

    def silent(self, t):
        """one operation of a script: its result is dropped"""
        kind = t[0]
        if kind == 'set':
            v = self.hs.get(t[3]) or self.menv.get(t[3])
            if t[1] in self.menv and v is not None:
                self.assign(self.menv[t[1]], comps(t[2]), v)
        elif kind == 'clear' and t[1] in self.menv:
            self.clear(self.menv[t[1]], t[1])
        elif kind in ('getitem', 'chain') and t[1] in self.menv:
            ks = comps(t[2])
            if kind == 'getitem':
                r = self.resolve(self.menv[t[1]], ks)
                if r is not None and r[0] == 'handle':
                    r[1].access()
            else:
                cur = self.menv[t[1]]
                for k in ks:
                    h = cur.visible(k)
                    if h is not None:
                        h.access()
                        break
                    if k not in cur.subs:
                        break
                    cur = cur.subs[k]
        elif kind == 'call':
            self.hs[t[1]].access()
        elif kind == 'hclear':
            self.hs[t[1]].cached = False

    def give_up(self):
        """user code changed a dictionary while the library was iterating over it: what must happen then is not
        said by the property; the rest of this history is not judged"""
        raise Stop()

    def assign(self, m, ks, v):
        cur = m
        for k in ks[:-1]:
            if k not in cur.subs:
                for s in cur.scopes:        # the name now denotes a map: no handle of that name
                    s.pop(k, None)
                cur.subs[k] = AMap(implicit=True)
                cur.subs[k].aparent = cur
            cur = cur.subs[k]
        last = ks[-1]
        if isinstance(v, AMap):
            for s in cur.scopes:
                s.pop(last, None)
            cur.subs[last] = v
        else:
            cur.subs.pop(last, None)
            cur.scopes[0][last] = v
        v.inserted += 1
        v.aparent = cur
        self.detached.pop(id(v), None)
        # the object is told where it is now: a user subclass may run its own code at that moment
        self.fire('parent', v.label)
        self.fire('key', v.label)
        # user code may have cleared the map in between: the assignment then went on writing the back-link of an
        # object that is stored nowhere, which no clause constrains
        self.detached.pop(id(v), None)

    def detach(self, m, child, label):
        self.detached[id(child)] = (child, label)
        if child.aparent is m:
            child.aparent = None
            self.fire('parent', child.label)
            self.fire('key', child.label)

    def clear(self, m, label):
        """every direct child - those that user code adds while the map is being cleared included - is detached
        (and told so), then the map is empty"""
        li = 0
        while li < len(m.scopes):
            scope, n0, idx = m.scopes[li], len(m.scopes[li]), 0
            while True:
                if len(scope) != n0:
                    self.give_up()
                vals = list(scope.values())
                if idx >= len(vals):
                    break
                self.detach(m, vals[idx], label)
                idx += 1
            li += 1
        n0, idx = len(m.subs), 0
        while True:
            if len(m.subs) != n0:
                self.give_up()
            vals = list(m.subs.values())
            if idx >= len(vals):
                break
            self.detach(m, vals[idx], label)
            idx += 1
        # emptied in place: a clear() that is still running one level up must notice
        m.subs.clear()
        del m.scopes[1:]
        m.scopes[0].clear()

    def cyclic(self, m, seen=()):
        if any(m is x for x in seen):
            return True
        return any(self.cyclic(c, seen + (m,)) for c in m.subs.values())

    def snapshot(self, m):
        s = ASnap()
        for scope in reversed(m.scopes):
            s.handles.update(scope)
        for k, c in m.subs.items():
            s.subs[k] = self.snapshot(c)
        return s

    # ----- checks of composite observations
    def read_block(self, end):
        block = []
        while True:
            o = self.next()
            if o == end:
                return block
            block.append(o)

    def check_dump(self, root, rootname):
        block = self.read_block('end-dump')
        if self.pid != 'C11':
            return
        imaps, ihnd = {}, {}
        for o in block:
            t = o.split()
            if t[0] == 'map':
                path = tuple(comps(t[1])) if t[1] != '-' else ()
                imaps[path] = (t[2], t[3].split('=', 1)[1], key_field(t[4]))
            elif t[0] == 'hnd':
                path = tuple(comps(t[1])) if t[1] != '-' else ()
                ihnd.setdefault(path, {}).setdefault(int(t[2]), {})[t[3][1:]] = (
                    t[4], t[5].split('=', 1)[1], key_field(t[6]))
            else:
                self.fail('C11:stream', f'unexpected line in dump: {o}')
        ctx = f'dump of {rootname} after `{self.last_mut}`'
        after_clear = self.last_mut.startswith('clear')
        # one kind per name (a predicate on the implementation's tree alone)
        for path, layers in ihnd.items():
            for li, layer in layers.items():
                for k in layer:
                    if path + (k,) in imaps:
                        self.fail('C11:one-kind', f'{ctx}: under {":" + "/".join(path) if path else "the root"} the '
                                  f'name {k!r} is both a handle (layer {li}: {layer[k][0]}) and a sub-map')
        # structure: what is reachable, and which object
        amaps = {}

        def walk(m, path):
            if len(path) > MAX_DEPTH:
                return
            amaps[path] = m
            for k in sorted(m.subs):
                walk(m.subs[k], path + (k,))
        walk(root, ())
        struct_sig = ('C11:clear-not-empty' if after_clear else
                      'C11:rejected-assignment-changed-the-tree' if self.last_mut.startswith('rejected') else
                      'C11:structure')
        for path in sorted(set(imaps) | set(amaps)):
            p = ':' + '/'.join(path) if path else 'the root'
            if path not in imaps:
                self.fail(struct_sig, f'{ctx}: a sub-map is required at {p}, the implementation has none')
            if path not in amaps:
                self.fail(struct_sig, f'{ctx}: nothing (or no map) is allowed at {p}, the implementation '
                          f'has the map {imaps[path][0]}')
        for path in sorted(amaps):
            m = amaps[path]
            p = ':' + '/'.join(path) if path else 'the root'
            name, par, key = imaps[path]
            if not self.same_map(m, name):
                self.fail(struct_sig, f'{ctx}: {p} must be the map {self.name_of(m)}, the implementation has {name}')
            want = [dict((k, h.label) for k, h in s.items()) for s in m.scopes if s]
            layers = ihnd.get(path, {})
            got = [dict((k, v[0]) for k, v in layers[li].items()) for li in sorted(layers)]
            if want != got:
                sig = struct_sig
                if struct_sig == 'C11:structure' and [w for w in want[:1]] == [g for g in got[:1]]:
                    sig = 'C11:shadowed-handles'
                self.fail(sig, f'{ctx}: handles of {p} (visible scope first) must be {want}, the '
                          f'implementation has {got}')
        # back-links of everything reachable
        for path in sorted(amaps):
            m = amaps[path]
            name, par, key = imaps[path]
            p = ':' + '/'.join(path) if path else 'the root'
            if path and m.inserted <= 1:
                container = imaps[path[:-1]][0]
                if par != container or key != path[-1]:
                    sig = 'C11:backlink-implicit-map' if m.label is None else 'C11:backlink-map'
                    self.fail(sig, f'{ctx}: the map {name} at {p} must record parent={container} '
                              f'key={path[-1]!r}, it records parent={par} key={key!r}')
            for li, layer in sorted(ihnd.get(path, {}).items()):
                for k, (hname, hpar, hkey) in sorted(layer.items()):
                    h = self.hs.get(hname)
                    if h is not None and h.inserted <= 1 and (hpar != name or hkey != k):
                        self.fail('C11:backlink-handle', f'{ctx}: the handle {hname} stored under {k!r} in '
                                  f'{name} (layer {li}) must record parent={name} key={k!r}, it records '
                                  f'parent={hpar} key={hkey!r}')

    def check_links(self):
        block = self.read_block('end-links')
        if self.pid != 'C11':
            return
        for o in block:
            t = o.split()
            obj = self.hs.get(t[1]) or self.menv.get(t[1]) or self.rev.get(t[1])
            par, key = t[2].split('=', 1)[1], key_field(t[3])
            # an anonymous map met through the back-link of something stored in it gets its name here
            if obj is not None and obj.inserted <= 1 and isinstance(obj.aparent, AMap) \
                    and obj.aparent.label is None and par.startswith('a'):
                self.same_map(obj.aparent, par)
            if obj is not None and id(obj) in self.detached and obj.inserted <= 1:
                if par != 'None' or key is not None:
                    self.fail('C11:clear-not-detached', f'{t[1]} was a direct child of {self.detached[id(obj)][1]}: '
                              f'it must record parent=None key=None, it records parent={par} key={key!r}')

    def check_sdump(self, s, name):
        block = self.read_block('end-sdump')
        if self.pid != 'C17':
            return
        want = []

        def walk(sn, path):
            if len(path) >= MAX_DEPTH:
                return
            for k in self.alphabet:
                if reserved(k):
                    continue
                p = ':' + '/'.join(path + [k])
                if k in sn.handles:
                    want.append(f'snode {p} handle {sn.handles[k].label}')
                elif k in sn.subs:
                    want.append(f'snode {p} smap')
                    walk(sn.subs[k], path + [k])
        walk(s, [])
        if want != block:
            k = next((i for i, (a, b) in enumerate(zip(want, block)) if a != b), min(len(want), len(block)))
            w = want[k] if k < len(want) else '<nothing more>'
            g = block[k] if k < len(block) else '<nothing more>'
            sig = 'C17:mirror-get' if k < len(want) and k < len(block) and w.split()[1] == g.split()[1] \
                else 'C17:absent-names'
            self.fail(sig, f'content of snapshot {name} (probed with get): required `{w}`, implementation gave `{g}`')

    def chain(self, start, ks, step):
        """one access per component; returns the required observation suffix"""
        cur = start
        for n, k in enumerate(ks):
            r = step(cur, k)
            if r is None:
                return 'raised'
            kind, obj = r
            if kind == 'handle':
                v = obj.access()
                return v if n == len(ks) - 1 or v.startswith('raised') else 'stuck'
            cur = obj
        return cur

    # ----- one scenario line
    def line(self, ln):
        t = ln.split()
        if not t:
            return
        if t[0] == 'newmap':
            self.menv[t[1]] = AMap(t[1])
            self.mdecl.append(t[1])
            return
        if t[0] == 'newhandle':
            fails = [int(x) for tok in t[3:] if tok.startswith('fail=') for x in tok[5:].split(',') if x]
            self.hs[t[1]] = AHandle(t[1], fails)
            self.hs[t[1]].on_load = lambda label=t[1]: self.fire('load', label)
            return
        if t[0] == 'react':
            return
        t = t[1:]
        kind = t[0]
        if kind == 'snap' and t[2] not in self.menv:
            return self.expect('unbound', 'C11:stream', ln)
        if kind in ('set', 'setkey', 'layer', 'clear', 'dump', 'getitem', 'get', 'chain') and t[1] not in self.menv:
            return self.expect('unbound', 'C11:stream', ln)
        if kind in ('sdump', 'sgetitem', 'sgetattr', 'sget', 'ssetattr', 'sdelattr') and t[1] not in self.senv:
            return self.expect('sunbound', 'C17:stream', ln)
        if kind == 'bind' and t[2] not in self.menv:
            return self.expect('unbound', 'C11:stream', ln)
        if kind == 'bind':
            r = self.resolve(self.menv[t[2]], comps(t[3]))
            got = self.next()
            if r is not None and r[0] == 'map':
                if not (got.startswith('bound ') and self.same_map(r[1], got.split()[1])):
                    self.fail('C11:get', f'{ln}: get must return the map {self.name_of(r[1])}, got `{got}`')
                self.menv[t[1]] = r[1]
            elif got != 'bound none':
                self.fail('C11:get', f'{ln}: get must not return a map, got `{got}`')
        elif kind == 'setkey' or kind == 'set' and t[3][0] == 'x':
            # a key that is not a string, a value that is neither a map nor a handle: the assignment must be
            # refused (the exception class is left open) and must not have changed anything
            if kind == 'setkey' and (self.hs.get(t[3]) or self.menv.get(t[3])) is None:
                return self.expect('unbound', 'C11:stream', ln)
            got = self.next()
            if not got.startswith('res raised '):
                self.fail('C11:non-resource-accepted', f'{ln}: the assignment must be refused, implementation '
                          f'gave `{got}`')
            self.last_mut = 'rejected ' + ' '.join(t)
        elif kind == 'set':
            v = self.hs.get(t[3]) or self.menv.get(t[3])
            if v is None:
                return self.expect('unbound', 'C11:stream', ln)
            self.expect('res ok', 'C11:setitem-raised', ln)
            self.assign(self.menv[t[1]], comps(t[2]), v)
            self.last_mut = ' '.join(t)
        elif kind == 'layer':
            self.expect('res ok', 'C11:stream', ln)
            self.menv[t[1]].scopes.insert(0, {})
            self.last_mut = ' '.join(t)
        elif kind == 'clear':
            self.clear(self.menv[t[1]], t[1])      # (gives up if user code changes a dictionary under iteration)
            self.expect('res ok', 'C11:clear-raised', ln)
            self.last_mut = ' '.join(t)
        elif kind == 'dump':
            self.check_dump(self.menv[t[1]], t[1])
        elif kind == 'links':
            self.check_links()
        elif kind == 'call':
            self.expect_access(self.next(), self.hs[t[1]].access(), ln, 'C12:call')
        elif kind == 'hclear':
            self.expect('res ok', 'C12:clear-raised', ln)
            self.hs[t[1]].cached = False
        elif kind == 'cached':
            got = self.next()
            want = f'cached {t[1]} {int(self.hs[t[1]].cached)}'
            if got != want:
                sig = 'C12:cached-raised' if 'raised' in got else 'C12:cached'
                self.fail(sig, f'{ln}: required `{want}`, implementation gave `{got}`')
        elif kind == 'stat':
            h = self.hs[t[1]]
            got = self.next()
            want = f'stat {t[1]} loads={h.loads} tries={h.tries} cached={int(h.cached)}'
            if got != want:
                sig = ('C12:cached-raised' if 'raised' in got else
                       'C12:load-count' if got.split()[2:4] != want.split()[2:4] else 'C12:cached')
                self.fail(sig, f'{ln}: required `{want}`, implementation gave `{got}`')
        elif kind == 'get':
            r = self.resolve(self.menv[t[1]], comps(t[2]))
            got = self.next()
            if r is None:
                ok = got == 'got default'
                want = 'got default'
            elif r[0] == 'handle':
                want = f'got handle {r[1].label}'
                ok = got == want
            else:
                want = f'got map {self.name_of(r[1])}'
                ok = got.startswith('got map ') and self.same_map(r[1], got.split()[2])
            if not ok:
                self.fail('C11:get', f'{ln}: required `{want}`, implementation gave `{got}`')
        elif kind == 'getitem':
            r = self.resolve(self.menv[t[1]], comps(t[2]))
            got = self.next()
            if r is None:
                want, ok = 'item raised KeyError', got == 'item raised KeyError'
            elif r[0] == 'handle':
                want = 'item ' + r[1].access()
                ok = got == want
            else:
                want = f'item map {self.name_of(r[1])}'
                ok = got.startswith('item map ') and self.same_map(r[1], got.split()[2])
            if not ok:
                if want == 'item raised LoadError' or want.startswith('item val') and (
                        got.startswith('item val') and got.split()[2] == want.split()[2]
                        or 'raised' in got and got != 'item raised KeyError'):
                    self.expect_access(got, want, ln, 'C12:access-through-map')
                    if got.startswith('item val') or got == 'item raised LoadError':
                        return          # which load produced the value is C12's observable, not C11's
                self.fail('C11:getitem', f'{ln}: required `{want}`, implementation gave `{got}`')
        elif kind == 'chain':
            def step(m, k):
                h = m.visible(k)
                if h is not None:
                    return ('handle', h)
                return ('map', m.subs[k]) if k in m.subs else None
            r = self.chain(self.menv[t[1]], comps(t[2]), step)
            got = self.next()
            if r == 'raised':
                want, ok = 'item raised KeyError', got == 'item raised KeyError'
            elif isinstance(r, AMap):
                want = f'item map {self.name_of(r)}'
                ok = got.startswith('item map ') and self.same_map(r, got.split()[2])
            else:
                want = 'item ' + r
                ok = got == want
            if not ok:
                if want == 'item raised LoadError' or want.startswith('item val') and (
                        got.startswith('item val') and got.split()[2] == want.split()[2]
                        or 'raised' in got and got != 'item raised KeyError'):
                    self.expect_access(got, want, ln, 'C12:access-through-map')
                    if got.startswith('item val') or got == 'item raised LoadError':
                        return          # which load produced the value is C12's observable, not C11's
                if want == 'item stuck' and got == 'item raised LoadError':
                    self.fail('C12:loaded-again-without-clear', f'{ln}: the intermediate handle is cached, '
                              f'load() must not run: required `{want}`, implementation gave `{got}`')
                    return
                if want == 'item stuck' and 'raised' in got and got != 'item raised KeyError':
                    # the intermediate handle had to be loaded and returned: its access raised
                    self.fail('C12:access-raised', f'{ln}: loading the intermediate handle must not inspect the '
                              f'resource: required `{want}`, implementation gave `{got}`')
                self.fail('C11:path-equivalence', f'{ln}: required `{want}`, implementation gave `{got}`')
        elif kind == 'snap':
            m = self.menv[t[2]]
            got = self.next()
            if self.cyclic(m):
                if got == 'sres ok':
                    self.fail('C17:stream', f'{ln}: a cyclic tree has no finite snapshot')
                return
            if got != 'sres ok':
                self.fail('C17:snapshot-failed', f'{ln}: get_static_map() must return a snapshot, '
                          f'implementation gave `{got}`')
                return
            self.senv[t[1]] = self.snapshot(m)
        elif kind == 'sdump':
            self.check_sdump(self.senv[t[1]], t[1])
        elif kind in ('sgetitem', 'sgetattr', 'sget', 'ssetattr', 'sdelattr'):
            ks = comps(t[2])
            if any(reserved(k) for k in ks):
                return self.expect('unmodelled', 'C17:stream', ln)
            s = self.senv[t[1]]
            got = self.next()
            if kind in ('sgetitem', 'sgetattr'):
                def step(sn, k):
                    if k in sn.handles:
                        return ('handle', sn.handles[k])
                    return ('smap', sn.subs[k]) if k in sn.subs else None
                r = self.chain(s, ks, step)
                if r == 'raised':
                    want, ok = 'sitem raised <some exception>', \
                        got.startswith('sitem raised ') and got != 'sitem raised LoadError'
                    sig = 'C17:absent-names'
                elif isinstance(r, ASnap):
                    want, ok, sig = 'sitem smap', got == 'sitem smap', 'C17:mirror-item'
                else:
                    want, sig = 'sitem ' + r, 'C17:mirror-item'
                    ok = got == want
                    if not ok and (want == 'sitem raised LoadError' or want.startswith('sitem val') and (
                            got.startswith('sitem val') and got.split()[2:3] == want.split()[2:3]
                            or got.startswith('sitem raised'))):
                        self.expect_access(got, want, ln, 'C12:access-through-static-map')
                if not ok:
                    self.fail(sig, f'{ln}: required `{want}`, implementation gave `{got}`')
            elif kind == 'sget':
                cur = s
                want = None
                for n, k in enumerate(ks):
                    if k in cur.handles:
                        want = f'sgot handle {cur.handles[k].label}' if n == len(ks) - 1 else 'sgot raised'
                        break
                    if k not in cur.subs:
                        want = 'sgot raised'
                        break
                    cur = cur.subs[k]
                if want is None:
                    want = 'sgot smap'
                ok = got.startswith('sgot raised ') if want == 'sgot raised' else got == want
                if not ok:
                    self.fail('C17:absent-names' if want == 'sgot raised' else 'C17:mirror-get',
                              f'{ln}: required `{want}`, implementation gave `{got}`')
            else:
                cur = s
                for k in ks[:-1]:
                    cur = cur.subs.get(k) if k not in cur.handles else None
                    if cur is None:
                        break
                if cur is None:
                    if got != 'sres nav-failed':
                        self.fail('C17:absent-names', f'{ln}: the owner of the attribute must not exist, got `{got}`')
                elif not got.startswith('sres raised '):
                    self.fail('C17:immutable', f'{ln}: setting or deleting an attribute of a snapshot must '
                              f'raise, implementation gave `{got}`')
        else:
            self.fail('C11:stream', f'unknown op {ln}')

    def run(self):
        try:
            for ln in self.lines:
                self.line(ln)
            if self.pos != len(self.obs):
                self.fail('C11:stream', f'{len(self.obs) - self.pos} unexpected trailing observations: '
                          f'{self.obs[self.pos:self.pos + 2]}')
        except Stop:
            pass
        return self.violations


def oracle_for(pid):
    """the first violation of property `pid` in one observation stream, as a list"""
    def oracle(lines, obs):
        return Spec(lines, obs, pid).run()
    return oracle
