"""Purity audit of desper/math.py (C18) - a translation obligation.

The tracing translator runs ONE call of a function on fresh symbolic arguments and takes the
trace for the function.  That is sound only for functions whose result depends on nothing but the
arguments: state that the module keeps between calls (a cache keyed by an earlier operand, a
reusable buffer, a memo table, a class attribute that is rebound, an attribute written on an
argument) is invisible to a single trace, and a nested call can clobber it half way.  This
module audits the SOURCE (ast) of every function of the file:

  * a *state object* is a module-level name, a class-level attribute, a mutable default argument
    or a closure cell that SOME FUNCTION of the module writes: rebinding (`global x; x = ..`,
    `Cls.attr = ..`, `cls.attr = ..`, `type(self).attr = ..`), item / attribute stores and
    `del` through the name or through a local alias of it (`buf = _BUFFER; buf[i] = ..`), calls of
    mutating methods (`append extend insert pop remove clear sort reverse update setdefault
    popitem add discard ...`) on it, `setattr` / `delattr`;
    a module-level object that no function ever writes is a constant (a lookup table built at
    import time is fine, also when it is filled by module-level statements);
  * a function is IMPURE when it writes a state object, reads one (by its name, as `Cls.attr`,
    `cls.attr`, `self.attr`), writes an attribute or an item of one of its ARGUMENTS, carries a
    decorator other than staticmethod / classmethod / property (memoising decorators keep state),
    declares `nonlocal`, or uses `globals() / vars() / setattr / delattr / exec / eval`.

Which functions an API entry reaches is not guessed from the text: the translator records the code
objects of desper/math.py that actually ran while the entry was traced (`sys.setprofile`).
"""
import ast

MUTATORS = {'append', 'extend', 'insert', 'pop', 'remove', 'clear', 'sort', 'reverse', 'update',
            'setdefault', 'popitem', 'add', 'discard', 'appendleft', 'popleft', 'extendleft',
            '__setitem__', '__delitem__', '__setattr__', '__delattr__', 'difference_update',
            'intersection_update', 'symmetric_difference_update', 'move_to_end'}
DYNAMIC = {'setattr', 'delattr', 'globals', 'vars', 'exec', 'eval', 'locals'}
PLAIN_DECORATORS = {'staticmethod', 'classmethod', 'property'}


class FnInfo:
    def __init__(self, qualname, node, cls):
        self.qualname, self.node, self.cls = qualname, node, cls
        self.lines = {node.lineno} | {d.lineno for d in node.decorator_list}
        self.writes = []        # (lineno, state key, how)
        self.reads = []         # (lineno, state key)  - filled in the second pass
        self.other = []         # (lineno, text): argument mutation, decorators, nonlocal, dynamic access
        self.params, self.locals, self.alias = [], set(), {}
        self.first_param = None


def _params(node):
    a = node.args
    return [x.arg for x in a.posonlyargs + a.args + a.kwonlyargs] + \
        ([a.vararg.arg] if a.vararg else []) + ([a.kwarg.arg] if a.kwarg else [])


def _own_nodes(fn_node):
    """Nodes of a function body, nested lambdas / comprehensions included, nested defs excluded."""
    stack = list(fn_node.body)
    while stack:
        n = stack.pop()
        yield n
        for c in ast.iter_child_nodes(n):
            if isinstance(c, (ast.FunctionDef, ast.AsyncFunctionDef, ast.ClassDef)):
                continue
            stack.append(c)


class Audit:
    def __init__(self, source, filename='<math.py>'):
        self.tree = ast.parse(source, filename)
        self.module_names, self.classes, self.functions = set(), {}, []
        self.class_methods = set()
        self._collect()
        for f in self.functions:
            self._writes(f)
        self.state = {k for f in self.functions for _, k, _ in f.writes}
        for f in self.functions:
            self._reads(f)

    # ------------------------------------------------------------------ collection
    def _collect(self):
        for n in self.tree.body:
            for t in self._bound(n):
                self.module_names.add(t)
        self._walk_defs(self.tree.body, '', None)

    @staticmethod
    def _bound(n):
        if isinstance(n, (ast.FunctionDef, ast.AsyncFunctionDef, ast.ClassDef)):
            return [n.name]
        if isinstance(n, (ast.Import, ast.ImportFrom)):
            return [(a.asname or a.name).split('.')[0] for a in n.names]
        out = []
        targets = n.targets if isinstance(n, ast.Assign) else \
            [n.target] if isinstance(n, (ast.AnnAssign, ast.AugAssign)) else []
        for t in targets:
            out += [x.id for x in ast.walk(t) if isinstance(x, ast.Name)]
        return out

    def _walk_defs(self, body, prefix, cls):
        for n in body:
            if isinstance(n, ast.ClassDef):
                attrs = set()
                for m in n.body:
                    if not isinstance(m, (ast.FunctionDef, ast.AsyncFunctionDef, ast.ClassDef)):
                        attrs.update(self._bound(m))
                    elif not isinstance(m, ast.ClassDef):
                        self.class_methods.add(m.name)
                self.classes[n.name] = attrs
                self._walk_defs(n.body, prefix + n.name + '.', n.name)
            elif isinstance(n, (ast.FunctionDef, ast.AsyncFunctionDef)):
                f = FnInfo(prefix + n.name, n, cls)
                self.functions.append(f)
                self._walk_defs(n.body, prefix + n.name + '.<locals>.', cls)
            elif isinstance(n, (ast.If, ast.Try, ast.With, ast.For, ast.While)):
                for part in ('body', 'orelse', 'finalbody', 'handlers'):
                    sub = getattr(n, part, [])
                    self._walk_defs([x for h in sub for x in (h.body if isinstance(h, ast.ExceptHandler) else [h])],
                                    prefix, cls)

    # ------------------------------------------------------------------ resolving an expression
    def _root(self, f, e):
        """State keys / argument names an expression designates (the object it evaluates to)."""
        if isinstance(e, ast.Name):
            if e.id in f.alias:
                return f.alias[e.id]
            if e.id in f.params:
                return {('arg', e.id)}
            if e.id in f.locals:
                return set()
            if e.id in self.module_names:
                return {('global', e.id)}
            return set()
        if isinstance(e, ast.Attribute):
            base = e.value
            if isinstance(base, ast.Name) and base.id in self.classes and base.id not in f.locals:
                return {('class', base.id, e.attr)}
            if self._is_class_expr(f, base):
                return {('class', f.cls or '?', e.attr)}
            if isinstance(base, ast.Name) and base.id == f.first_param and f.cls and \
                    e.attr in self.classes.get(f.cls, ()):
                return {('class', f.cls, e.attr)}      # class attribute seen through the instance
            return {k + ('.' + e.attr,) if k[0] == 'arg' else k for k in self._root(f, base)}
        if isinstance(e, ast.Subscript):
            return self._root(f, e.value)
        if isinstance(e, ast.NamedExpr):
            return self._root(f, e.value)
        return set()

    def _is_class_expr(self, f, e):
        """`cls` of a classmethod, `type(self)`, `self.__class__`."""
        if isinstance(e, ast.Name) and e.id == f.first_param and any(
                isinstance(d, ast.Name) and d.id == 'classmethod' for d in f.node.decorator_list):
            return True
        if isinstance(e, ast.Call) and isinstance(e.func, ast.Name) and e.func.id == 'type' and len(e.args) == 1:
            return True
        return isinstance(e, ast.Attribute) and e.attr == '__class__'

    # ------------------------------------------------------------------ first pass: writes
    def _writes(self, f):
        node = f.node
        f.params = _params(node)
        f.first_param = f.params[0] if f.params else None
        declared_global = set()
        for n in _own_nodes(node):
            if isinstance(n, ast.Global):
                declared_global.update(n.names)
            elif isinstance(n, ast.Nonlocal):
                f.other.append((n.lineno, 'nonlocal ' + ', '.join(n.names) + ' (closure cell written)'))
        # local names (anything stored, except declared globals) and aliases `x = <state or argument>`
        for n in _own_nodes(node):
            if isinstance(n, ast.Name) and isinstance(n.ctx, (ast.Store, ast.Del)) and n.id not in declared_global:
                f.locals.add(n.id)
            elif isinstance(n, ast.arg):
                f.locals.add(n.arg)
        for _ in range(3):      # aliases of aliases
            for n in _own_nodes(node):
                if isinstance(n, ast.Assign) and len(n.targets) == 1 and isinstance(n.targets[0], ast.Name) \
                        and isinstance(n.value, (ast.Name, ast.Attribute)):
                    keys = {k for k in self._root(f, n.value)}
                    if keys:
                        f.alias.setdefault(n.targets[0].id, set()).update(keys)
        for d in node.decorator_list:
            name = d.id if isinstance(d, ast.Name) else ast.unparse(d)
            base = name.split('.')[-1]
            if name not in PLAIN_DECORATORS and base not in ('setter', 'getter', 'deleter'):
                f.other.append((d.lineno, f'decorator @{name} (may keep state between calls)'))
        defaults = node.args.defaults + [d for d in node.args.kw_defaults if d is not None]
        for d in defaults:
            if isinstance(d, (ast.List, ast.Dict, ast.Set, ast.ListComp, ast.DictComp, ast.SetComp)) or (
                    isinstance(d, ast.Call) and not (isinstance(d.func, ast.Name) and
                                                     d.func.id in ('tuple', 'frozenset', 'int', 'float', 'str'))):
                f.other.append((d.lineno, f'mutable default argument {ast.unparse(d)} (shared between calls)'))
        for n in _own_nodes(node):
            if isinstance(n, ast.Name) and isinstance(n.ctx, (ast.Store, ast.Del)) and n.id in declared_global:
                f.writes.append((n.lineno, ('global', n.id), 'rebinds the module-level name'))
            elif isinstance(n, (ast.Attribute, ast.Subscript)) and isinstance(n.ctx, (ast.Store, ast.Del)):
                how = 'item store' if isinstance(n, ast.Subscript) else 'attribute store'
                if isinstance(n, ast.Attribute):
                    keys = self._root(f, n)                 # Cls.attr = ... designates the class attribute
                    keys = {k for k in keys if k[0] == 'class'} or self._root(f, n.value)
                else:
                    keys = self._root(f, n.value)
                self._record(f, n.lineno, keys, how + ' `' + ast.unparse(n) + '`')
            elif isinstance(n, ast.Call):
                fn = n.func
                if isinstance(fn, ast.Name) and fn.id in DYNAMIC and fn.id not in f.locals:
                    f.other.append((n.lineno, f'{fn.id}(...) (dynamic access to names / attributes)'))
                elif isinstance(fn, ast.Attribute) and fn.attr in MUTATORS and fn.attr not in self.class_methods:
                    self._record(f, n.lineno, self._root(f, fn.value),
                                 f'mutating call `{ast.unparse(fn)}(...)`')

    def _record(self, f, lineno, keys, how):
        for k in keys:
            if k[0] == 'arg':
                f.other.append((lineno, f'{how} writes into the argument `{"".join(k[1:])}`'))
            else:
                f.writes.append((lineno, k, how))

    # ------------------------------------------------------------------ second pass: reads
    def _reads(self, f):
        seen = set()
        for n in _own_nodes(f.node):
            if not (isinstance(n, (ast.Name, ast.Attribute)) and isinstance(n.ctx, ast.Load)):
                continue
            for k in self._root(f, n):
                hits = [k] if k in self.state else []
                if not hits and k[0] == 'class' and k[1] == '?':     # type(x).attr outside a class
                    hits = [s for s in self.state if s[0] == 'class' and s[2] == k[2]]
                for h in hits:
                    if (h, n.lineno) not in seen:
                        seen.add((h, n.lineno))
                        f.reads.append((n.lineno, h))

    # ------------------------------------------------------------------ results
    @staticmethod
    def key_text(k):
        return k[1] if k[0] == 'global' else f'{k[1]}.{k[2]}'

    def findings(self, f):
        out = [f'line {ln}: {how} - writes module state `{self.key_text(k)}`' for ln, k, how in f.writes]
        out += [f'line {ln}: reads module state `{self.key_text(k)}` (written at '
                + ', '.join(sorted({f'{g.qualname}:{l2}' for g in self.functions for l2, k2, _ in g.writes if k2 == k}))
                + ')' for ln, k in f.reads]
        out += [f'line {ln}: {text}' for ln, text in f.other]
        return sorted(set(out), key=lambda s: int(s.split()[1].rstrip(':')))

    def impure(self):
        """qualname -> findings, for every impure function of the file."""
        return {f.qualname: self.findings(f) for f in self.functions if f.writes or f.reads or f.other}

    def function_at(self, name, firstlineno):
        for f in self.functions:
            if f.node.name == name and firstlineno in f.lines:
                return f
        return None

    def constants(self):
        """module-level / class-level names bound to displays (list / dict / set) that no function writes"""
        out = []
        for n in self.tree.body:
            if isinstance(n, ast.Assign) and isinstance(n.value, (ast.List, ast.Dict, ast.Set, ast.BinOp, ast.Call)):
                for t in self._bound(n):
                    if ('global', t) not in self.state and isinstance(n.value, (ast.List, ast.Dict, ast.Set)):
                        out.append(t)
        return out
