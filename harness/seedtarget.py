"""Re-run every stored seeded change against its TARGET check only (fast final confirmation).

    python3 harness/seedtarget.py [workers]

For each /verif/seeded/<id>/ (patch.diff, meta.json): apply the patch in a scratch worktree of /repo HEAD
(never /repo itself), run the unedited test suite, run `./check <target> --tier quick` with DESPER_REPO
pointing at the worktree, undo the patch, and record the outcome under meta.json["final"].
Seeds touching desper/math.py (the C18 translator regenerates Lean files) run last, one at a time.
"""
import concurrent.futures
import json
import os
import pathlib
import subprocess
import sys
import threading

VERIF = pathlib.Path(__file__).resolve().parent.parent
PY = '/venv/bin/python'


def sh(cmd, cwd=None, env=None, timeout=3600):
    p = subprocess.run(cmd, shell=True, cwd=cwd, env=env, stdout=subprocess.PIPE, stderr=subprocess.STDOUT,
                       text=True, timeout=timeout)
    return p.returncode, p.stdout


def trial(seed_id, wt):
    d = VERIF / 'seeded' / seed_id
    meta = json.loads((d / 'meta.json').read_text())
    target = meta['property']
    sh('git checkout -q -- . && git clean -qfd', cwd=wt)
    rc, out = sh(f'git apply {d / "patch.diff"}', cwd=wt)
    if rc != 0:
        return seed_id, {'applies': False, 'note': out.strip()[:200]}
    try:
        rc, out = sh(f'{PY} -m pytest -q -p no:cacheprovider tests 2>&1 | tail -1', cwd=wt)
        tests = out.strip()
        env = dict(os.environ, DESPER_REPO=wt, VERIF_SEED='0', VERIF_EVIDENCE_DIR='/tmp/seed-evidence',
                   VERIF_SHRINK_BUDGET='60', VERIF_NO_COVERAGE='1')
        rc, out = sh(f'./check {target} --tier quick', cwd=VERIF, env=env)
        viol = [ln for ln in out.splitlines() if ln.startswith('VIOLATION')]
        detail = [ln.strip() for ln in out.splitlines() if ln.startswith('  ')][:1]
        head = subprocess.run('git rev-parse --short HEAD', shell=True, cwd=wt, stdout=subprocess.PIPE,
                              text=True).stdout.strip()
        return seed_id, {'applies': True, 'base': head, 'tests_with_patch': tests, 'target_exit': rc,
                         'caught_by_target': rc == 1,
                         'no_failing_input_found': any(v.endswith('no-failing-input-found') for v in viol),
                         'detail': detail}
    finally:
        sh('git checkout -q -- . && git clean -qfd', cwd=wt)


def ingest(rnd, only_pid=None):
    """Create /verif/seeded/Cxx-r<rnd>-k/ from the deliverables of the round's authors
    (/tmp/mut<rnd>-Cxx/out/patchK.diff, demoK.py, notes.json): patch, demo (worktree path made relative to
    DESPER_REPO), meta with the author's notes; demo confirmed both ways in a scratch worktree."""
    import re
    wt = '/tmp/seedwt-ingest'
    sh(f'git -C /repo worktree remove --force {wt}')
    rc, out = sh(f'git -C /repo worktree add -q --detach {wt} HEAD')
    assert rc == 0, out
    made = []
    try:
        for src in sorted(pathlib.Path('/tmp').glob(f'mut{rnd}-C*')):
            pid = src.name.split('-')[1]
            if only_pid and pid != only_pid:
                continue
            try:
                notes = json.loads((src / 'out' / 'notes.json').read_text())
            except Exception:       # noqa
                notes = []
            for k in (1, 2, 3):
                patch, demo = src / 'out' / f'patch{k}.diff', src / 'out' / f'demo{k}.py'
                if not patch.exists() or not demo.exists():
                    continue
                sid = f'{pid}-r{rnd}-{k}'
                d = VERIF / 'seeded' / sid
                d.mkdir(parents=True, exist_ok=True)
                (d / 'patch.diff').write_text(patch.read_text())
                text = re.sub(r"""(['"])/tmp/mut\d?-C\d+\1""", '__import__("os").environ.get("DESPER_REPO", "/repo")',
                              demo.read_text())
                (d / 'demo.py').write_text(text)
                note = notes[k - 1] if len(notes) >= k and isinstance(notes[k - 1], dict) else {}
                env = dict(os.environ, DESPER_REPO=wt)
                sh('git checkout -q -- . && git clean -qfd', cwd=wt)
                (pathlib.Path(wt) / 'out').mkdir(exist_ok=True)
                (pathlib.Path(wt) / 'out' / 'seed_demo.py').write_text(text)
                rc0, _ = sh(f'{PY} out/seed_demo.py', cwd=wt, env=env, timeout=300)
                rc, out = sh(f'git apply {d / "patch.diff"}', cwd=wt)
                rc1 = None
                if rc == 0:
                    rc1, o1 = sh(f'{PY} out/seed_demo.py', cwd=wt, env=env, timeout=300)
                meta = {'property': pid, 'needs': f"[{note.get('family', '?')}] {note.get('needs', '')}",
                        'clause': note.get('clause', ''), 'demo_without_patch': rc0, 'demo_with_patch': rc1,
                        'applies': rc == 0, 'confirmed_demo': rc0 == 0 and rc1 not in (0, None)}
                (d / 'meta.json').write_text(json.dumps(meta, indent=1))
                made.append(sid)
                print('ingested', sid, meta['confirmed_demo'], flush=True)
    finally:
        sh(f'git -C /repo worktree remove --force {wt}')
    return made


def main():
    if len(sys.argv) > 2 and sys.argv[1] == 'ingest':
        only = ingest(sys.argv[2], sys.argv[3] if len(sys.argv) > 3 else None)
        workers = 6
    else:
        only = None
        workers = int(sys.argv[1]) if len(sys.argv) > 1 else 6
    ids = sorted(p.name for p in (VERIF / 'seeded').iterdir() if (p / 'meta.json').exists())
    if only is not None:
        ids = [i for i in ids if i in only]
    if os.environ.get('SEED_FILTER'):
        import re
        ids = [i for i in ids if re.search(os.environ['SEED_FILTER'], i)]
    mathy = [i for i in ids if 'math.py' in (VERIF / 'seeded' / i / 'patch.diff').read_text()]
    rest = [i for i in ids if i not in mathy]
    if os.environ.get('SEED_MATH') == 'skip':
        mathy = []
    elif os.environ.get('SEED_MATH') == 'only':
        rest = []
    wts = []
    for k in range(workers):
        wt = f'/tmp/seedwt{k}'
        sh(f'git -C /repo worktree remove --force {wt}')
        rc, out = sh(f'git -C /repo worktree add -q --detach {wt} HEAD')
        assert rc == 0, out
        wts.append(wt)
    free = list(wts)
    lock = threading.Lock()
    results = {}

    def run(seed_id):
        with lock:
            wt = free.pop()
        try:
            sid, r = trial(seed_id, wt)
        except Exception as e:      # noqa
            sid, r = seed_id, {'error': repr(e)[:300]}
        finally:
            with lock:
                free.append(wt)
        print(sid, json.dumps(r), flush=True)
        return sid, r
    try:
        with concurrent.futures.ThreadPoolExecutor(max_workers=workers) as ex:
            for sid, r in ex.map(run, rest):
                results[sid] = r
        for sid in mathy:
            sid, r = run(sid)
            results[sid] = r
        # the generated Lean files of C18 are those of /repo again
        sh('./check C18 --tier quick', cwd=VERIF, env=dict(os.environ, VERIF_EVIDENCE_DIR='/tmp/seed-evidence'))
    finally:
        for wt in wts:
            sh(f'git -C /repo worktree remove --force {wt}')
    for sid, r in results.items():
        f = VERIF / 'seeded' / sid / 'meta.json'
        meta = json.loads(f.read_text())
        meta['final'] = r
        f.write_text(json.dumps(meta, indent=1))
    missed = [s for s, r in results.items() if not r.get('caught_by_target')]
    print('TOTAL', len(results), 'MISSED', missed)


if __name__ == '__main__':
    main()
