"""Executable statement of C15 ("a loaded world contains exactly what its description says").

Written from the property text.  It knows nothing of the transformer pipeline, of regular
expressions or of the Lean model: it reads the description, works out with plain string tests what
each argument has to become, and compares with the observation stream of the implementation.

What the text demands, clause by clause (each clause has its own `sig`):

  load-raised     a description whose references can all be resolved loads without an exception
  enabled         the world is returned with dispatching disabled (file / handle modes)
  early-callbacks no callback runs before dispatching is enabled
  processors      World.processors is: the default processors (file handles), then the listed ones
                  (order as C07 says: by priority, stable), each built from the given arguments
  entities        for every listed entity with components: exactly the listed components, under the
                  given identifier when there is one (otherwise under an identifier of its own)
  arg:*           every argument the constructor received is what the description says:
                  ${name} -> the named object, $res{a.b} -> the loaded resource a/b,
                  $handle{a.b} -> the handle a/b, not beginning with a marker -> unchanged
  callbacks       once enabled every handler component gets on_add(entity, world) once and then
                  on_world_load(handle, world) once, and nothing else

Several loads of the same file against the same resource tree (`step` lines): every load is held
to the same statement, with "the loaded resource" / "the handle" read off the tree as it is when
that load starts (a cleared handle yields a new resource object, a replaced handle is the one found,
an untouched one keeps its cached resource); the oracle keeps its own account of the tree.

Processors of the same exact type listed twice: the later one replaces the earlier one (C07); every
listed processor that is not followed by one of the same exact type must be present, whatever the
inheritance relations between the listed types are.

A load that fails (a reference that cannot be resolved yet, a constructor that raises) is not
judged itself, but it must not leave anything behind: whatever `handle()` returns afterwards —
with the cause repaired or gone — is held to the full statement (exact content, nothing dispatched
before enabling, then on_add / on_world_load), and a world object that `handle()` returned before
must not come back after the handle was cleared (clause stale-world).  After a failed load the
oracle no longer knows which resources were loaded on the way, so it only insists on the handle id
of a loaded resource (`R<hid>.*`), not on the load counter.

Callbacks that act on the world (`react` lines: suspend / resume dispatching, create entities, add
and remove components, dispatch events): the loaded world is judged as before (it is looked at
before dispatching is enabled); of the callback log the statement fixes, for every listed handler
component whose entity no reaction touches, what it hears of the load: on_add(entity, world) once,
then on_world_load(handle, world) once, in this order — whatever else it hears in between.

What it leaves open (nothing is demanded, whatever happens is accepted):
  * strings that begin with a marker but are not exactly marker + name + "}" with a name free of
    "}" and newline (DESIGN section 2),
  * references that cannot be resolved (unknown name, missing resource path, `$res{}` from a world
    handle outside a resource tree, the path of the world itself): the load may fail, any way,
  * descriptions that are not well formed (a default processor type listed again, repeated component
    type in one entity, clashing identifiers),
  * loads that follow a successful load the statement does not cover (marker-prefixed free-form
    arguments may have loaded anything).
"""
from harness.models.loader import Scenario, Ref, parse_val, parse_args, ent_id, show_id, show_json, dec

MARKERS = (('${', 'object'), ('$res{', 'resource'), ('$handle{', 'handle'))


class Free:
    """an argument the property does not constrain"""

    def __repr__(self):
        return '<any>'


FREE = Free()


class Unresolvable(Exception):
    pass


def expected_arg(sc, v, names, tree):
    """-> (expected value | FREE, kind)   raises Unresolvable"""
    if type(v) is not str or sc.mode != 'file':
        return v, 'passthrough'
    for marker, kind in MARKERS:
        if v.startswith(marker):
            body = v[len(marker):]
            name = body[:-1]
            if not body.endswith('}') or not name or '}' in name or '\n' in name:
                return FREE, 'free'
            if kind == 'object':
                if name not in names:
                    raise Unresolvable(v)
                k, p = names[name]
                if k == 'cls':
                    return Ref(f'C{p}'), kind
                if k == 'obj':
                    return Ref(f'P{p[0]}'), kind
                return p, ('object-string-reinterpreted'
                           if any(p.startswith(m) for m, _ in MARKERS[1:]) else kind)
            if not sc.intree:
                raise Unresolvable(v)
            path = name.replace('.', '/')
            if path not in tree or tree[path][0] == 'world' and kind == 'resource':
                raise Unresolvable(v)
            k, p = tree[path]
            if k == 'map':
                return Ref(f'M{p}'), kind
            if k == 'world':
                return Ref('HW'), kind
            if kind == 'resource':
                sc.touched.add(p)
                return Ref(f'R{p}.{sc.gen_of(p)}'), kind
            return Ref(f'H{p}'), kind
    return v, 'passthrough'


def expected_item(sc, item, names, tree):
    """-> (cid, [(value, kind)], {key: (value, kind)})"""
    tname, args, kwargs = item
    if tname not in names or names[tname][0] != 'cls':
        raise Unresolvable(tname)
    return (names[tname][1], [expected_arg(sc, a, names, tree) for a in (args or [])],
            {k: expected_arg(sc, a, names, tree) for k, a in (kwargs or {}).items()})


def uncopyable_refs(sc, names):
    out = []
    items = list(sc.procs) + [c for _, cs in sc.ents for c in cs]
    for _, args, kwargs in items:
        for a in list(args or []) + list((kwargs or {}).values()):
            if type(a) is str and a.startswith('${') and a.endswith('}'):
                n = names.get(a[2:-1])
                if n and n[0] == 'obj' and not n[1][1]:
                    out.append(a)
    return out


def parse_obs(obs):
    o = {'res': None, 'inst': {}, 'ent': {}, 'cb': [], 'procs': None, 'ents': None}
    for ln in obs:
        t = ln.split()
        if t[0] == 'res':
            o['res'] = ' '.join(t[1:])
        elif t[0] == 'res-enable':
            o['res-enable'] = ' '.join(t[1:])
        elif t[0] in ('enabled', 'pre'):
            o[t[0]] = int(t[1])
        elif t[0] in ('procs', 'ents'):
            o[t[0]] = [] if t[1] == '-' else t[1].split(',')
        elif t[0] == 'ent':
            o['ent'][t[1]] = [] if t[2] == '-' else t[2].split(',')
        elif t[0] == 'inst':
            args, kwargs, rest = parse_args(t[3:])
            o['inst'][t[1]] = (t[2], args, kwargs)
        elif t[0] == 'cb':
            o['cb'].append((t[1], t[2], t[3]))
        elif t[0] == 'loaded':
            o['loaded'] = t[1]
    return o


def val_str(v):
    return '<any>' if v is FREE else ' '.join(show_json(v))


def same(a, b):
    if isinstance(a, Ref) and a.tok.endswith('.*'):
        return isinstance(b, Ref) and b.tok.startswith(a.tok[:-1])
    return type(a) is type(b) and a == b and (
        not isinstance(a, (list, dict)) or val_str(a) == val_str(b))


def check_inst(where, exp, got):
    """exp = (cid, args, kwargs) from the description, got = (Ctok, args, kwargs) observed"""
    cid, eargs, ekw = exp
    ctok, gargs, gkw = got
    if ctok != f'C{cid}':
        return [('entities' if where.startswith('entity') else 'processors',
                 f'{where}: instance of class C{cid} required, found {ctok}')]
    out = []
    if len(eargs) != len(gargs):
        return [('arg:count', f'{where}: {len(eargs)} positional arguments in the description, '
                 f'constructor received {len(gargs)}')]
    for i, ((e, kind), g) in enumerate(zip(eargs, gargs)):
        if e is not FREE and not same(e, g):
            out.append((f'arg:{kind}', f'{where}: positional argument {i} must be `{val_str(e)}`, '
                        f'constructor received `{val_str(g)}`'))
    if list(ekw) != list(gkw):
        if sorted(ekw) != sorted(gkw):
            return out + [('arg:keywords', f'{where}: keyword arguments {sorted(ekw)} in the description, '
                           f'constructor received {sorted(gkw)}')]
    for k, (e, kind) in ekw.items():
        if e is not FREE and not same(e, gkw[k]):
            out.append((f'arg:{kind}', f'{where}: keyword argument {k!r} must be `{val_str(e)}`, '
                        f'constructor received `{val_str(gkw[k])}`'))
    return out


def well_formed(sc, procs, ents):
    if sc.mode == 'file' and any(p[0] in (0, 1) for p in procs):
        return False
    # identifiers: a generated one is the next of 1, 2, 3, … that no entity (with components) holds at that
    # moment; an imposed one that an earlier entity of the list already holds merges two entries
    ids, auto, held = [], 0, set()
    for (idtok, _), comps in zip(sc.ents, ents):
        ctypes = [c[0] for c in comps]
        if len(set(ctypes)) != len(ctypes):
            return False
        if idtok == '-':
            auto += 1
            while auto in held:
                auto += 1
            e = auto
        else:
            e = ent_id(idtok)
            if e in held:
                return False
        if comps:
            held.add(e)
        ids.append(e)
    return len(set(ids)) == len(ids)


class RMap:
    """the oracle's picture of one ResourceMap object"""

    def __init__(self, mid):
        self.mid, self.items, self.parent = mid, {}, None


class TreeAccount:
    """the oracle's own account of the resource trees between loads: map objects with their
    contents and parents; `tree` is what can be reached NOW from the root above the world handle"""
    uncertain = False       # a failed load may have loaded some resources on its way

    def __init__(self, sc):
        self.cached, self.counts = {}, {}
        self.inner, self.outer = RMap(0), RMap(1000000)
        self.world_parent = None
        self.implicit = 0
        for root, entries in ((self.inner, sc.tree), (self.outer, [(p, k, x) for p, k, x in sc.tree2])):
            for path, kind, payload in entries:
                self.put(root, path, (kind, payload))

    def put(self, root, path, node):
        parts = path.split('/')
        m = root
        for p in parts[:-1]:
            nxt = m.items.get(p)
            if not isinstance(nxt, RMap):
                self.implicit += 1
                nxt = RMap(f'implicit{self.implicit}')
                nxt.parent = m
                m.items[p] = nxt
            m = nxt
        kind, payload = node
        if kind == 'map':
            child = payload if isinstance(payload, RMap) else RMap(payload)
            child.parent = m
            m.items[parts[-1]] = child
        else:
            m.items[parts[-1]] = node
            if kind == 'world':
                self.world_parent = m

    def root(self):
        m = self.world_parent or self.inner
        while m.parent is not None:
            m = m.parent
        return m

    def find(self, path, root=None):
        m = root or self.root()
        parts = path.split('/')
        for p in parts[:-1]:
            m = m.items.get(p)
            if not isinstance(m, RMap):
                return None
        return m.items.get(parts[-1])

    @property
    def tree(self):
        """path -> (kind, payload) for everything below the root above the world handle"""
        out = {}

        def rec(m, prefix, seen):
            for name, n in m.items.items():
                if isinstance(n, RMap):
                    out[prefix + name] = ('map', n.mid)
                    if id(n) not in seen:
                        rec(n, prefix + name + '/', seen | {id(n)})
                else:
                    out[prefix + name] = n
        rec(self.root(), '', {id(self.root())})
        return out

    @property
    def world_path(self):
        return next((p for p, (k, _) in sorted(self.tree.items(), key=lambda e: len(e[0])) if k == 'world'), None)

    @property
    def in_outer(self):
        return self.root() is self.outer

    def gen_of(self, hid):
        if self.uncertain:
            return '*'
        return self.cached.get(hid, self.counts.get(hid, 0) + 1)

    def called(self, hids):
        for h in hids:
            if h not in self.cached:
                self.counts[h] = self.counts.get(h, 0) + 1
                self.cached[h] = self.counts[h]

    def step(self, st):
        if st[0] == 'clear':
            self.cached.pop(st[1], None)
        elif st[0] == 'replace':
            self.put(self.root(), st[1], ('handle', st[2]))
        elif st[0] == 'mount':
            m = self.root() if st[1] == '-' else self.find(st[1])
            if isinstance(m, RMap):
                self.put(self.outer, st[2], ('map', m))
        elif st[0] == 'unmount':
            for n in self.outer.items.values():
                if isinstance(n, RMap) and n.parent is self.outer:
                    n.parent = None
            self.outer.items = {}


def split_blocks(obs):
    blocks, cur = [], []
    for ln in obs:
        if ln.startswith('rx '):
            continue
        if ln.startswith('load '):
            blocks.append(cur)
            cur = []
        else:
            cur.append(ln)
    blocks.append(cur)
    return blocks


def oracle(lines, obs, pid='C15'):
    sc = Scenario(lines)
    acct = TreeAccount(sc)
    sc.gen_of = acct.gen_of
    blocks = split_blocks(obs)
    steps = list(sc.steps)
    k = 0
    kind = 'direct' if sc.mode == 'direct' else 'call'
    handle_has_world = False        # the world handle returned a world and was not cleared since
    while k < len(blocks):
        block = blocks[k]
        if kind == 'reload':
            handle_has_world = False
        res = next((ln for ln in block if ln.startswith('res ')), None)
        if res == 'res same-world':
            if not (kind == 'call' and handle_has_world):
                return [{'sig': f'{pid}:stale-world', 'what': f'load {k + 1} ({kind}): handle() returned a world '
                         'object it had returned before, though the handle was cleared or is another handle'}]
            status = 'ok'
        else:
            sc.touched = set()
            verdict, status = check_load(sc, acct.tree, block, pid, k + 1)      # the tree as it is NOW
            if verdict:
                return verdict
            if status == 'stop':
                return []
            if status == 'failed':
                acct.uncertain = True
            else:
                acct.called(sorted(sc.touched))
                if kind in ('call', 'reload'):
                    handle_has_world = True
        while steps and steps[0][0] in ('clear', 'replace', 'mount', 'unmount'):
            acct.step(steps.pop(0))
        if not steps:
            return []
        kind = steps.pop(0)[0]
        k += 1
    return []


def check_load(sc, tree, obs, pid, nth):
    """one load against the statement -> (violations, 'ok' | 'failed' | 'stop')
    ok: covered and the oracle's account of the tree is exact; failed: the load raised and that is
    not held against it; stop: later loads cannot be judged"""
    names = sc.name_table()
    o = parse_obs(obs)
    if o['res'] is None:
        return [], 'stop'          # nothing but rx lines
    raised = o['res'] != 'ok'
    where = '' if nth == 1 else f'load {nth}: '

    def V(clause, what):
        return [{'sig': f'{pid}:{clause}', 'what': where + what}]
    try:
        procs = [expected_item(sc, p, names, tree) for p in sc.procs]
        ents = [[expected_item(sc, c, names, tree) for c in comps] for _, comps in sc.ents]
    except Unresolvable:
        return [], ('failed' if raised else 'stop')
    for cid, _, _ in procs:
        if sc.classes.get(cid, ('?',))[0] != 'proc':
            return [], 'stop'
    if not well_formed(sc, procs, ents):
        return [], 'stop'
    items = procs + [c for e in ents for c in e]
    free = any(kind == 'free' for it in items for _, kind in it[1] + list(it[2].values()))
    ctor_may_raise = any(sc.raises.get(it[0]) for it in items)
    if raised:
        if free or ctor_may_raise:
            return [], 'failed'
        cause = ''
        if sc.mode == 'file' and uncopyable_refs(sc, names):
            cause = ':uncopyable-object'
        elif sc.mode == 'file' and not sc.intree:
            cause = ':handle-outside-tree'
        return V('load-raised' + cause,
                 f'every reference of the description can be resolved, yet loading {o["res"]}'), 'stop'
    out = check_world(sc, o, procs, ents, V)
    return (out[:1] if out else []), ('stop' if free else 'ok')


def touched_entities(sc):
    """identifiers of entities some scripted reaction adds to, removes from or re-creates"""
    out = set()
    for ops in sc.reactions.values():
        for op in ops:
            if op[0] in ('add', 'remove', 'spawn') and op[1] != '-':
                out.add(op[1])
    return out


def check_world(sc, o, procs, ents, V):
    out = []
    if sc.mode != 'direct':
        if o.get('enabled') != 0:
            out += V('enabled', 'the world was returned with dispatching enabled')
        if o.get('pre') != 0:
            out += V('early-callbacks', f'{o.get("pre")} callbacks ran before dispatching was enabled')
    # ---- processors
    prio = lambda cid: 0 if cid in (0, 1) else sc.classes[cid][1]          # noqa
    # a later processor of the same exact type replaces the earlier one
    kept = [p for i, p in enumerate(procs) if all(q[0] != p[0] for q in procs[i + 1:])]
    exp_procs = ([(0, [], {}), (1, [], {})] if sc.mode == 'file' else []) + kept
    exp_procs = sorted(exp_procs, key=lambda p: prio(p[0]))               # stable
    got = o['procs'] or []
    if [f'C{p[0]}' for p in exp_procs] != [g.split(':')[1] for g in got]:
        out += V('processors', 'World.processors must be of the classes %s (defaults first, then the listed '
                 'ones, by priority), found %s' % ([f'C{p[0]}' for p in exp_procs], got))
    else:
        for p, g in zip(exp_procs, got):
            lab = g.split(':')[0]
            if p[0] in (0, 1):
                continue
            if lab not in o['inst']:
                out += V('processors', f'processor {g} is not an instance built by the loader')
                continue
            for clause, what in check_inst(f'processor {g}', p, o['inst'][lab]):
                out += V(clause, what)
    # ---- entities
    explicit, autos = {}, []
    for (idtok, _), comps in zip(sc.ents, ents):
        if not comps:
            continue
        if idtok == '-':
            autos.append(comps)
        else:
            explicit[idtok] = comps
    got_ents = list(o['ents'] or [])
    for idtok, comps in explicit.items():
        if idtok not in got_ents:
            out += V('entities', f'no entity under the given identifier {idtok}; World.entities = {got_ents}')
    rest = [e for e in got_ents if e not in explicit]
    if len(rest) != len(autos) or len(set(got_ents)) != len(got_ents):
        out += V('entities', f'{len(autos)} entities without identifier and {len(explicit)} with one are '
                 f'listed (with components), World.entities = {got_ents}')
    else:
        pairs = [(i, explicit[i]) for i in explicit if i in got_ents] + list(zip(rest, autos))
        for idtok, comps in pairs:
            refs = o['ent'].get(idtok, [])
            have = {r.split(':')[1]: r.split(':')[0] for r in refs}
            want = [f'C{c[0]}' for c in comps]
            if sorted(have) != sorted(want) or len(refs) != len(comps):
                out += V('entities', f'entity {idtok} must own exactly components of classes {want}, owns {refs}')
                continue
            for c in comps:
                lab = have[f'C{c[0]}']
                if lab not in o['inst']:
                    out += V('entities', f'component {lab} of entity {idtok} was not built by the loader')
                    continue
                for clause, what in check_inst(f'entity {idtok} component {lab}', c, o['inst'][lab]):
                    out += V(clause, what)
                # ---- callbacks of this component
                ev = sc.classes[c[0]][2] or {}
                mine = [(k, cb) for k, cb in enumerate(o['cb']) if cb[0] == lab]
                want_cb = []
                if 'on_add' in ev:
                    want_cb.append((ev['on_add'], f'E{idtok},W'))
                if 'on_world_load' in ev and sc.mode != 'direct':
                    want_cb.append((ev['on_world_load'], 'HW,W'))
                heard = [cb[1:] for _, cb in mine]
                if sc.reactions:
                    if idtok in touched_entities(sc):
                        continue
                    heard = [h for h in heard if h in want_cb]
                if heard != want_cb:
                    out += V('callbacks', f'component {lab} of entity {idtok} must receive exactly {want_cb} '
                             f'(on_add once, then on_world_load once), received {[cb[1:] for _, cb in mine]}')
    if sc.mode != 'direct' and o.get('res-enable') != 'ok':
        out += V('callbacks', f'enabling dispatching {o.get("res-enable")}')
    return out
