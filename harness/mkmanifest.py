"""Writes /verif/MANIFEST.json from the table below (kept in code so it is always valid)."""
import json
import pathlib

VERIF = pathlib.Path(__file__).resolve().parent.parent

# pid -> (engine, technique, level text, level note, design ref)
CHECKS = {
    'C03': ('correspondence',
            'Lean 4 theorems over a re-entrant dispatcher model (induction on fuel, table invariant); '
            'model tied to events.py by a differential correspondence run',
            'Theorems in lean/DesperProofs/Props/C03.lean about the model lean/DesperModel/Disp.lean '
            '(mirrors events.py statement by statement, scripted re-entrant callbacks); every run rebuilds '
            'them, audits #print axioms, and runs the model and the real EventDispatcher on the same '
            'generated scenarios (class hierarchies, hash-permuted listener sets, nested operations).',
            'Trusted: Lean kernel; the reading of the statement in Props/C03.lean; the correspondence '
            'harness (differential testing, bounded by its generators); CPython set/dict/weakref semantics '
            'are modelled, not verified.  Single lineage of __events__ in class hierarchies.',
            '§5 C03'),
    'C04': ('correspondence',
            'Lean 4 theorems: history invariant enqueued = released ++ queue over all re-entrant runs '
            '(induction on fuel + per-step invariant), release drains or stops; tied to events.py by '
            'correspondence with fault injection at every delivery position',
            'Theorems in lean/DesperProofs/Props/C04.lean about the dispatcher model (Disp.lean): never twice / '
            'in order / nothing lost for every history with raising and re-disabling callbacks, the release '
            'loop pops before it delivers, returns only with an empty queue or a disabled dispatcher, and the '
            'fault-free release delivers in order exactly once per listener.  Every run rebuilds and audits '
            'them and runs model and real EventDispatcher on generated interleavings with a raise / nested '
            'disable injected at each delivery position.',
            'Trusted: Lean kernel; reading of the statement; correspondence harness (bounded by generators); '
            'termination is proved as "each iteration removes the head" + fuel for user callbacks.',
            '§5 C04'),
    'C10': ('correspondence',
            'Lean 4 theorems: liveness invariant of the weak tables over all re-entrant runs, dead objects '
            'are never called (per-step invariant over the reachability relation); tied to events.py by '
            'correspondence with drops at every callback position + weakref/gc observation',
            'Theorems in lean/DesperProofs/Props/C10.lean: the tables mention live objects only, dropping the '
            'last reference unregisters, a dead object is never called again along any continuation, no '
            'callback has receiver None.  Correspondence drops references between operations and inside '
            'callbacks under permuted listener orders; the harness checks with weakref + gc.collect() that '
            'nothing keeps a dropped handler alive; a runtime probe checks that a handler which cannot be '
            'referenced weakly is refused or, if accepted, still not kept alive (objects outside the model).',
            'Partial: that CPython frees an object when its last reference goes (refcounting) is runtime '
            'behaviour, assumed by the theorems and observed on the implementation.  Trusted: Lean kernel, '
            'reading of the statement, correspondence harness.',
            '§5 C10'),
    'C20': ('correspondence',
            'Lean 4 theorems over the transform model (setter = store; dispatch stored value), delivery '
            'exactness inherited from the dispatcher theorems; tied to spatial.py by correspondence',
            'Theorems in lean/DesperProofs/Props/C20.lean: 2D rotation stored modulo 360 in [0,360), other '
            'values stored verbatim, a setter notifies exactly the listeners of the matching event once '
            'with the value a read returns afterwards and leaves the other properties alone, constructor '
            'stores the same way.  Correspondence: several real Transform2D/3D objects, out-of-range and '
            'negative rotations, all properties of all transforms read back after every assignment, '
            'identity of the notified object with the stored one.',
            'Trusted: Lean kernel, reading of the statement, correspondence harness.  Float `%` rounding is '
            'not modelled: rotations are multiples of 1/2 degree (exact in binary floating point).  '
            'C20_notify_stored assumes passive listeners; C20_stored_whatever_listeners_do holds for arbitrary listener reactions.',
            '§5 C20'),
    'C01': ('correspondence',
            'Lean 4 invariant proof over all operation histories of the World model, including callbacks that call back into the same world to any nesting depth (index/row transposition, get = subclass relation, get(object), fresh automatic ids); tied to world.py by correspondence observing all queries after every operation',
            'Theorems in lean/DesperProofs/Props/C01.lean about lean/DesperModel/World.lean (mirrors world.py after the fix commits). Every run rebuilds/audits them and runs model and real World on generated histories (int/str/automatic ids, replacement, diamonds), comparing get/get_component/get_components/has_component/entities/entity_exists for 7 ids x all types after EVERY operation, plus an independent oracle written from the property text.',
            'Trusted: Lean kernel; reading of the statement; correspondence harness (bounded by generators). Lifecycle callbacks and processors are scripted in the World model: they log, may raise, may call delete_entity, and may make nested World calls on the same world (Universe.tie); theorems needing passive callbacks carry [U.NoReenter] / [U.Passive] in their statements, the C01 theorems hold for re-entrant callbacks too (ReactInv); plain-event callbacks re-enter only as sole listener (set order of several listeners is canonicalised, not modelled); CPython dict/set/__subclasses__ order semantics are modelled (insertion order, creation order), not verified; default id generator only.',
            '§5 C01'),
    'C02': ('correspondence',
            'Lean 4 theorems over the World model (registered-iff-attached invariant for non-re-entrant callbacks, postponed callbacks FIFO); tied to world.py/events.py by correspondence; two known findings (D5a, D23) carried with explicit guards',
            'Theorems in lean/DesperProofs/Props/C02.lean; correspondence over handler/non-handler components with every subset of on_add/on_remove/probe events, dispatch toggles, clear and reuse; oracle = abstract attachment relation + FIFO of postponed callbacks.',
            'Trusted: Lean kernel; reading of the statement; correspondence harness (bounded by generators). Lifecycle callbacks and processors are scripted in the World model: they log, may raise, may call delete_entity, and may make nested World calls on the same world (Universe.tie); theorems needing passive callbacks carry [U.NoReenter] / [U.Passive] in their statements, the C01 theorems hold for re-entrant callbacks too (ReactInv); plain-event callbacks re-enter only as sole listener (set order of several listeners is canonicalised, not modelled); CPython dict/set/__subclasses__ order semantics are modelled (insertion order, creation order), not verified; default id generator only.',
            '§5 C02'),
    'C05': ('correspondence',
            'Lean 4 theorems over the World model (two-step deletion, sweep before processors, process total on well-formed histories, no sticky failure, marks made by callbacks during the sweep survive it); correspondence biased to touching deleted entities before the frame, with scripted raising callbacks',
            'Theorems in lean/DesperProofs/Props/C05.lean; correspondence with deferred deletion interleaved with remove/immediate delete/re-create on the same id, several frames, raising on_remove/processors.',
            'Trusted: Lean kernel; reading of the statement; correspondence harness (bounded by generators). Lifecycle callbacks and processors are scripted in the World model: they log, may raise, may call delete_entity, and may make nested World calls on the same world (Universe.tie); theorems needing passive callbacks carry [U.NoReenter] / [U.Passive] in their statements, the C01 theorems hold for re-entrant callbacks too (ReactInv); plain-event callbacks re-enter only as sole listener (set order of several listeners is canonicalised, not modelled); CPython dict/set/__subclasses__ order semantics are modelled (insertion order, creation order), not verified; default id generator only.',
            '§5 C05'),
    'C06': ('correspondence',
            'Lean 4 proof that the fringe walk visits exactly the reflexive-transitive subclasses (structural recursion on class index), get() lists each once; correspondence on random class DAGs',
            'Theorems in lean/DesperProofs/Props/C06.lean (walk sound and complete w.r.t. the subclass relation, exact type first, get without duplicates, remove_component / remove_processor detach exactly one); correspondence on random DAGs accepted by C3 with all query types.',
            'Trusted: Lean kernel; reading of the statement; correspondence harness (bounded by generators). Lifecycle callbacks and processors are scripted in the World model: they log, may raise, may call delete_entity, and may make nested World calls on the same world (Universe.tie); theorems needing passive callbacks carry [U.NoReenter] / [U.Passive] in their statements, the C01 theorems hold for re-entrant callbacks too (ReactInv); plain-event callbacks re-enter only as sole listener (set order of several listeners is canonicalised, not modelled); CPython dict/set/__subclasses__ order semantics are modelled (insertion order, creation order), not verified; default id generator only.',
            '§5 C06'),
    'C07': ('correspondence',
            'Lean 4 proofs: bisect_right postcondition, processors list sorted by priority and stable, one per exact type, process calls = sorted list; correspondence on add/remove/process histories with ties, zero and negative priorities',
            'Theorems in lean/DesperProofs/Props/C07.lean; correspondence with class/explicit priorities incl. ties, 0 and negatives, removal by supertype, handler processors.',
            'Trusted: Lean kernel; reading of the statement; correspondence harness (bounded by generators). Lifecycle callbacks and processors are scripted in the World model: they log, may raise, may call delete_entity, and may make nested World calls on the same world (Universe.tie); theorems needing passive callbacks carry [U.NoReenter] / [U.Passive] in their statements, the C01 theorems hold for re-entrant callbacks too (ReactInv); plain-event callbacks re-enter only as sole listener (set order of several listeners is canonicalised, not modelled); CPython dict/set/__subclasses__ order semantics are modelled (insertion order, creation order), not verified; default id generator only.',
            '§5 C07'),
    'C18': ('math-translator',
            'Lean 4 theorems (ring / linear_combination / Mathlib Matrix, Real.sqrt, Complex.arg) about '
            'definitions REGENERATED from desper/math.py on every run by a tracing translator; translator '
            'validated every run by exact rational execution against the real functions (genuine int / Fraction arguments, float-literal tracking, call sequences with operands edited in place, re-entering number objects) and a purity obligation (no function of math.py keeps state between calls)',
            '56 theorems in lean/DesperProofs/Props/C18.lean with the generated definitions '
            '(lean/DesperProofs/Generated/MathGen.lean, traced from the real functions on symbolic scalars) on '
            'the left and textbook definitions / Mathlib Matrix on the right: entry-wise arithmetic, dot, cross, '
            'lerp, scale, clamp, distance, swizzling for every letter list, row-by-column product, associativity, '
            'identity, (A@B)@v = B@(A@v), transpose, determinant and two-sided Mat4 inverse, constructors, and over '
            'the reals normalize / from_magnitude / limit / from_polar / from_heading / rotate.  A change in '
            'math.py changes the generated file; a theorem that no longer checks is reported with a concrete '
            'failing input found by the textbook oracle.',
            'Trusted: Lean kernel; the translator (Sym operator semantics, branch enumerator, _math shim mapping '
            'sqrt/sin/cos/atan2 to Real.sqrt/sin/cos/Complex.arg) - validated every run on exact rationals; the '
            'textbook definitions in the Props file.  Partial: IEEE floating point is not modelled, only tested '
            '(rel. tol. 1e-9 on magnitudes 1e-3..1e3); x/0 is a call status in the executable version.  Known findings D32, D33: float literals in the default matrices and in orthogonal_projection round exact arguments.',
            '§5 C18'),
    'C15': ('correspondence',
            'Lean 4 theorems over a loader model (regexes as functions on character lists proved for ALL strings, '
            'transformer pipeline, population, postponed events); tied to model/world.py by correspondence incl. an '
            'exhaustive small-scope comparison of the regex functions with Python re',
            'Theorems in lean/DesperProofs/Props/C15.lean: pass-through of every non-marker argument for all '
            'character lists, reference resolution (${}, $res{}, $handle{}), exact content of the loaded world for '
            'well-formed descriptions (decidable predicate), returned disabled then on_add once each in order and '
            'on_world_load once per listener.  Correspondence: real JSON files, real ResourceMap trees and '
            'WorldFromFileHandle, importable scenario modules, dictionary path as well.',
            'Trusted: Lean kernel; reading of the statement; correspondence harness.  json.load, importlib, lru_cache '
            'and Python re are modelled (re validated exhaustively on short strings over the marker alphabet), not '
            'verified.  Known finding D30 (string-valued ${} result resolved a second time) carried with a guard.',
            '§5 C15'),
    'C13': ('correspondence',
            'Lean 4 theorems over a loop model (frames, handles with caches, held events) by induction over the frame '
            'list; tied to loop.py by correspondence; known finding D26 carried with a guard and a decide-checked witness',
            'Theorems in lean/DesperProofs/Props/C13.lean: frame abandoned and target processed next, on_switch_out once '
            'in the left world, on_switch_in once in the entered instance after its pending load-time callbacks, left '
            'world silent until re-entered then held events in order, clear flags give fresh instances, target loaded '
            'at most once.  Correspondence: real SimpleLoop/World/Handle subclasses, switches from processors, event '
            'callbacks and coroutines, all flag combinations, cached/uncached targets, self-switches.',
            'Trusted: Lean kernel; reading of the statement; correspondence harness (bounded by generators).  The clock (time.perf_counter monotonicity) is an input; callbacks are scripted reactions; fuel bounds only callback nesting.',
            '§5 C13'),
    'C14': ('correspondence',
            'Lean 4 theorems over the loop model: dt sequence = deltas of consumed readings across switches, '
            'telescoping sum, Quit/other exception outcomes, restart begins with dt 0; tied to loop.py by correspondence',
            'Theorems in lean/DesperProofs/Props/C14.lean (C14_dt, C14_telescopes, C14_once_per_iteration, C14_quit, '
            'C14_other_propagates, C14_restart).  Correspondence: reading sequences with repeats, frame scripts where '
            'any processor quits, switches or raises, restarts of the same loop object; oracle = predicate over the '
            'implementation stream written from the property text.',
            'Trusted: Lean kernel; reading of the statement; correspondence harness (bounded by generators).  The clock (time.perf_counter monotonicity) is an input; callbacks are scripted reactions; fuel bounds only callback nesting.',
            '§5 C14'),
    'C11': ('correspondence',
            'Lean 4 invariant proofs over a heap model of ResourceMap (typed stores, ChainMap layers) for all '
            'insertion/clear histories: back-links, one kind per name, last assignment wins, path equivalence; tied to '
            'tree.py by correspondence incl. exhaustive short histories in the thorough tier',
            'Theorems in lean/DesperProofs/Props/C11.lean (C11_path_equiv, C11_get_default_iff_keyerror, '
            'C11_last_assignment_wins, C11_one_kind, C11_backlinks, C11_clear) under the explicit hypothesis Fresh '
            '(values inserted at most once; aliasing is generated for the correspondence but excluded from the theorems).',
            'Trusted: Lean kernel; reading of the statement; correspondence harness (bounded by generators).  CPython dict / ChainMap semantics are modelled (heap model with typed stores), not verified.', '§5 C11'),
    'C12': ('correspondence',
            'Lean 4 theorems over all access/clear histories through every access path (handle call, map item, '
            'chained item, static item and attribute chains): at most one load between clears, same token, cached iff '
            'no load; tied to tree.py by correspondence with falsy/odd loaded values and identity observation',
            'Theorems in lean/DesperProofs/Props/C12.lean (C12_at_most_once, C12_same_object, C12_cached_iff, '
            'C12_clear_reloads).  Correspondence: loaders returning None, 0, empty containers, objects with raising '
            '__eq__/__bool__, load counters and `is` identity through every access path.',
            'Trusted: Lean kernel; reading of the statement; correspondence harness (bounded by generators).  CPython dict / ChainMap semantics are modelled (heap model with typed stores), not verified.', '§5 C12'),
    'C16': ('correspondence',
            'Lean 4 theorems over a populator model whose input is the glob listing (ordered entries, hypothesis '
            'ListingOk checked by the harness on every generated tree): files reachable, directories are maps, '
            'handles built from (factory, path, args), conflict nesting, errors; tied to model/__init__.py by '
            'correspondence on real temporary directory trees',
            'Theorems in lean/DesperProofs/Props/C16.lean; C16_nothing_else_partial is per placement (the whole-'
            'population path-level form is not derived) and files_reachable/dirs_are_maps carry a no-later-key-clash '
            'hypothesis.  Correspondence creates real trees (depth<=4, names with 0-2 dots, empty dirs, dirs with '
            'extensions), rule lists with filters/extra args, both flags at construction or per call, repeated population.',
            'Partial: the file system, glob traversal order and os.path are runtime, replaced by ListingOk + splitext '
            'model validated against os.path on every run.  ' + 'Trusted: Lean kernel; reading of the statement; correspondence harness (bounded by generators).  CPython dict / ChainMap semantics are modelled (heap model with typed stores), not verified.', '§5 C16'),
    'C17': ('correspondence',
            'Lean 4 theorems: snapshot mirrors the map for every path (item, attribute, get) after any history, and '
            'is immutable; tied to tree.py by correspondence with identifier and non-identifier names, layered handles',
            'Theorems in lean/DesperProofs/Props/C17.lean (C17_mirror, C17_absent_names, C17_immutable).',
            'Trusted: Lean kernel; reading of the statement; correspondence harness (bounded by generators).  CPython dict / ChainMap semantics are modelled (heap model with typed stores), not verified.' + '  Names colliding with StaticResourceMap members are excluded (the statement\'s own exclusion).',
            '§5 C17'),
    'C08': ('correspondence',
            'Lean 4 theorems over a coroutine-processor model (deque with sentinel, heap as a bag with validated '
            'tie hints, scripts as generators) for all histories, dt sequences and hints: one step per frame, order '
            'stability, exact wake-up via the wait-record invariant; tied to coroutines.py by correspondence',
            'Theorems in lean/DesperProofs/Props/C08.lean (C08_one_step, C08_frame_runs_in_deque_order, '
            'C08_order_stable, C08_nonpositive_is_next_frame, C08_wake_exact, C08_progress_counts_logged_steps).  '
            'Correspondence: 1-6 scripts, waits from none/0/negative/1/8..4, dt from 0..2, 20-60 frames.',
            'Trusted: Lean kernel; reading of the statement; correspondence harness (bounded by generators).  Generator objects are scripts (steps of in-body start/kill/state actions followed by yield or return); bodies may raise out of process() (modelled after the D31 repair); bodies that call process recursively or yield non-numbers are out of scope; heapq tie order is a validated hint; times are multiples of 1/8 s (exact in binary floating point), float rounding not modelled.', '§5 C08'),
    'C09': ('correspondence',
            'Lean 4 theorems: table coherence invariant over all start/kill/state/process interleavings from outside '
            'and inside bodies, process total, state characterisation, errors leave the state unchanged, kill final, '
            'promise values, release; tied to coroutines.py by correspondence incl. exhaustive short histories',
            'Theorems in lean/DesperProofs/Props/C09.lean (C09_process_total, C09_tables_coherent, C09_state, '
            'C09_errors, C09_kill_final, C09_promise, C09_released).  Correspondence: random + every history of <= 4 '
            '(quick) / <= 6 (thorough) operations over small script families; weakref/gc check of finished generators.',
            'Trusted: Lean kernel; reading of the statement; correspondence harness (bounded by generators).  Generator objects are scripts (steps of in-body start/kill/state actions followed by yield or return); bodies may raise out of process() (modelled after the D31 repair); bodies that call process recursively or yield non-numbers are out of scope; heapq tie order is a validated hint; times are multiples of 1/8 s (exact in binary floating point), float rounding not modelled.' + '  Collectability of finished generators is runtime behaviour: observed, not proved.', '§5 C09'),
    'C19': ('correspondence',
            'Lean 4 theorems (shorthand = World call for the recorded entity; Controller.on_add records the owner; '
            'prototype three-way construction rule; on_update relayed once per listener) + twin-world differential '
            'run on the real code and correspondence with the world / prototype models',
            'Theorems in lean/DesperProofs/Props/C19.lean.  Correspondence (a) twin worlds: the same history through '
            'Controller shorthands / ComponentReference / ProcessorReference and through plain World calls must give '
            'identical results, callbacks and full snapshots after every operation; (b) Prototype subclass families '
            'over all source combinations, custom/empty prefixes, overrides, colliding type names, double iteration; '
            '(c) runtime probe outside the one-world model: an OnUpdateProcessor moved to another world relays that '
            'world\'s frames to that world\'s listeners only.',
            'Trusted: Lean kernel; reading of the statement; correspondence harness.  The shorthand theorems hold by unfolding in the model, so for that clause the assurance is the twin-world differential run on the real code.', '§5 C19'),
}

NOT_YET = 'check not built yet (work in progress; see DESIGN.md §5 for the plan)'


def main():
    props = [json.loads(l) for l in (VERIF / 'properties.jsonl').read_text().splitlines() if l.strip()]
    checks, na = [], []
    for p in props:
        pid = p['id']
        if pid in CHECKS:
            eng, tech, text, note, ref = CHECKS[pid]
            checks.append({
                'property_id': pid,
                'quick_cmd': f'./check {pid} --tier quick',
                'thorough_cmd': f'./check {pid} --tier thorough',
                'evidence_file': f'evidence/{pid}.json',
                'replay_cmd_template': f'./check {pid} --replay {{path}}',
                'engine': eng,
                'level_claimed': {'category': 'proof', 'text': text, 'design_ref': ref},
                'level_note': note,
                'technique': tech,
            })
        else:
            na.append({'property_id': pid, 'reason': NOT_YET})
    man = {
        'version': 1,
        'setup_cmd': './setup.sh',
        'hooks': {'guard': 'DESPER_VERIF', 'enable': 'no hooks are needed: every observable is visible from '
                  'outside (subclassing, scripted callbacks, weakref); checks import desper from /repo as is',
                  'baseline_off_cmd': 'cd /repo && /venv/bin/python -m pytest -q -p no:cacheprovider tests',
                  'source_commits': [], 'add_only': True},
        'engines': [
            {'name': 'lean-proofs', 'path': 'lean/', 'serves_properties': sorted(CHECKS),
             'kind_free_text': 'Lean 4 models (DesperModel, core only, executable) and theorems (DesperProofs)'},
            {'name': 'math-translator', 'path': 'harness/translate_math.py', 'serves_properties': ['C18'],
             'kind_free_text': 'tracing translator desper/math.py -> Lean (generic field / reals for proofs, Rat '
                               'for execution), regenerated and validated on every run'},
            {'name': 'correspondence', 'path': 'harness/', 'serves_properties': sorted(CHECKS),
             'kind_free_text': 'differential run of the Lean driver and the real desper code on generated '
                               'scenarios + executable oracle for failing-input search'},
        ],
        'checks': checks,
        'not_applicable': na,
        'notes': 'exit 0 = held; exit 1 + VIOLATION line; exit 2 = machinery error (never a verdict)',
    }
    (VERIF / 'MANIFEST.json').write_text(json.dumps(man, indent=1) + '\n')


if __name__ == '__main__':
    main()
