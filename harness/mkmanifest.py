"""Writes /verif/MANIFEST.json from the table below (kept in code so it is always valid)."""
import json
import pathlib

VERIF = pathlib.Path(__file__).resolve().parent.parent

# pid -> (engine, technique, level text, level note, design ref)
CHECKS = {
    'C03': ('correspondence',
            'Lean 4 theorems over a re-entrant dispatcher model (induction on fuel, table invariant); '
            'model tied to events.py by a differential correspondence run',
            'Theorems in lean/DesperProofs/Props/C03.lean about the model lean/DesperModel/Disp.lean '
            '(mirrors events.py statement by statement, scripted re-entrant callbacks); every run rebuilds '
            'them, audits #print axioms, and runs the model and the real EventDispatcher on the same '
            'generated scenarios (class hierarchies, hash-permuted listener sets, nested operations).',
            'Trusted: Lean kernel; the reading of the statement in Props/C03.lean; the correspondence '
            'harness (differential testing, bounded by its generators); CPython set/dict/weakref semantics '
            'are modelled, not verified.  Single lineage of __events__ in class hierarchies.',
            '§5 C03'),
}

NOT_YET = 'check not built yet (work in progress; see DESIGN.md §5 for the plan)'


def main():
    props = [json.loads(l) for l in (VERIF / 'properties.jsonl').read_text().splitlines() if l.strip()]
    checks, na = [], []
    for p in props:
        pid = p['id']
        if pid in CHECKS:
            eng, tech, text, note, ref = CHECKS[pid]
            checks.append({
                'property_id': pid,
                'quick_cmd': f'./check {pid} --tier quick',
                'thorough_cmd': f'./check {pid} --tier thorough',
                'evidence_file': f'evidence/{pid}.json',
                'replay_cmd_template': f'./check {pid} --replay {{path}}',
                'engine': eng,
                'level_claimed': {'category': 'proof', 'text': text, 'design_ref': ref},
                'level_note': note,
                'technique': tech,
            })
        else:
            na.append({'property_id': pid, 'reason': NOT_YET})
    man = {
        'version': 1,
        'setup_cmd': './setup.sh',
        'hooks': {'guard': 'DESPER_VERIF', 'enable': 'no hooks are needed: every observable is visible from '
                  'outside (subclassing, scripted callbacks, weakref); checks import desper from /repo as is',
                  'baseline_off_cmd': 'cd /repo && /venv/bin/python -m pytest -q -p no:cacheprovider tests',
                  'source_commits': [], 'add_only': True},
        'engines': [
            {'name': 'lean-proofs', 'path': 'lean/', 'serves_properties': sorted(CHECKS),
             'kind_free_text': 'Lean 4 models (DesperModel, core only, executable) and theorems (DesperProofs)'},
            {'name': 'correspondence', 'path': 'harness/', 'serves_properties': sorted(CHECKS),
             'kind_free_text': 'differential run of the Lean driver and the real desper code on generated '
                               'scenarios + executable oracle for failing-input search'},
        ],
        'checks': checks,
        'not_applicable': na,
        'notes': 'exit 0 = held; exit 1 + VIOLATION line; exit 2 = machinery error (never a verdict)',
    }
    (VERIF / 'MANIFEST.json').write_text(json.dumps(man, indent=1) + '\n')


if __name__ == '__main__':
    main()
