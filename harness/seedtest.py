"""Confirm a seeded property-breaking change and run the checks against it.

    python3 harness/seedtest.py <worktree> <patch.diff> <demo.py> <target pid> <seed id> <needs text>

In the given scratch worktree of /repo (never /repo itself): apply the patch, run the unedited test
suite (must pass), run the demonstration (must fail with the patch, pass without), run every
registered check with DESPER_REPO pointing at the patched worktree, undo the patch, and write
/verif/seeded/<seed id>/{patch.diff, demo.py, meta.json}.
"""
import concurrent.futures
import json
import os
import pathlib
import re
import shutil
import subprocess
import sys

VERIF = pathlib.Path(__file__).resolve().parent.parent
PY = '/venv/bin/python'


def sh(cmd, cwd=None, env=None, timeout=1800):
    p = subprocess.run(cmd, shell=True, cwd=cwd, env=env, stdout=subprocess.PIPE, stderr=subprocess.STDOUT,
                       text=True, timeout=timeout)
    return p.returncode, p.stdout


def run_check(pid, wt, target=None):
    env = dict(os.environ, DESPER_REPO=wt, VERIF_SEED='0', VERIF_EVIDENCE_DIR='/tmp/seed-evidence',
               VERIF_SHRINK_BUDGET='120' if pid == target else '0', VERIF_NO_COVERAGE='1')
    rc, out = sh(f'./check {pid} --tier quick', cwd=VERIF, env=env)
    viol = [l for l in out.splitlines() if l.startswith('VIOLATION')]
    detail = [l.strip() for l in out.splitlines() if l.startswith('  ')][:2]
    return pid, rc, viol, detail


def main():
    wt, patch, demo, target, seed_id, needs = sys.argv[1:7]
    wt = str(pathlib.Path(wt).resolve())
    meta = {'property': target, 'needs': needs, 'ran': []}
    rc, out = sh('git status --porcelain --untracked-files=no', cwd=wt)
    assert out.strip() == '', f'worktree not clean: {out}'
    # demo without the patch
    denv = dict(os.environ, DESPER_REPO=wt)
    # demonstrations locate the tree under test either through DESPER_REPO or relative to their own
    # location <worktree>/out/: run them from there
    (pathlib.Path(wt) / 'out').mkdir(exist_ok=True)
    local_demo = pathlib.Path(wt) / 'out' / 'seed_demo.py'
    if pathlib.Path(demo).resolve() != local_demo.resolve():
        shutil.copy(demo, local_demo)
    demo_src, demo = demo, str(local_demo)
    rc0, out0 = sh(f'{PY} {demo}', cwd=wt, env=denv)
    meta['demo_without_patch'] = rc0
    rc, out = sh(f'git apply {patch}', cwd=wt)
    assert rc == 0, f'patch does not apply: {out}'
    try:
        rc, out = sh(f'{PY} -m pytest -q -p no:cacheprovider tests 2>&1 | tail -1', cwd=wt)
        meta['tests_with_patch'] = out.strip()
        rc1, out1 = sh(f'{PY} {demo}', cwd=wt, env=denv)
        meta['demo_with_patch'] = rc1
        meta['demo_output'] = out1.strip().splitlines()[:3]
        confirmed = ('111 passed' in out) and rc0 == 0 and rc1 != 0
        meta['confirmed'] = confirmed
        manifest = json.loads((VERIF / 'MANIFEST.json').read_text())
        pids = [c['property_id'] for c in manifest['checks']]
        touched = subprocess.run(f'git diff --name-only', shell=True, cwd=wt, stdout=subprocess.PIPE,
                                 text=True).stdout.split()
        meta['files'] = touched
        math_touched = any(f.endswith('math.py') for f in touched)
        results = {}
        others = [p for p in pids if p != 'C18']
        with concurrent.futures.ThreadPoolExecutor(max_workers=10) as ex:
            for pid, rc, viol, detail in ex.map(lambda p: run_check(p, wt, target), others):
                results[pid] = {'exit': rc, 'violation': viol[:1], 'detail': detail}
        if math_touched or target == 'C18':
            pid, rc, viol, detail = run_check('C18', wt, target)
            results[pid] = {'exit': rc, 'violation': viol[:1], 'detail': detail}
        meta['checks'] = results
        meta['caught_by'] = sorted(p for p, r in results.items() if r['exit'] == 1)
        meta['caught_by_target'] = results.get(target, {}).get('exit') == 1
        meta['machinery_errors'] = sorted(p for p, r in results.items() if r['exit'] not in (0, 1))
        meta['ran'] = [f'git apply {pathlib.Path(patch).name} in a scratch worktree of /repo HEAD',
                       'pytest -q tests (unedited suite)', 'demo.py with and without the patch',
                       'DESPER_REPO=<worktree> ./check <pid> --tier quick for every registered check']
    finally:
        sh('git checkout -- .', cwd=wt)
        if any(f.endswith('math.py') for f in meta.get('files', [])) or target == 'C18':
            # regenerate the translated definitions for the real tree
            run_check('C18', '/repo')
    d = VERIF / 'seeded' / seed_id
    d.mkdir(parents=True, exist_ok=True)
    if (d / 'meta.json').exists() and not needs.strip():
        meta['needs'] = json.loads((d / 'meta.json').read_text()).get('needs', '')
    if pathlib.Path(patch).resolve() != (d / 'patch.diff').resolve():
        shutil.copy(patch, d / 'patch.diff')
    text = pathlib.Path(demo_src).read_text()
    text = re.sub(r'''(['"])/tmp/mut[23]?-C\d+\1''', '__import__("os").environ.get("DESPER_REPO", "/repo")', text)
    (d / 'demo.py').write_text(text)
    (d / 'meta.json').write_text(json.dumps(meta, indent=1))
    print(json.dumps({k: meta[k] for k in ('property', 'confirmed', 'tests_with_patch', 'demo_with_patch',
                                           'demo_without_patch', 'caught_by', 'caught_by_target',
                                           'machinery_errors')}, indent=1))
    for p in meta['caught_by']:
        print(p, meta['checks'][p]['violation'], meta['checks'][p]['detail'])


if __name__ == '__main__':
    main()
