"""Seeded scenario generator for the `loader` model (C15)."""
from harness.models.loader import enc, show_json

MODULE = 'vmod'
EVENT_CHOICES = [
    None, None, None,
    {'on_add': 'on_add'},
    {'on_add': 'added'},
    {'on_world_load': 'on_world_load'},
    {'on_add': 'on_add', 'on_world_load': 'on_world_load'},
    {'on_add': 'added', 'on_world_load': 'loaded'},
    {'on_add': 'both', 'on_world_load': 'both'},
    {'on_add': 'on_add', 'on_update': 'on_update'},
    {'on_update': 'tick'},
    {'on_add': 'on_add', 'on_remove': 'on_remove', 'on_world_load': 'wl'},
]
PLAIN_STRINGS = ['', 'hello', 'a b', '$', '{}', '}', '${', '$res', '$handle', 'x${%s}', ' ${%s}', '$ {%s}',
                 '$res {%r}', '$resx{%r}', '$RES{%r}', '$Handle{%r}', '$handl{%r}', '\n${%s}', '$$res{%r}',
                 '{%s}', '$(%s)', 'res{%r}', '\xe9t\xe9', 'tab\there', '%s', '%r', '$res', '$handle{'[:-1]]
FREE_FORMS = ['${%s} tail', '${%s}}', '${%s}x}', '${a}b}', '${%s\n}', '${%s}\n}', '${}', '$res{}', '$handle{}',
              '${', '$res{', '$handle{', '$res{%r}x}', '$handle{%r} ', '${%s\r}', '$res{%r', '${{%s}}',
              '$handle{%r}\n', '${\n%s}', '$res{%r}}']


class Gen:
    def __init__(self, rng):
        self.rng = rng
        self.lines = []

    def pick(self, xs):
        return self.rng.choice(xs)

    # ------------------------------------------------------------------ universe
    def universe(self):
        r = self.rng
        self.lines.append(f'module {MODULE}')
        self.procs, self.comps, self.events = [], [], {}
        self.raising = []
        cid = 2
        for kind, pool, n in (('proc', self.procs, r.randint(1, 4)), ('comp', self.comps, r.randint(1, 4))):
            for _ in range(n):
                # inheritance chains: a class may derive from an earlier one of its kind (processors
                # also from a default processor); its mapping is then a superset of the base's
                base = None
                if pool and r.random() < 0.5:
                    base = self.pick(pool)
                elif kind == 'proc' and r.random() < 0.1:
                    base = r.randint(0, 1)
                ev = self.pick(EVENT_CHOICES)
                inherited = self.events.get(base)
                if inherited is not None:
                    ev = {**inherited, **(ev or {})}
                line = self.cls_line(cid, kind, r.randint(-2, 2) if kind == 'proc' else 0, ev, base)
                if self.with_raises and r.random() < 0.4:
                    # scripted constructor failures: the n-th calls of the class raise
                    line += ' raise=' + self.pick(['0', '0', '1', '0,1', '2'])
                    self.raising.append(cid)
                self.lines.append(line)
                pool.append(cid)
                self.events[cid] = ev
                cid += 1
        self.cls_names = {}
        self.obj_names, self.bad_obj_names, self.str_names = [], [], []
        self.lines.append(f'name {MODULE} obj 0 copy=0')
        self.bad_obj_names.append(MODULE)
        have_ns = r.random() < 0.5
        if have_ns:
            self.lines.append(f'name {MODULE}.ns obj 1 copy=1')
            self.obj_names.append(f'{MODULE}.ns')
        for c in self.procs + self.comps:
            n = f'{MODULE}.K{c}'
            self.lines.append(f'name {n} cls {c}')
            self.cls_names[c] = [n]
            if have_ns and r.random() < 0.4:
                n2 = f'{MODULE}.ns.Alias{c}'
                self.lines.append(f'name {n2} cls {c}')
                self.cls_names[c].append(n2)
        oid = 2
        for _ in range(r.randint(0, 2)):
            self.lines.append(f'name {MODULE}.o{oid} obj {oid} copy=1')
            self.obj_names.append(f'{MODULE}.o{oid}')
            oid += 1
        if r.random() < 0.35:
            self.lines.append(f'name {MODULE}.m{oid} obj {oid} copy=0')
            self.bad_obj_names.append(f'{MODULE}.m{oid}')
            oid += 1
        for k, s in enumerate(r.sample(['plain', 'x y', '', '${%s.K2}' % MODULE, '$'], r.randint(0, 2))):
            self.lines.append(f'name {MODULE}.s{k} str s{enc(s)}')
            self.str_names.append(f'{MODULE}.s{k}')

    @staticmethod
    def cls_line(cid, kind, prio, ev, base=None):
        evs = 'none' if ev is None else ','.join(f'{k}:{v}' for k, v in ev.items())
        return f'cls {cid} {kind} prio={prio} ev={evs}' + ('' if base is None else f' base={base}')

    def tree(self, with_world):
        r = self.rng
        self.handle_paths, self.map_paths = [], []
        maps = ['']
        mid, hid = 1, 1
        for _ in range(r.randint(0, 3)):
            parent = self.pick(maps)
            name = self.pick(['a', 'b', 'maps', 'dir.x', 'c d'])
            path = (parent + '/' if parent else '') + name
            if path in maps or path in self.handle_paths:
                continue
            self.lines.append(f'tree {enc(path)} map {mid}')
            maps.append(path)
            self.map_paths.append(path)
            mid += 1
        for _ in range(r.randint(0, 4)):
            parent = self.pick(maps)
            name = self.pick(['r1', 'r2', 'res', 'img.png', 'x'])
            path = (parent + '/' if parent else '') + name
            if path in maps or path in self.handle_paths:
                continue
            self.lines.append(f'tree {enc(path)} handle {hid}')
            self.handle_paths.append(path)
            hid += 1
        self.world_path = None
        if with_world and self.want_outer:
            # a bigger tree with resources under the same paths, for mounting the handle's tree into
            for ln in list(self.lines):
                t = ln.split()
                mirrored = [x.split()[1] for x in self.lines if x.startswith('tree2 ')]
                if t[0] == 'tree' and r.random() < 0.7 and ('/' not in t[1] or t[1].rsplit('/', 1)[0] in mirrored):
                    self.lines.append(f'tree2 {t[1]} {t[2]} {int(t[3]) + 50}')
            self.lines.append('tree2 mnt map 99')
        if with_world:
            parent = self.pick(maps)
            name = self.pick(['w', 'world', 'level1'])
            self.world_path = (parent + '/' if parent else '') + name
            if r.random() < 0.15 and not self.want_outer:
                # composite key through maps that __setitem__ creates on the way (D12 / D22)
                self.world_path = (parent + '/' if parent else '') + 'worlds/lvl/' + name
                self.lines.append(f'tree {enc(self.world_path)} world composite')
            else:
                self.lines.append(f'tree {enc(self.world_path)} world')

    # ------------------------------------------------------------------ values
    def any_name(self):
        pool = [n for ns in self.cls_names.values() for n in ns] + self.obj_names + self.str_names
        return self.pick(pool)

    def dotted(self, path):
        """resource path as written inside $res{...}: dots for slashes where that is possible"""
        if '.' in path or self.rng.random() < 0.15:
            return path
        return path.replace('/', '.')

    def res_pool(self):
        """paths a $res{..} can name (a dot in a key cannot be written: it is turned into a slash)"""
        return [p for p in self.handle_paths + self.handle_paths + self.map_paths if '.' not in p]

    def any_res(self):
        pool = self.res_pool()
        if pool and self.rng.random() < 0.95:
            return self.dotted(self.pick(pool))
        pool = self.handle_paths + self.map_paths
        return self.pick(pool) if pool else 'nothing'

    def fill(self, template):
        return template.replace('%s', self.any_name()).replace('%r', self.any_res())

    def json_scalar(self):
        r = self.rng
        k = r.random()
        if k < 0.1:
            return None
        if k < 0.2:
            return r.random() < 0.5
        if k < 0.45:
            return self.pick([0, 1, -1, 42, 10 ** 12, -7])
        return self.fill(self.pick(PLAIN_STRINGS))

    def json_value(self, depth=0):
        r = self.rng
        k = r.random()
        if depth < 2 and k < 0.12:
            return [self.arg(depth + 1, clean=True) for _ in range(r.randint(0, 3))]
        if depth < 2 and k < 0.22:
            return {self.pick(['k', 'type', 'a b', '${x}', 'args']): self.arg(depth + 1, clean=True)
                    for _ in range(r.randint(0, 2))}
        return self.json_scalar()

    def arg(self, depth=0, clean=True):
        """one argument of a file description"""
        r = self.rng
        k = r.random()
        if self.late is not None and depth == 0 and r.random() < 0.12:
            self.late_used = True
            return '$res{%s}' % self.dotted(self.late)
        if self.file_mode and k < 0.45:
            kind = r.random()
            if kind < 0.4:
                return '${%s}' % self.any_name()
            if kind < 0.7 and self.res_pool() and self.intree:
                return '$res{%s}' % self.any_res()
            if self.intree and self.res_pool():
                return '$handle{%s}' % self.any_res()
            if self.intree and self.world_path:
                return '$handle{%s}' % self.dotted(self.world_path)
            return '${%s}' % self.any_name()
        if not clean and k < 0.6:
            kind = r.random()
            if kind < 0.5:
                return self.fill(self.pick(FREE_FORMS))
            if kind < 0.6 and self.bad_obj_names:
                return '${%s}' % self.pick(self.bad_obj_names)
            if kind < 0.75:
                return '${%s}' % self.pick([MODULE + '.missing', 'nomodule.K2', MODULE + '..K2', '.x',
                                            MODULE + '.ns.zz', ' ' + MODULE])
            if kind < 0.9:
                return self.pick(['$res{%s}', '$handle{%s}']) % self.pick(
                    ['missing', 'a.missing', 'a..b', '.', 'r1.x', 'a/'])
            return '$res{%s}' % self.any_res()
        return self.json_value(depth)

    def args_tokens(self, clean):
        r = self.rng
        toks = []
        n = r.choice([0, 0, 1, 1, 2, 3, 4])
        if n == 0 and r.random() < 0.5:
            toks.append('A-')
        else:
            toks.append(f'A{n}')
            for _ in range(n):
                toks += show_json(self.arg(0, clean))
        m = r.choice([0, 0, 0, 1, 2, 3])
        keys = r.sample(['val', 'x', 'key with space', 'on_add', 'args', 'type', '${k}', 'self_'], m)
        if m == 0 and r.random() < 0.5:
            toks.append('K-')
        else:
            toks.append(f'K{m}')
            for k in keys:
                toks += ['k' + enc(k)] + show_json(self.arg(0, clean))
        return ' '.join(toks)

    # ------------------------------------------------------------------ description
    def description(self, clean):
        r = self.rng
        # descriptions that are not well formed (replacement / merging in World) are drawn now and then
        ill = not clean and r.random() < 0.4
        used = set()
        self.items = []        # (label, class, identifier token of the entity | None for a processor)
        auto = 0
        for _ in range(r.choice([0, 1, 1, 2, 3, 4, 5])):
            c = self.pick(self.procs)
            # the same exact type twice (the later one replaces the earlier one) now and then
            if c in used and not ill and r.random() < 0.7:
                continue
            used.add(c)
            self.items.append((len(self.items), c, None))
            self.lines.append(f'proc {enc(self.pick(self.cls_names[c]))} {self.args_tokens(clean)}')
        ids, held = set(), set()
        # now and then the description imposes the very identifiers the world's generator starts with
        # (1, 2[, 3]) and then lists entities without one: those must get identifiers of their own
        forced = ['i1', 'i2', 'i3'][:r.randint(2, 3)] + ['-'] if self.comps and r.random() < 0.15 else []
        r.shuffle(forced) if forced and r.random() < 0.2 else None
        for n_ent in range(max(len(forced), r.choice([0, 1, 2, 2, 3, 4]))):
            k = r.random()
            if n_ent < len(forced):
                idtok = forced[n_ent]
            elif k < 0.5:
                idtok = '-'
            elif k < 0.75:
                # (small ones are identifiers the world's own generator would hand out: it must step over them)
                idtok = 'i%d' % self.pick([0, -1, -7, 100, 101, 2 ** 40, 1, 2, 2, 3])
            else:
                idtok = 's' + enc(self.pick(['0', '1', 'string id', 'string id 2', '', 'a/b', '${x}']))
            if idtok in ids and not ill:
                idtok = '-'
            if idtok != '-':
                ids.add(idtok)
            self.lines.append(f'ent {idtok}')
            comps = r.sample(self.comps, r.randint(1 if n_ent < len(forced) else 0, min(3, len(self.comps))))
            if idtok == '-':
                auto += 1
                while auto in held:
                    auto += 1
            ent_tok = f'i{auto}' if idtok == '-' else idtok
            if comps and ent_tok[0] == 'i':
                held.add(int(ent_tok[1:]))
            # the same type twice in one create_entity call: only for classes that are not handlers
            # (a shadowed handler instance is dropped by the garbage collector, C10's subject)
            plain = [c for c in comps if self.events[c] is None]
            if ill and plain and r.random() < 0.5:
                comps.insert(r.randint(0, len(comps)), self.pick(plain))
            for c in comps:
                self.items.append((len(self.items), c, ent_tok))
                self.lines.append(f'comp {enc(self.pick(self.cls_names[c]))} {self.args_tokens(clean)}')
            while idtok == '-' and r.random() < 0.12:
                # the same entity dictionary listed again (a prototype used several times)
                auto += 1
                while auto in held:
                    auto += 1
                if comps:
                    held.add(auto)
                for c in comps:
                    self.items.append((len(self.items), c, f'i{auto}'))
                self.lines.append('ent same')

    def steps(self):
        """further loads of the same file against the same tree, with handles cleared / replaced and
        the map that holds the world handle mounted into / moved within / unmounted from a bigger tree"""
        from harness import spec_loader
        from harness.models.loader import Scenario
        r = self.rng
        hid = 100
        acct = spec_loader.TreeAccount(Scenario(self.lines))
        hids = [int(ln.split()[3]) for ln in self.lines if ln.split()[0] in ('tree', 'tree2') and ln.split()[2] == 'handle']
        fresh = ['levels', 'game', 'zone', 'hub', 'deep', 'area']
        for _ in range(r.randint(1, 3)):
            for _ in range(r.randint(0, 3)):
                k = r.random()
                st = None
                if self.want_outer and k < 0.45:
                    comps = acct.world_path.split('/')
                    ips = ([] if acct.in_outer else ['-']) + [
                        '/'.join(comps[:i]) for i in range(1, len(comps))
                        if acct.tree.get('/'.join(comps[:i]), ('', 0))[0] == 'map']
                    if acct.in_outer and r.random() < 0.35:
                        st = ('unmount',)
                    elif ips and fresh:
                        key = fresh.pop(r.randrange(len(fresh)))
                        mnt = acct.outer.items.get('mnt')
                        into = acct.outer
                        if isinstance(mnt, spec_loader.RMap) and r.random() < 0.3:
                            key, into = 'mnt/' + key, mnt
                        ip = self.pick(ips)
                        obj = acct.root() if ip == '-' else acct.find(ip)

                        def inside(m, seen=()):
                            return m is into or any(isinstance(n, spec_loader.RMap) and id(n) not in seen
                                                    and inside(n, seen + (id(n),)) for n in m.items.values())
                        if not inside(obj):        # never a map into itself
                            st = ('mount', ip, key)
                elif hids and k < 0.75:
                    st = ('clear', self.pick(hids))
                else:
                    paths = [p for p, (kind, _) in acct.tree.items() if kind == 'handle']
                    if paths:
                        st = ('replace', self.pick(paths), hid)
                        hids.append(hid)
                        hid += 1
                if st is not None:
                    acct.step(st)
                    self.lines.append('step ' + ' '.join(enc(x) if isinstance(x, str) and i else str(x)
                                                         for i, x in enumerate(st)))
            self.lines.append('step ' + self.pick(['reload', 'reload', 'load2']))

    def reactions(self):
        """callbacks of listed components / processors that act on the world being loaded"""
        r = self.rng
        handlers = [it for it in self.items if self.events[it[1]]]
        if not handlers:
            return
        derived = {int(ln.split('base=')[1].split()[0]) for ln in self.lines if ln.startswith('cls ') and 'base=' in ln}
        # classes whose instances may be removed / replaced by a reaction: they listen to nothing
        # that is delivered to a set of listeners, and nothing derives from them
        safe = [c for c in self.comps if set(self.events[c] or {}) <= {'on_add', 'on_remove'} and c not in derived]
        ents = sorted({it[2] for it in self.items if it[2] is not None})
        budget = [2]        # suspensions without a resumption the program has to make up for
        fresh = [0]

        def op():
            k = r.random()
            if k < 0.2:
                if budget[0] > 0 and r.random() < 0.5:
                    budget[0] -= 1
                    return ['enable 0']
                return ['enable 1']
            if k < 0.4:
                return ['enable 0', spawn(), 'enable 1']
            if k < 0.6:
                return [spawn()]
            if k < 0.75:
                return ['dispatch ' + self.pick(['on_update', 'on_update', 'nope'])]
            if k < 0.88 and safe and ents:
                return [f'remove {self.pick(ents)} {self.pick(safe)}']
            if safe and ents:
                return [f'add {self.pick(ents)} {self.pick(safe)}']
            return [spawn()]

        def spawn():
            k = r.random()
            if k < 0.15 and safe and ents:
                return f'spawn {self.pick(ents)} ' + ','.join(map(str, r.sample(safe, r.randint(1, min(2, len(safe))))))
            cs = ','.join(map(str, r.sample(self.comps, r.randint(1, min(3, len(self.comps))))))
            if k < 0.5:
                fresh[0] += 1
                return f'spawn snew{fresh[0]} {cs}'
            return f'spawn - {cs}'
        n = 0
        for label, cid, _ in r.sample(handlers, min(len(handlers), r.randint(1, 3))):
            for meth in sorted(set(self.events[cid].values())):
                if r.random() < 0.7:
                    ops = [x for _ in range(r.randint(1, 3)) for x in op()]
                    self.lines.append(f'react i{label} {meth} {self.pick([0, 0, 0, 1])} : ' + ' ; '.join(ops))
                    n += 1
        if n and r.random() < 0.3:
            self.lines.append(f'react x0 {self.pick(["on_add", "added", "on_world_load", "both"])} 0 : '
                              + ' ; '.join(x for _ in range(r.randint(1, 2)) for x in op()))

    def retry_steps(self):
        """the load fails; handle() is called again, with the cause repaired or not"""
        r = self.rng
        if self.late is not None:
            if not self.late_used:
                c = self.pick(self.comps)
                self.lines.append('ent -')
                self.lines.append(f'comp {enc(self.pick(self.cls_names[c]))} A1 s{enc("$res{%s}" % self.dotted(self.late))} K0')
            if r.random() < 0.5:
                self.lines.append('step ' + self.pick(['call', 'call', 'reload', 'load2']))
            if r.random() < 0.85:
                self.lines.append(f'step replace {enc(self.late)} 90')
        for _ in range(r.randint(1, 3)):
            self.lines.append('step ' + self.pick(['call', 'call', 'call', 'reload'] +
                                                  (['load2'] if self.file_mode else [])))

    def rx_lines(self):
        r = self.rng
        alphabet = ['$', '{', '}', 'r', 'e', 's', 'h', 'a', 'n', 'd', 'l', 'x', '.', '\n', ' ', '\r', '/']
        starts = ['${', '$res{', '$handle{', '${', '$res{', '$handle{', '', '$', 'x', '$res', '$ {', '$handle {']
        for _ in range(r.randint(1, 4)):
            s = self.pick(starts) + ''.join(self.pick(alphabet) for _ in range(r.randint(0, 8)))
            if r.random() < 0.5:
                s += '}'
            self.lines.append('rx s' + enc(s))

    def scenario(self):
        r = self.rng
        k = r.random()
        if k < 0.70:
            mode, self.file_mode, self.intree = 'file intree', True, True
        elif k < 0.78:
            mode, self.file_mode, self.intree = 'file bare', True, False
        elif k < 0.90:
            mode, self.file_mode, self.intree = 'dict', False, False
        else:
            mode, self.file_mode, self.intree = 'direct', False, False
        clean = r.random() < 0.8
        handle_mode = (self.file_mode and self.intree) or mode == 'dict'
        # loads that fail part-way and are tried again: a resource that is not in the tree yet, or a
        # constructor that raises on scripted calls
        self.with_raises = handle_mode and r.random() < 0.12
        self.late, self.late_used = None, False
        self.want_outer = self.file_mode and self.intree and r.random() < 0.3
        reactive = handle_mode and clean and not self.with_raises and r.random() < 0.15
        self.universe()
        self.tree(with_world=self.file_mode and self.intree)
        if self.file_mode and self.intree and clean and r.random() < 0.12:
            parent = self.pick([''] + self.map_paths)
            self.late = (parent + '/' if parent else '') + 'late'
        self.lines.append(f'mode {mode}')
        self.description(clean)
        if reactive:
            self.reactions()
        if self.late is not None or (self.with_raises and self.raising):
            self.retry_steps()
        elif self.file_mode and self.intree and r.random() < (0.6 if self.want_outer else 0.35 if clean else 0.1):
            self.steps()
        elif mode == 'dict' and r.random() < 0.4:
            # the same description dictionary is used for a further load
            for _ in range(r.randint(1, 2)):
                self.lines.append('step ' + self.pick(['reload', 'reload', 'call']))
        elif handle_mode and not clean and r.random() < 0.4:
            self.lines.append('step call')
        self.rx_lines()
        return self.lines


def gen_scenario(rng):
    return Gen(rng).scenario()


def rx_exhaustive(max_len, per_scenario=60):
    """every string marker + w, w over {$ { } a . newline} up to max_len: small-scope exhaustive
    comparison of the model's regex functions with Python's re"""
    import itertools
    alphabet = ['$', '{', '}', 'a', '.', '\n']
    prefixes = ['${', '$res{', '$handle{', '']
    lines = []
    for p in prefixes:
        for n in range(max_len + 1):
            for w in itertools.product(alphabet, repeat=n):
                lines.append('rx s' + enc(p + ''.join(w)))
    for i in range(0, len(lines), per_scenario):
        yield lines[i:i + per_scenario]
