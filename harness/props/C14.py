"""C14 — SimpleLoop feeds exact time deltas and stops cleanly on Quit."""
from harness import gen_loop, spec_loop

MODEL = 'loop'
RULE = ('corpus, then seeded random scenarios (45 % of them with the Python protocol dressing `identity`: distinct '
        'handle objects that compare equal and hash alike or are unhashable, falsy handles and falsy worlds): integer clock readings fed to the real loop as floats r/8, as Python '
        'ints of any size (around and above 2**53, ns since the epoch) or as exact Fractions r/7; small, huge and '
        'negative bases, repeats, mostly non-decreasing and sometimes stepping backwards; the delta handed to process '
        'is compared with the difference of the two readings as exact rationals, never through float; 1-3 start() calls of 1-8 frames over 1-3 worlds with 1-3 '
        'processors each, in which any processor of any frame (plain, on_update callback, coroutine) quits '
        '(processors also call the running loop directly without raising: loop.switch(handle, cc, cn), '
        'loop.time_function = <second time function with its own readings>, read loop.current_world) '
        '(quit_loop with and without target, raise Quit), switches or raises another exception; restarts '
        'after Quit, after a propagated exception and after the clock ran out.  Non-trivial: a start() '
        'processed at least two frames or ended by Quit/exception raised by user code; distinct by text.')
TIE = ('correspondence check (differential run of the Lean model and the real desper code; world instances renamed by '
       'order of appearance) + oracle: the text of C14 as a predicate over the implementation stream, the current '
       'world being read from loop.current_world at every clock reading and at every quit/raise of user code')
TRUSTED = ['the wall clock (time.perf_counter monotonicity and resolution) is an input of the model, not verified',
           'harness/models/loop.py observes World.process through an attribute set on each world instance']
ASSUMPTIONS = ['the clock is an input: a finite list of integer readings (any size and sign) that the scenario time '
               'function returns as float r/8 (|r| < 2**50, exact), int r or Fraction(r, 7); it raises ClockExhausted '
               'after the last one',
               'callbacks are scripted reactions (switch, quit, raise) and terminate',
               'the dispatch_enabled setter pops one queued event at a time (D7 repair, commit ac9c198)']
FRAME_W = dict(gen_loop.FRAME_W, quit=2.5, quitto=1, rquit=2.5, rother=2.5, switch=3)


def generate(rng, tier):
    if tier != 'quick':
        yield from gen_loop.small_scope(('none', 'rquit', 'rother', 'quit'))
    for _ in range(2500 if tier == 'quick' else 40000):
        yield gen_loop.gen_scenario(rng, FRAME_W, max_starts=4)


def _line(o):
    t = o.split()
    if t[0] in ('frame', 'proc', 'ret', 'hang', 'peek'):
        return o
    if t[0] == 'tick':
        if t[1] == 'end':
            return None
        return ' '.join(t[:2])          # the reading the loop took (fn=/current= fields: oracle only)
    if t[0] == 'ev' and t[2] == 'on_quit':
        return o
    return None


def project(obs):
    """C14's observables.  World instances are renamed `<handle>@<k>` by order of first appearance
    in this projection: how often a handle was loaded on the way is C13's business (C13_loads)."""
    names, per_handle, out = {}, {}, []

    def rn(inst):
        if '#' not in inst:
            return inst
        if inst not in names:
            h = inst.split('#')[0]
            per_handle[h] = per_handle.get(h, 0) + 1
            names[inst] = f'{h}@{per_handle[h]}'
        return names[inst]
    for o in obs:
        o = _line(o)
        if o is None:
            continue
        t = o.split()
        if t[0] in ('frame', 'proc', 'ev', 'peek'):
            t[1] = rn(t[1])
        elif t[0] == 'ret':
            t = [('current=' + rn(x[8:])) if x.startswith('current=') else x for x in t]
        out.append(' '.join(t))
    return out


def oracle(lines, obs):
    """C14's own text as a predicate over the implementation's stream; which world is current is
    taken from the implementation's own `tick`/`do` lines (which instance a switch must enter is
    C13's business).  The model's stream carries no such lines: nothing to judge there."""
    if 'start' not in obs:
        return []          # the model's stream: no implementation-only `start`/`do`/`tick ... fn=` lines
    return spec_loop.c14_predicate(lines, obs)


def nontrivial(lines, obs):
    return sum(1 for o in obs if o.startswith('frame ')) >= 2 or \
        any(o.startswith('ret raised') or ' on_quit ' in o for o in obs)


def stats(scenarios, impl_obs):
    def count(pred):
        return sum(1 for obs in impl_obs for o in obs if pred(o))
    return {'frames': count(lambda o: o.startswith('frame ')),
            'starts': count(lambda o: o.startswith('ret ')),
            'starts_ended_ok': count(lambda o: o.startswith('ret ok')),
            'starts_ended_Other': count(lambda o: o.startswith('ret raised Other')),
            'starts_ended_ClockExhausted': count(lambda o: o.startswith('ret raised ClockExhausted')),
            'on_quit_deliveries': count(lambda o: ' on_quit ' in o),
            'nonzero_dt_frames': count(lambda o: o.startswith('frame ') and o.split()[2] != '0'),
            'negative_dt_frames': count(lambda o: o.startswith('frame ') and o.split()[2].startswith('-')),
            'clock_kinds': {k: sum(1 for s in scenarios if (f'clock {k}' in s) or (k == 'f8' and not any(
                l.startswith('clock ') for l in s))) for k in ('f8', 'int', 'frac')},
            'readings_at_or_above_2**53': sum(1 for s in scenarios for l in s if l.startswith('frame ')
                                              and abs(int(l.split()[1].split('/')[0])) >= 2 ** 53),
            'scenarios_with_two_time_functions': sum(1 for s in scenarios if any(
                l.startswith('frame ') and '/' in l.split()[1] for l in s)),
            'direct_loop_switch_calls': sum(l.count('lswitch') for s in scenarios for l in s),
            'time_function_assignments': sum(l.count('setclock') for s in scenarios for l in s)}
