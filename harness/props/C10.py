"""C10 — handlers are held weakly and never called after they are gone."""
from harness import gen_disp, spec_disp

MODEL = 'disp'
RULE = ('seeded random scenarios: handler objects whose only strong reference is the harness table; '
        '`drop` (delete the last strong reference) between operations and from inside callbacks at every '
        'callback position, scripted __hash__ to reach different listener iteration orders; after every '
        'drop the harness checks through weakref + gc.collect() that the object is really gone (runtime '
        'part).  Non-trivial: a drop happened and a later dispatch delivered; distinct by scenario hash.')
ASSUMPTIONS = ['CPython frees an object as soon as its last strong reference goes away (reference counting, '
               'no cycles): assumed by the theorem, observed on the implementation by the harness',
               'callbacks are scripted reactions made of dispatcher operations']
KINDS = ['add', 'add', 'remove', 'dispatch', 'dispatch', 'dispatch', 'drop', 'ishandler']


def generate(rng, tier):
    n = 400 if tier == 'quick' else 8000
    for _ in range(n):
        lines, objs, mapping_of = gen_disp.gen_universe(rng, max_classes=3, max_objs=5, mixins=False)
        lines += gen_disp.gen_reactions(rng, objs, mapping_of, ['drop', 'drop', 'remove', 'dispatch', 'add'],
                                        p=0.4, raise_p=0.05)
        for o in objs:
            if rng.random() < 0.85:
                lines.append(f'op add {o}')
        for _ in range(rng.randint(1, 20)):
            lines.append('op ' + gen_disp.gen_op(rng, objs, KINDS))
        yield lines


def project(obs):
    return [o for o in obs if o.split()[0] in ('cb', 'ish', 'res', 'gone', 'hang', 'leak')]


def oracle(lines, obs):
    vs = [{'sig': 'C10:kept-alive', 'what': o} for o in obs if o.startswith('leak ')]
    return vs + spec_disp.compare('C10', spec_disp.expected(lines, obs), obs, project)


def nontrivial(lines, obs):
    return any('drop' in l for l in lines) and any(o.startswith('cb ') for o in obs)


def stats(scenarios, impl_obs):
    return {'callbacks': sum(1 for obs in impl_obs for o in obs if o.startswith('cb ')),
            'drops_top': sum(1 for s in scenarios for l in s if l.startswith('op drop')),
            'drops_in_callbacks': sum(l.count('drop') for s in scenarios for l in s if l.startswith('react'))}
