"""C10 — handlers are held weakly and never called after they are gone."""
from harness import gen_disp, spec_disp

MODEL = 'disp'
RULE = ('seeded random scenarios: handler objects whose only strong reference is the harness table; '
        '`drop` (delete the last strong reference) between operations and from inside callbacks at every '
        'callback position, scripted __hash__ to reach different listener iteration orders; after every '
        'drop the harness checks through weakref + gc.collect() that the object is really gone (runtime '
        'part).  Non-trivial: a drop happened and a later dispatch delivered; distinct by scenario hash.')
ASSUMPTIONS = ['World stream: callbacks are passive and do not raise (registered iff attached, C02), objects are '
               'Python objects without reference cycles',
               'CPython frees an object as soon as its last strong reference goes away (reference counting, '
               'no cycles): assumed by the theorem, observed on the implementation by the harness',
               'callbacks are scripted reactions made of dispatcher operations']
KINDS = ['add', 'add', 'remove', 'dispatch', 'dispatch', 'dispatch', 'drop', 'ishandler']


def generate(rng, tier):
    n = 400 if tier == 'quick' else 8000
    for i in range(n):
        if i % 8 == 5:
            yield gen_disp.gen_churn(rng)
            continue
        lines, objs, mapping_of = gen_disp.gen_universe(rng, max_classes=3, max_objs=5, mixins=False)
        lines += gen_disp.gen_reactions(rng, objs, mapping_of, ['drop', 'drop', 'remove', 'dispatch', 'add'],
                                        p=0.4, raise_p=0.05)
        if rng.random() < 0.3:
            lines.append(f'decoy {rng.randint(0, 999)}')      # a second dispatcher in the same process
        for o in objs:
            if rng.random() < 0.85:
                lines.append(f'op add {o}')
        for _ in range(rng.randint(1, 20)):
            lines.append('op ' + gen_disp.gen_op(rng, objs, KINDS))
        yield lines


def project(obs):
    return [o for o in obs if o.split()[0] in ('cb', 'ish', 'res', 'gone', 'hang', 'leak')]


def oracle(lines, obs):
    vs = [{'sig': 'C10:kept-alive', 'what': o} for o in obs if o.startswith('leak ')]
    return vs + spec_disp.compare('C10', spec_disp.expected(lines, obs), obs, project)


def nontrivial(lines, obs):
    return any('drop' in l for l in lines) and any(o.startswith('cb ') for o in obs)


# ---------------------------------------------------------------------------- "and therefore a World"
WORLD_CLAUSES = {'kept-alive', 'collected-while-attached', 'outcome', 'missing-callback', 'unexpected-callback',
                 'wrong-callback', 'registered-iff-attached', 'hang', 'shape', 'truncated'}


class _WorldStream:
    """World histories in which the program forgets objects (drops its own references) at arbitrary
    points: attached ones live on through the world and keep working, detached ones are collected - a
    postponed on_add / on_remove naming one still reaches it - and nothing raises."""
    MODEL = 'world'

    @staticmethod
    def generate(rng, n):
        from harness import gen_world
        for _ in range(n):
            yield gen_world.gen_scenario(
                rng, ops_range=(3, 18), n_comp=(1, 4), n_proc=(0, 2), handlers=0.9, ctrl=0.4, forget=0.3,
                clear_disabled=False,
                w=dict(enable=3, add=6, create=5, remove=5, delete=3, process=2, clear=0.3, dispatch=1, addproc=1,
                       rmproc=0.5))

    @staticmethod
    def project(obs):
        from harness.props import _world
        return [o for o in _world.norm_ret(obs)
                if o.split()[0] in ('cb', 'res', 'ret', 'get', 'row', 'exists', 'entities', 'procs', 'ish')]

    @staticmethod
    def oracle(lines, obs):
        from harness import spec_world
        out = []
        for v in spec_world.check(lines, obs):
            if v['sig'].split(':')[0] in WORLD_CLAUSES:
                out.append({'sig': 'C10:world:' + v['sig'], 'what': v['what']})
        return out

    @staticmethod
    def nontrivial(lines, obs):
        return any(o.startswith('alive ') and o.endswith(' 0') for o in obs) and \
            any(o.startswith('cb ') for o in obs)


def stream_for(lines):
    return _WorldStream if any(ln.startswith('class') and 'kind=' in ln for ln in lines) else None


def nonweak_probe():
    """Handlers that cannot be referenced weakly (`__slots__` without `__weakref__`): a dispatcher / World
    either refuses them or - if it takes them - still must not keep them alive.  Runner-level probe on the
    real code (such objects are outside the model: the unchanged library refuses them with TypeError)."""
    import gc
    import desper
    out = []
    for make in (desper.EventDispatcher, desper.World):
        finalised = []

        class Slotted:
            __slots__ = ('hits',)
            __events__ = {'ping': 'on_ping'}

            def __init__(self):
                self.hits = 0

            def on_ping(self, *a):
                self.hits += 1

            def __del__(self):
                finalised.append(1)
        d = make()
        h = Slotted()
        try:
            d.add_handler(h)
        except TypeError:
            continue            # refused: nothing is held
        d.dispatch('ping')
        hits = h.hits
        del h
        gc.collect()
        if not finalised:
            out.append(f'{make.__name__} accepted a handler that cannot be referenced weakly and keeps it alive '
                       f'after the program dropped it (it was called {hits} time(s) before)')
        d.dispatch('ping')
    return out


def extra_checks(ctx):
    import random
    for what in nonweak_probe():
        ctx.violations.append({'sig': 'C10:kept-alive', 'what': what, 'shrink': False,
                               'replay_cmd': 'python -c "from harness.props import C10; print(C10.nonweak_probe())"'})
    ctx.cov['nonweak_handler_probe'] = 'slotted handler: refused (TypeError) or held weakly - probed on EventDispatcher and World'
    from harness import core
    from harness.models import world as impl_world
    rng = random.Random(ctx.seed * 7907 + 10)
    n = 200 if ctx.tier == 'quick' else 1500
    corpus = sorted((core.VERIF / 'corpus' / 'C10' / 'world').glob('*.scn'))
    scen = [[ln for ln in f.read_text().splitlines() if ln.strip() and not ln.startswith('#')] for f in corpus] + \
        list(_WorldStream.generate(rng, n))
    divs, nontriv, impl_obs, _ = core.correspondence(ctx, _WorldStream, impl_world, scen, 'world')
    if divs:
        ctx.broken.append({'kind': 'correspondence', 'stream': 'world', 'count': len(divs), 'first': divs[0]})
    ctx.cov['world_stream'] = {
        'scenarios': n, 'nontrivial': len(nontriv),
        'forget_ops': sum(1 for s in scen for l in s if l.startswith('op forget')),
        'objects_collected': sum(1 for obs in impl_obs for o in set(obs) if o.startswith('alive ') and o.endswith(' 0')),
        'rule': 'seeded World histories (no raising callbacks) with `forget <object>` steps: the harness drops its '
                'reference and reports after every operation whether the object is still alive (weakref + '
                'gc.collect()); compared with the Lean world model and judged by the world statement plus '
                '"alive iff held as component/processor (or named by a postponed lifecycle callback)"'}


def stats(scenarios, impl_obs):
    return {'callbacks': sum(1 for obs in impl_obs for o in obs if o.startswith('cb ')),
            'drops_top': sum(1 for s in scenarios for l in s if l.startswith('op drop')),
            'drops_in_callbacks': sum(l.count('drop') for s in scenarios for l in s if l.startswith('react'))}
