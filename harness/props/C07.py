"""C07 — Processors run once per frame in priority order, one per type."""
from harness.props import _world

MODEL = _world.MODEL
ASSUMPTIONS = _world.ASSUMPTIONS
RULE = ('seeded random histories of add_processor / remove_processor / process over 1-6 processor classes '
        '(chains for removal by supertype, OnUpdateProcessor subclasses), class priorities and explicit '
        'priorities from {-3..2} to force ties, zero and negatives, handler processors with on_add/on_remove, '
        'dispatch toggles; observed: order and dt of Processor.process calls, World.processors, get_processor, '
        'processor.world, processor on_add/on_remove.  Non-trivial: a process() call reached >= 1 processor.')
TAGS = ('procs', 'gp', 'pw', 'cb', 'res', 'ret')
CLAUSES = {'process-calls', 'processor-lifecycle', 'processors-order', 'get_processor', 'processor-world',
           'remove-result', 'remove-matches-subtype', 'outcome', 'shape', 'truncated', 'hang',
           'unexpected-callback', 'missing-callback', 'wrong-callback'}
_W = dict(addproc=8, rmproc=3, process=5, create=1, add=1, remove=0.5, delete=0.5, clear=0.4, enable=1.5, dispatch=1)
_g = _world.make('C07', TAGS, CLAUSES, [
    dict(n_comp=(1, 2), n_proc=(1, 6), handlers=0.5, w=_W),
    # value-object processors (all instances of a class equal) and a second world in the same process
    dict(n_comp=(1, 2), n_proc=(2, 6), handlers=0.3, traits=0.8, decoy=0.6, w=_W),
    # processors whose on_add / on_remove / process raises half-way through an operation
    dict(n_comp=(0, 1), n_proc=(2, 6), handlers=0.9, raises=0.9, w={**_W, 'rmproc': 5, 'create': 0.5, 'add': 0.5}),
    # processors and components that call back into the same world (a processor removing itself mid-frame,
    # an on_remove handler of a swept entity removing or replacing a processor, ...)
    dict(n_comp=(1, 3), n_proc=(2, 5), handlers=0.9, reenter=0.95,
         w={**_W, 'create': 3, 'add': 3, 'delete': 3, 'remove': 1, 'process': 7}),
])
generate, project, oracle, _nt, stats = _g


def nontrivial(lines, obs):
    return any(o.startswith('cb ') and o.split()[2] == 'process' for o in obs)
