"""C06 — Type queries match exactly the subclasses, once each."""
from harness.props import _world

MODEL = _world.MODEL
ASSUMPTIONS = _world.ASSUMPTIONS + ['virtual subclasses (ABC.register) are invisible to the walk and out of scope']
RULE = ('seeded random class DAGs of 1-8 component classes and 0-5 processor classes with up to 3 bases each '
        '(rejecting what Python\'s C3 linearisation rejects, decided by creating the classes), random '
        'assignments of types to entities and all query types: get, get_component, has_component, '
        'remove_component, get_processor, remove_processor observed for every type of the hierarchy after '
        'every operation.  Non-trivial as for C01.')
TAGS = ('get', 'getall', 'has', 'gp', 'ret', 'res', 'procs')
CLAUSES = {'get', 'get-lists-pair-twice', 'has_component', 'get_component', 'get_processor', 'remove-result',
           'remove-matches-subtype', 'processors-order', 'outcome', 'shape', 'truncated', 'hang'}
generate, project, oracle, nontrivial, stats = _world.make(
    'C06', TAGS, CLAUSES, [
        dict(n_comp=(2, 8), n_proc=(0, 5), handlers=0.15,
             w=dict(remove=6, rmproc=3, addproc=4, delete=1, process=0.5, clear=0.2, enable=0.2, dispatch=0)),
        # value-object components / processors (equal, unhashable, falsy instances) and a second world of
        # the same classes doing other things in the same process
        dict(n_comp=(2, 7), n_proc=(0, 4), handlers=0.1, traits=0.8, decoy=0.6,
             w=dict(create=6, add=6, remove=5, rmproc=2, addproc=3, delete=1, process=0.5, clear=0.2, enable=0.2,
                    dispatch=0)),
        # create_entity given two components of one type (the later one wins)
        dict(n_comp=(2, 6), n_proc=(0, 2), handlers=0.15, dup_in_create=0.6,
             w=dict(create=8, remove=6, rmproc=1, addproc=1, delete=1, process=0.5, clear=0.2, enable=0.2,
                    dispatch=0)),
        # removals whose on_remove callback raises
        dict(n_comp=(2, 6), n_proc=(0, 3), handlers=0.8, raises=0.8,
             w=dict(remove=7, rmproc=3, addproc=4, delete=1, process=0.5, clear=0.2, enable=0.2, dispatch=0)),
        dict(n_comp=(2, 6), n_proc=(0, 3), handlers=0.9, reenter=0.95,
             w=dict(create=5, add=6, remove=6, rmproc=2, addproc=3, delete=3, process=1, clear=0.2, enable=0.2,
                    dispatch=0)),
    ])
