"""C18 — vector and matrix operations compute their textbook definitions.

Tie to the code: *translation*.  `pre_build` runs the tracing translator on the tree under test
and rewrites lean/DesperProofs/Generated/MathGen.lean (definitions the theorems of
lean/DesperProofs/Props/C18.lean are about) and lean/DesperModel/MathExec.lean (the same
definitions over `Rat`, linked into the driver).  The correspondence run of the pipeline then IS
the translator validation: the real functions on exact rationals against the compiled
translation, compared for equality; a disagreement that the oracle does not explain is a
translator bug (exit 2).  The oracle (harness/spec_math.py) is the textbook; it judges the
implementation's results and finds the concrete failing input when a theorem stops checking.
"""
from harness import core, gen_math, spec_math, translate_math

MODEL = 'math'
RULE = ('seeded: every public function of desper/math.py (static table harness/math_api.py, 114 entries) '
        'is called 30x (quick) / 3000x (thorough) in 12-line scenarios - polynomial functions exactly on '
        'rationals (small numerators/denominators, zeros, +-1, zero and axis vectors, identity / diagonal '
        '/ sparse / singular / near-singular matrices, degenerate projection boxes) AND on the exact domain '
        '(genuine Python ints beyond 2**53, Fractions with denominators 3 7 9 10 11 13 6 15, mixed; nothing '
        'converted; value and float contamination judged), sqrt/angle functions '
        'exactly under the stand-in interpretation (translator validation) and on floats of magnitude '
        '1e-3..1e3 (tolerance test, limit thresholds next to the length); 80 (quick) / 1500 (thorough) call '
        'SEQUENCES in one process: operand objects (plain lists) passed as right-hand / vector operands, edited in '
        'place between two identical products, shared across functions, and user number objects (`!v`) whose '
        'arithmetic calls back into desper.math; plus every attribute string of '
        'length 0..5 over xyzw+aX on Vec2, Vec3, Vec4 (3 x 9331 strings).  Non-trivial: the scenario '
        'has at least one call that returned a value with a non-zero entry; distinct by scenario text.')
ASSUMPTIONS = [
    'the theorems are over a field: int and float literals of math.py denote their exact values there.  What '
    'Python does with a float literal on EXACT arguments (it rounds them: Fraction * 1.0 is a float) is tracked '
    'by the translator (coverage.pre_build.float_contaminated, `<fn>.floats` in MathExec.lean), compared with '
    'the types the real functions return on genuine ints > 2**53 and non-dyadic Fractions, and judged by the '
    'oracle: an argument-dependent entry that comes back as a float, or differs from the textbook value, is a '
    'violation (`calle` lines).  For functions that divide, the exact domain is the Fractions (int / int is '
    "Python's float division)",
    'IEEE rounding of the sqrt/angle operations is only TESTED (rel. tol. 1e-9, inputs 1e-3..1e3)',
    'in the generic Lean definitions x/0 = 0; Python raises ZeroDivisionError there (executed and compared '
    'as a call status; theorems that divide carry explicit non-zero hypotheses)',
    'assert statements (tuple lengths, `abs(n) <= 1` in Mat4.rotate) are preconditions',
    'math.sqrt/sin/cos/tan/atan2/radians/pi are read as Real.sqrt/sin/cos/tan, Complex.arg(x+iy), x*pi/180, '
    'Real.pi (the _math shim of the translator); atan2 of negative zero is outside the model',
]
TIE = ('translation: harness/translate_math.py traces the real desper/math.py functions on symbolic '
       'scalars on every run and regenerates the Lean definitions the theorems are stated about; '
       'validated on every run by executing the Rat version in the driver against the real functions '
       'on exact rationals (equality) - the correspondence counts of this evidence file')
TRUSTED = [
    'translator (harness/translate_math.py): Sym operator semantics (+ - * / ** neg, comparisons, truth '
    'value of a number = "!= 0"), the decision-vector enumerator, the _math/_warnings shims, the shape '
    '(letter table + class by length) assumed for __getattr__ beyond length 5 / other foreign letters',
    'the statements in lean/DesperProofs/Props/C18.lean say what the English property says (textbook '
    'definitions are written there, or are Mathlib Matrix / det / Real.sqrt / Complex.arg)',
    'floating point: not modelled; tested only',
]

_STATE = {}


def _build_driver():
    with core.BuildLock():
        rc, out = core._run(['lake', 'build', 'driver'], core.LEAN)
    if rc != 0:
        raise core.MachineryError('driver build failed after regenerating MathExec.lean '
                                  '(translator emitted Lean that does not compile):\n' + out[-3000:])


def pre_build():
    try:
        inv = translate_math.run()
    except Exception as e:      # noqa: BLE001
        raise core.MachineryError(f'translator failed: {type(e).__name__}: {e}')
    _STATE['inv'] = inv
    # the driver must carry the translation of the tree under test even when a theorem of
    # Props/C18.lean no longer compiles (the failing-input search and the replay use it)
    _build_driver()
    return {k: inv[k] for k in ('source', 'source_sha1', 'functions_traced', 'always_raise',
                                'untranslatable', 'paths', 'preconditions', 'purity', 'float_contaminated', 'float_for_int_arguments', 'not_attempted', 'swizzle',
                                'swizzle_untranslatable', 'rewrote_MathGen', 'rewrote_MathExec')} | {
        'translated': len(inv['translated']), 'transcendental': len(inv['transcendental'])}


def generate(rng, tier):
    return gen_math.generate(rng, tier)


def project(obs):
    out = []
    for o in obs:
        t = o.split()
        if t and t[0] == 'rf':
            out.append(' '.join(t[:2]))          # floats are judged by the oracle only
        elif t and t[0] == 're':
            # exact-domain run: exact entries are compared for equality, for an entry that came back
            # as a float only the fact is compared (model: `<fn>.floats`); its value is the oracle's
            out.append(' '.join('~' if x.startswith('~') else x for x in t))
        else:
            out.append(o)
    return out


def oracle(lines, obs):
    return spec_math.oracle(lines, obs)


def _has_value(o):
    t = o.split()
    if 'raised' in t or not t or t[0] not in ('r', 'rx', 'rf'):
        return False
    vals = t[5:] if t[1] == 'swz' else t[3:]
    return any(v not in ('0', '0.0', '-0.0', 'warn') for v in vals)


def nontrivial(lines, obs):
    return any(_has_value(o) for o in obs)


def stats(scenarios, impl_obs):
    per, raised, warn, modes = {}, {}, 0, {}
    calls = 0
    for lines, obs in zip(scenarios, impl_obs):
        for ln, o in zip(lines, obs):
            t, u = ln.split(), o.split()
            if t[0] in ('obj', 'set'):
                modes[t[0]] = modes.get(t[0], 0) + 1
                continue
            calls += 1
            if any(x.startswith('@') for x in t):
                modes['call-with-object-operand'] = modes.get('call-with-object-operand', 0) + 1
            if any(x.startswith('!') for x in t):
                modes['call-with-reentrant-number'] = modes.get('call-with-reentrant-number', 0) + 1
            modes[t[0]] = modes.get(t[0], 0) + 1
            name = t[1] + '.swizzle' if t[0] == 'swz' else t[1]
            per[name] = per.get(name, 0) + 1
            if 'raised' in u:
                k = u[u.index('raised') + 1]
                raised[k] = raised.get(k, 0) + 1
            if u and u[-1] == 'warn':
                warn += 1
    _STATE['calls'] = calls
    return {'calls': calls, 'by_mode': modes, 'functions_called': len(per),
            'min_calls_per_function': min(per.values()) if per else 0,
            'raised': raised, 'singular_inverse_warnings': warn}


def extra_checks(ctx):
    inv = _STATE.get('inv', {})
    div = [b for b in ctx.broken if b['kind'] == 'correspondence']
    ctx.cov['translator_validation'] = {
        'calls_compared_exactly': _STATE.get('calls', 0),
        'scenarios_disagreeing': div[0]['count'] if div else 0,
        'how': 'real desper.math on exact rationals vs. compiled MathExec.lean (driver), equality; '
               'swizzle: all 3 x 9331 strings',
    }
    # purity obligation of the translation: a function that keeps state between calls is not
    # described by the trace of one call - a broken obligation (the search for a failing input
    # follows; the sequence scenarios exercise exactly such state)
    pur = inv.get('purity', {})
    if pur.get('broken_named'):
        ctx.broken.append({'kind': 'purity obligation of the translation', 'entries': pur['broken_named'],
                           'impure_functions': pur['impure_functions'],
                           'state_objects': pur['state_objects']})
    if ctx.violations:
        return          # the oracle explains what is wrong with the implementation: a finding
    if pur.get('broken_named'):
        return          # impure code: a disagreement with the one-call translation is to be expected
    gen_broken = [t for b in ctx.broken if b['kind'] == 'proof' for t in b.get('theorems', [])
                  if 'Generated/MathGen.lean' in t or 'MathExec.lean' in t]
    if gen_broken:
        raise core.MachineryError('the translator emitted Lean that does not compile (%s) and the oracle '
                                  'finds nothing wrong with the implementation' % gen_broken)
    if div:
        d = div[0]['first']
        raise core.MachineryError(
            'translator validation failed: the translated definitions (MathExec.lean) and the real '
            'functions disagree on %d scenario(s) although the oracle accepts the implementation; '
            'first: impl %s / model %s in scenario %s' % (div[0]['count'], d['impl'], d['model'],
                                                         d['scenario'][:3]))
    bad = {k: v for k, v in inv.get('untranslatable', {}).items()}
    bad.update(inv.get('swizzle_untranslatable', {}))
    if bad:
        raise core.MachineryError('the translator cannot follow these functions of the tree under test '
                                  '(and the oracle finds nothing wrong with them): %s' % bad)


def replay(lines):
    """`./check C18 --replay f`: regenerate + rebuild the driver for the tree under test first."""
    pre_build()
    model_mod = __import__('harness.models.math', fromlist=['run_impl'])
    obs, _ = core.run_impl_guarded(model_mod, lines)
    mobs = core.run_driver(MODEL, [lines])[0]
    print('--- scenario'); print('\n'.join(lines))
    print('--- implementation'); print('\n'.join(obs))
    print('--- model (translation of the tree under test)'); print('\n'.join(mobs))
    vs = oracle(lines, obs)
    print('--- oracle on implementation:', vs or 'holds')
    if vs:
        print('VIOLATION property=C18 replay=<this file>')
        return 1
    if project(obs) != project(mobs):
        print('translator validation: implementation and translation disagree')
        return 2
    return 0
