"""C08 — coroutines advance one step per frame and wake exactly on time."""
from harness import gen_coro, spec_coro


def kind_of(o):
    """first token of an observation line, past the instance mark `@k`"""
    t = o.split()
    return t[1] if t[0].startswith('@') and len(t) > 1 else t[0]

MODEL = 'coro'
RULE = ('seeded random schedules: 1-6 generator scripts of 2-14 yields (waits from {None, 0, -1/8, -1, '
        '1/8 .. 4 s}, in units of 1/8 s), started before or between frames, 20-60 process calls with dt '
        'from {0, 1/8 .. 2 s} (uneven); plus families with lifecycle traffic, observed through the same '
        'step log: 2-4 coroutines sleeping to the SAME deadline with kill+start of waiting ones, bodies '
        'that kill themselves with others queued behind them, bodies that leave with an exception '
        '(Quit / SwitchWorld / errors) after which the caller keeps calling process(), random start/kill '
        'histories; the same schedules with waits and dt written as fractions.Fraction / int / bool instead of '
        'float (exact values, same numbers); two or three CoroutineProcessor instances living side by side, '
        'driven interleaved with different dt, each judged on its own (non-interference); plus the '
        'hand-written corpus.  Non-trivial: at least one coroutine '
        'woke from a positive wait; distinct by hash of the scenario text.')
ASSUMPTIONS = ['waits and dt are multiples of 1/8 s (exactly representable, as the property stipulates), given as '
               'float, fractions.Fraction, int or bool; decimal.Decimal is NOT generated: the unchanged code adds '
               'it to its float clock and raises TypeError out of process() (reported, see report of round 3)',
               'generator bodies terminate, do not call process() themselves and yield None or numbers; '
               'a body may leave with an exception: that call is excused for the coroutines still owed a '
               'step; from the next call on everybody runnable is owed exactly one step again, in the order '
               'kept so far (D31, fixed by 79d5dfb)']
TIE = ('correspondence check: the Lean model lean/DesperModel/Coro.lean and the real CoroutineProcessor '
       'run the same generated schedules (real generator objects interpreting the scripts); compared: '
       'which bodies execute in which process call and in which order')


def generate(rng, tier):
    n = 600 if tier == 'quick' else 6000
    for _ in range(n):
        yield gen_coro.gen_timing(rng, tier)
    # "whatever other coroutines are waiting for", kills and restarts included; bodies that kill
    # themselves with others queued behind them; bodies that leave with an exception
    for _ in range(n // 3):
        yield gen_coro.gen_same_wait(rng, tier)
    for _ in range(n // 3):
        yield gen_coro.gen_raise(rng, tier)
    for _ in range(n // 4):
        yield gen_coro.gen_self_kill(rng, tier)
    for _ in range(n // 4):
        yield gen_coro.gen_lifecycle(rng, tier)
    # supervisor coroutines: bodies acting on OTHER coroutines, then waiting / yielding / returning
    for _ in range(n // 3):
        yield gen_coro.gen_supervisor(rng, tier)
    # the same values in other numeric types (Fraction, int, bool): a number is a number
    for _ in range(n // 3):
        yield gen_coro.retype(rng, gen_coro.gen_timing(rng, tier))
    # several processors in one program, each with its own clock
    for _ in range(n // 4):
        yield gen_coro.gen_two_clocks(rng, tier)
    # frames that add up to a hair less than the wait (units of 2**-30 s): "never earlier" has no tolerance
    for _ in range(n // 6):
        yield gen_coro.gen_near_miss(rng, tier)
    for _ in range(n // 8):
        yield gen_coro.retype(rng, gen_coro.with_decoy(rng, gen_coro.gen_same_wait(rng, tier),
                                                        gen_coro.gen_raise(rng, tier)), 0.3)


def project(obs):
    return [o for o in obs if kind_of(o) in ('step', 'res', 'hang')]


def oracle(lines, obs):
    return spec_coro.compare('C08', lines, obs, project)


def nontrivial(lines, obs):
    lines = [ln for ln in lines if not ln.startswith('@')]      # judged on instance 0
    obs = [o for o in obs if not o.startswith('@')]
    # a positive wait was yielded and the coroutine ran again later
    seen = set()
    for o in obs:
        t = o.split()
        if t[0] == 'step':
            if (t[1], 'w') in seen:
                return True
            g, i = int(t[1]), int(t[2])
            sc = [ln for ln in lines if ln.startswith(f'gen {g} :')][0].split(':', 1)[1].split('|')
            last = sc[i].split(';')[-1].split()
            if last[0] == 'yield' and last[1] != 'N' and int(last[1].lstrip('FIB')) > 0:
                seen.add((t[1], 'w'))
    return False


def stats(scenarios, impl_obs):
    return {'process_calls': sum(1 for s in scenarios for ln in s if ln.startswith('op process')),
            'steps_executed': sum(1 for obs in impl_obs for o in obs if o.startswith('step ')),
            'generators': sum(1 for s in scenarios for ln in s if ln.startswith('gen '))}
