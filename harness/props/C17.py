"""C17 — a static resource map is a faithful, immutable mirror."""
from harness import gen_tree, spec_tree, spec_poptree

MODEL = 'tree'
RULE = ('seeded random resource trees (depth <= 4, identifier names incl. keywords and __private names, '
        'non-identifier names: empty, dotted, leading digit, dashes; layered handles; re-used values), a '
        'snapshot, then 3-22 steps: the same path through snapshot[..], snapshot.attr and the map itself, '
        'snapshot.get chains, setattr/delattr on the snapshot and its sub-maps (existing and absent names), '
        'further changes of the source map, more snapshots; the snapshot is probed with get() over the '
        'whole alphabet to depth 4 after every attempt to change it.  Non-trivial: a snapshot was taken and '
        'read at least once.')
RULE += ('  Maps with a key delimiter other than "/" (subclass / instance attribute) holding names that contain '
         '"/"; handles and maps with value equality / unhashable / falsy.')
ASSUMPTIONS = ['no name equals a member of StaticResourceMap (get, _handle_names, __dunder__ names): the '
               'property excludes them; such accesses are answered `unmodelled` on both sides',
               'a path is a chain of single names (the snapshot has no composite-key lookup)']
TIE = ('hand-written heap model lean/DesperModel/Tree.lean (snapshot, sGetAttr1, sGet1, sSetAttr/sDelAttr), '
       'correspondence-checked against desper/model/tree.py on every run')
KEEP = {'sitem', 'sgot', 'snode', 'end-sdump', 'sres', 'sunbound', 'unmodelled', 'item', 'stat'}


def generate(rng, tier):
    n = 1000 if tier == 'quick' else 15000
    for _ in range(n):
        yield gen_tree.gen_c17(rng)


def project(obs):
    return [o for o in obs if o.split()[0] in KEEP]


oracle = spec_tree.oracle_for('C17')


def nontrivial(lines, obs):
    return 'sres ok' in obs and any(o.startswith(('sitem', 'sgot', 'snode')) for o in obs)


def stats(scenarios, impl_obs):
    ops = [ln.split()[1] for s in scenarios for ln in s if ln.startswith('op ')]
    d = {k: ops.count(k) for k in sorted(set(ops))}
    d['snapshot_nodes_seen'] = sum(1 for obs in impl_obs for o in obs if o.startswith('snode'))
    d['immutability_attempts'] = sum(1 for obs in impl_obs for o in obs if o.startswith('sres raised'))
    d['absent_lookups'] = sum(1 for obs in impl_obs for o in obs
                              if o.startswith(('sitem raised', 'sgot raised')))
    return d


# ---------------------------------------------------------------------------- snapshots of trees built by the populator
class _PopStream(spec_poptree.Stream):
    """a snapshot of a populated map (name clashes between directories and trimmed files, handles in several
    layers, repeated population) answers like the map itself"""
    PID = 'C17'
    STATIC = True
    KEEP = ('sitem', 'sgot', 'snode', 'end-sdump', 'sres', 'sunbound', 'unmodelled', 'item', 'got', 'res')


def stream_for(lines):
    return _PopStream if spec_poptree.is_pop_scenario(lines) else None


def extra_checks(ctx):
    spec_poptree.run_stream(
        ctx, _PopStream, 200 if ctx.tier == 'quick' else 3000,
        'the C16 scenarios with, after every population, a snapshot of the populated map: its content probed with '
        'get() against the dump of the map, and the keys of files and directories (with and without extension, '
        'absent ones) through m.get / snapshot.get and m[..][..] / snapshot[..] / snapshot.attr side by side')

