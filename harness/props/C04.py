"""C04 — disabled dispatchers defer events and release them once, in order."""
from harness import gen_disp, spec_disp

MODEL = 'disp'
RULE = ('seeded random scenarios: 1-4 handler objects, interleavings of dispatch / enable / disable / '
        'add / remove, 1-8 events queued while disabled, and a fault (scripted `raise` or nested '
        '`enable 0`, optionally followed by further dispatches) injected at a chosen delivery position; '
        'for every base scenario every delivery position of the release is injected in turn (fault '
        'enumeration), followed by repeated enable attempts.  Non-trivial: at least one event was queued '
        'while disabled and at least one callback delivered; distinct by hash of the scenario text.')
ASSUMPTIONS = ['callbacks are scripted reactions made of dispatcher operations; user programs terminate',
               'events dispatched while disabled whose name has no listener at that moment are left '
               'unconstrained by the statement; the model mirrors the code there']


def base(rng):
    lines, objs, mapping_of = gen_disp.gen_universe(rng, max_classes=3, max_objs=4, mixins=False)
    if rng.random() < 0.35:
        lines.append(f'decoy {rng.randint(0, 999)}')      # a second dispatcher in the same process
    ops = [f'add {o}' for o in objs if rng.random() < 0.85]
    if rng.random() < 0.3:
        ops.append(gen_disp.gen_op(rng, objs, ['dispatch']))
    ops.append('enable 0')
    for _ in range(rng.randint(1, 8)):
        ops.append(gen_disp.gen_op(rng, objs, ['dispatch', 'dispatch', 'dispatch', 'dispatch', 'add',
                                                'remove', 'enable']))
    ops.append('enable 1')
    for _ in range(rng.randint(0, 4)):
        ops.append(gen_disp.gen_op(rng, objs, ['dispatch', 'enable', 'enable', 'add', 'remove']))
    if rng.random() < 0.3:
        # clear() (possibly after an interrupted release), then a fresh batch of deferred events
        ops.append('clear')
        ops += [f'add {o}' for o in objs if rng.random() < 0.8]
        ops += [gen_disp.gen_op(rng, objs, ['dispatch'])] + ['enable 0']
        ops += [gen_disp.gen_op(rng, objs, ['dispatch']) for _ in range(rng.randint(1, 4))]
    ops += ['enable 1', 'enable 1']
    return lines, objs, mapping_of, ops


def generate(rng, tier):
    n = 120 if tier == 'quick' else 2500
    for _ in range(n):
        lines, objs, mapping_of, ops = base(rng)
        body = ['op ' + o for o in ops]
        yield lines + body                                   # fault-free
        slots = [(o, m, k) for o, c in objs.items() for m in sorted(set(mapping_of[c].values()))
                 for k in range(4)]
        rng.shuffle(slots)
        for (o, m, k) in slots[:6 if tier == 'quick' else 12]:
            kind = rng.random()
            if kind < 0.4:
                react = f'raise {rng.choice(["Quit", "SwitchWorld", "E0"])}'
            elif kind < 0.8:
                react = 'enable 0'
                if rng.random() < 0.4:
                    react += ' ; ' + gen_disp.gen_op(rng, objs, ['dispatch'])
                if rng.random() < 0.2:
                    react += ' ; enable 1'
            else:
                react = gen_disp.gen_op(rng, objs, ['dispatch']) + ' ; enable 0 ; raise Quit'
            yield lines + [f'react {o} {m} {k} : {react}'] + body


def project(obs):
    return [o for o in obs if o.split()[0] in ('cb', 'res', 'gone', 'hang')]


def oracle(lines, obs):
    return spec_disp.compare('C04', spec_disp.expected(lines, obs), obs, project)


def nontrivial(lines, obs):
    return any(o.startswith('cb ') for o in obs) and any(l == 'op enable 0' for l in lines)


def stats(scenarios, impl_obs):
    return {'callbacks': sum(1 for obs in impl_obs for o in obs if o.startswith('cb ')),
            'ops_raised': sum(1 for obs in impl_obs for o in obs if o.startswith('res raised')),
            'with_fault': sum(1 for s in scenarios if any(l.startswith('react') for l in s)),
            'hangs': sum(1 for obs in impl_obs if obs == ['hang'])}
