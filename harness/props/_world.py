"""Shared parts of the World property plug-ins."""
from harness import gen_world, spec_world

MODEL = 'world'
ASSUMPTIONS = ['lifecycle callbacks and processors log, may raise on script and may call world.delete_entity(e) '
               '(deferred) on script; they make no other call back into the world - general re-entrant '
               'callbacks are covered by the dispatcher model (C03/C04/C10)',
               'an instance is attached to at most one entity at a time (generator respects it; the model '
               'mirrors the code in either case)',
               'class hierarchies carry __events__ along a single lineage',
               'default id generator count(1); custom id generator factories are outside the model']


def norm_ret(obs):
    """a call that raised has no return value (the model prints the value it was about to return)"""
    return ['ret -' if o.startswith('ret ') and i and obs[i - 1].startswith('res raised') else o
            for i, o in enumerate(obs)]


def make(pid, tags, clauses, gen_kwargs, quick=300, thorough=2000):
    def generate(rng, tier):
        # several parameter sets are used in turn (e.g. a family with raising callbacks)
        families = gen_kwargs if isinstance(gen_kwargs, (list, tuple)) else [gen_kwargs]
        for i in range(quick if tier == 'quick' else thorough):
            fam = families[i % len(families)]
            if fam.get('reenter') and rng.random() < 0.5:
                yield gen_world.gen_reentrant_targeted(rng)
            else:
                yield gen_world.gen_scenario(rng, **fam)

    def project(obs):
        return [o for o in norm_ret(obs) if o.split()[0] in tags]

    def oracle(lines, obs):
        vs = spec_world.check(lines, obs)
        out = []
        for v in vs:
            clause = v['sig'].split(':')[0]
            if clauses is None or clause in clauses:
                out.append({'sig': f'{pid}:{v["sig"]}', 'what': v['what']})
        return out

    def nontrivial(lines, obs):
        return sum(1 for l in lines if l.startswith('op ') and l != 'op snap') >= 2 and \
            any(o.startswith('get ') and not o.endswith(' -') for o in obs)

    def stats(scenarios, impl_obs):
        from collections import Counter
        c = Counter(l.split()[1] for s in scenarios for l in s if l.startswith('op '))
        r = Counter(o for obs in impl_obs for o in obs if o.startswith('res raised'))
        return {'ops': dict(c), 'raised': dict(r),
                'callbacks': sum(1 for obs in impl_obs for o in obs if o.startswith('cb ')),
                'classes': sum(1 for s in scenarios for l in s if l.startswith('class '))}
    return generate, project, oracle, nontrivial, stats
