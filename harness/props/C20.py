"""C20 — Transform setters notify listeners with the value that was stored."""
from harness import gen_disp

MODEL = 'spatial'
RULE = ('seeded random scenarios: 1-3 transforms (2D and 3D, default or explicit constructor values), 0-3 '
        'listeners per event with arbitrary event->method mappings, 1-25 assignments of position/rotation/'
        'scale (rotations from {-725,-360,-0.5,0,359.5,360,370,1080,...} in half-degree units, random int '
        'vectors), dispatch toggles, every field of every transform read back after every assignment.  '
        'Non-trivial: an assignment notified at least one listener; distinct by scenario hash.')
ASSUMPTIONS = ['rotations are multiples of 1/2 degree (exactly representable floats): float `%` rounding is '
               'not modelled', 'listeners are passive (their callbacks do not touch the transform)']
EVENTS = ['on_position_change', 'on_rotation_change', 'on_scale_change']
ROTS = [-1450, -720, -1, 0, 719, 720, 740, 2160, 1, 361, -359, 100000, -100001]
FIELDS = ['position', 'rotation', 'scale']


def vec(rng, dim):
    return 'p' + '_'.join(str(rng.randint(-3, 9)) for _ in range(dim))


def generate(rng, tier):
    n = 300 if tier == 'quick' else 6000
    for _ in range(n):
        lines = []
        ncls = rng.randint(1, 3)
        for c in range(ncls):
            names = rng.sample(EVENTS, rng.randint(0, 2))
            kw = {e: rng.choice(['m0', 'm1']) for e in rng.sample(EVENTS, rng.randint(0 if names else 1, 2))}
            lines.append('class %d bases=- names=%s kw=%s' % (
                c, ','.join(names) or '-', ','.join(f'{k}:{v}' for k, v in kw.items()) or '-'))
        nobj = rng.randint(0, 4)
        for o in range(nobj):
            lines.append(f'obj {o} class={rng.randrange(ncls)} hash={rng.randint(0, 3)}')
        dims = []
        for i in range(rng.randint(1, 3)):
            dim = rng.choice([2, 3])
            dims.append(dim)
            p = vec(rng, dim) if rng.random() < 0.4 else '-'
            r = (str(rng.choice(ROTS)) if dim == 2 else vec(rng, 3)) if rng.random() < 0.5 else '-'
            s = vec(rng, dim) if rng.random() < 0.4 else '-'
            lines.append(f'transform {dim} {p} {r} {s}')
        for i in range(len(dims)):
            for f in FIELDS:
                lines.append(f'top {i} read {f}')
            for o in range(nobj):
                if rng.random() < 0.6:
                    lines.append(f'top {i} add {o}')
        for _ in range(rng.randint(1, 25)):
            i = rng.randrange(len(dims))
            k = rng.random()
            if k < 0.7:
                f = rng.choice(FIELDS)
                if f == 'rotation' and dims[i] == 2:
                    v = str(rng.choice(ROTS) if rng.random() < 0.7 else rng.randint(-3000, 3000))
                else:
                    v = vec(rng, dims[i] if f != 'rotation' else 3)
                lines.append(f'top {i} set {f} {v}')
                for j in range(len(dims)):
                    for g in FIELDS:
                        lines.append(f'top {j} read {g}')
            elif k < 0.8 and nobj:
                lines.append(f'top {i} {rng.choice(["add", "remove"])} {rng.randrange(nobj)}')
            elif k < 0.9:
                lines.append(f'top {i} enable {rng.randint(0, 1)}')
            else:
                lines.append(f'top {i} enable 1')
        yield lines


def project(obs):
    return [o for o in obs if len(o.split()) > 1 and o.split()[1] in ('cb', 'val', 'res')] + \
        [o for o in obs if o.split()[0] in ('res', 'hang', 'bad-hint')]


def oracle(lines, obs):
    """Statement of C20 over the implementation's observations (passive listeners):
    a set while enabled -> exactly one callback per registered listener of the matching event, each
    carrying the value a read returns right afterwards; reads of other fields/transforms unchanged."""
    from harness import spec_disp
    # per transform abstract state
    classes = {}
    objcls = {}
    ts = []
    vs = []
    it = iter(obs)
    pos = 0
    obs = [o for o in obs if not o.startswith('events ')]

    def take(prefix):
        nonlocal pos
        out = []
        while pos < len(obs) and obs[pos].startswith(prefix + ' cb '):
            out.append(obs[pos].split())
            pos += 1
        return out
    for ln in lines:
        t = ln.split()
        if t[0] == 'class':
            d = dict(x.split('=', 1) for x in t[2:])
            m = {n: n for n in spec_disp.split_list(d['names'])}
            m.update(p.split(':') for p in spec_disp.split_list(d['kw']))
            classes[int(t[1])] = m
        elif t[0] == 'obj':
            objcls[int(t[1])] = int(t[2].split('=')[1])
        elif t[0] == 'transform':
            dim = int(t[1])
            z, o = ('p0_0', 'p1_1') if dim == 2 else ('p0_0_0', 'p1_1_1')
            rot = t[3] if t[3] != '-' else ('0' if dim == 2 else 'p0_0_0')
            if dim == 2:
                rot = str(int(rot) % 720)
            ts.append({'dim': dim, 'position': t[2] if t[2] != '-' else z, 'rotation': rot,
                       'scale': t[4] if t[4] != '-' else o, 'reg': {}, 'enabled': True, 'queue': [],
                       'known': set()})
        elif t[0] == 'top':
            i = int(t[1])
            T = ts[i]
            pre = f't{i}'
            op = t[2]
            if op == 'read':
                want = f'{pre} val {T[t[3]]}'
                got = obs[pos] if pos < len(obs) else '<end>'
                pos += 1
                if got != want:
                    return [{'sig': 'C20:wrong-stored-value', 'what': f'`{ln}`: required `{want}`, got `{got}`'}]
                continue
            expected = []      # list of (event, value) deliveries required now, in order

            def deliver(ev, val):
                return sorted((str(o), m[ev], val) for o, m in T['reg'].items() if ev in m)
            if op == 'set':
                f, v = t[3], t[4]
                sv = str(int(v) % 720) if (f == 'rotation' and T['dim'] == 2) else v
                T[f] = sv
                ev = f'on_{f}_change'
                if ev in T['known']:
                    if T['enabled']:
                        expected.append(deliver(ev, sv))
                    else:
                        T['queue'].append((ev, sv))
            elif op == 'add':
                T['reg'][int(t[3])] = classes[objcls[int(t[3])]]
                T['known'].update(classes[objcls[int(t[3])]])
            elif op == 'remove':
                T['reg'].pop(int(t[3]), None)
            elif op == 'enable':
                T['enabled'] = bool(int(t[3]))
                if T['enabled']:
                    while T['queue']:
                        ev, sv = T['queue'].pop(0)
                        expected.append(deliver(ev, sv))
            got = take(pre)
            k = 0
            for group in expected:
                g = sorted((x[2], x[3].split('@')[0], x[4]) for x in got[k:k + len(group)])
                if g != group:
                    kind = 'notified-value-differs-from-stored' if sorted(x[:2] for x in g) == sorted(
                        x[:2] for x in group) else 'wrong-listeners-notified'
                    return [{'sig': f'C20:{kind}', 'what': f'`{ln}`: required callbacks {group}, got {g}'}]
                k += len(group)
            if k != len(got):
                return [{'sig': 'C20:wrong-listeners-notified',
                         'what': f'`{ln}`: unexpected extra callbacks {got[k:]}'}]
            res = obs[pos] if pos < len(obs) else '<end>'
            pos += 1
            if res != f'{pre} res ok':
                return [{'sig': 'C20:setter-raised', 'what': f'`{ln}`: got `{res}`'}]
    return vs


def nontrivial(lines, obs):
    return any(' cb ' in o for o in obs) and any(' set ' in l for l in lines)


def stats(scenarios, impl_obs):
    return {'sets': sum(1 for s in scenarios for l in s if ' set ' in l),
            'rotation_sets_2d_out_of_range': sum(1 for s in scenarios for l in s if ' set rotation ' in l
                                                 and not l.split()[-1].startswith('p')
                                                 and not 0 <= int(l.split()[-1]) < 720),
            'callbacks': sum(1 for obs in impl_obs for o in obs if ' cb ' in o),
            'transforms': sum(1 for s in scenarios for l in s if l.startswith('transform'))}
