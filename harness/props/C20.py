"""C20 — Transform setters notify listeners with the value that was stored."""
from harness import gen_disp

MODEL = 'spatial'
RULE = ('seeded random scenarios: 1-3 transforms (2D and 3D, default or explicit constructor values), 0-3 '
        'listeners per event with arbitrary event->method mappings (half of the scenarios: class hierarchies '
        'with inherited/overridden mappings and methods, listeners that raise / leave / toggle dispatching '
        'from inside a callback), 1-25 assignments of position/rotation/'
        'scale (rotations from {-725,-360,-0.5,0,359.5,360,370,1080,...} in half-degree units, random int '
        'vectors), dispatch toggles, every field of every transform read back after every assignment.  '
        'Non-trivial: an assignment notified at least one listener; distinct by scenario hash.')
ASSUMPTIONS = ['rotations are multiples of 1/2 degree (exactly representable floats): float `%` rounding is '
               'not modelled', 'listener callbacks are scripted reactions: they may raise, add or remove '
               'listeners and toggle dispatching of the transform they listen to; they do not assign its '
               'properties']
EVENTS = ['on_position_change', 'on_rotation_change', 'on_scale_change']
ROTS = [-1450, -720, -1, 0, 719, 720, 740, 2160, 1, 361, -359, 100000, -100001]
FIELDS = ['position', 'rotation', 'scale']


def vec(rng, dim):
    # a Vec (p), a plain tuple (t) or a list (l): whatever is assigned is what is stored and notified
    # (now and then an integer no float can hold: stored and notified values are the given ones, not roundings)
    comp = lambda: str(rng.choice([2 ** 53 + 1, -(2 ** 53) - 3, 10 ** 17 + 7]) if rng.random() < 0.06
                       else rng.randint(-3, 9))    # noqa
    return rng.choice('ppptl') + '_'.join(comp() for _ in range(dim))


def generate(rng, tier):
    n = 300 if tier == 'quick' else 6000
    for _ in range(n):
        lines = []
        spare = None
        if rng.random() < 0.5:
            ncls = rng.randint(1, 3)
            for c in range(ncls):
                names = rng.sample(EVENTS, rng.randint(0, 2))
                kw = {e: rng.choice(['m0', 'm1']) for e in rng.sample(EVENTS, rng.randint(0 if names else 1, 2))}
                lines.append('class %d bases=- names=%s kw=%s' % (
                    c, ','.join(names) or '-', ','.join(f'{k}:{v}' for k, v in kw.items()) or '-'))
            nobj = rng.randint(0, 4)
            for o in range(nobj):
                lines.append(f'obj {o} class={rng.randrange(ncls)} hash={rng.randint(0, 3)}')
        else:
            # listener class hierarchies (inherited / extended / overridden mappings, subclasses that
            # redefine a callback method) and listeners that raise, leave or switch notification off
            # from inside a callback
            lines, objs, mapping_of = gen_disp.gen_universe(rng, max_classes=4, max_objs=4, mixins=False,
                                                            evs=EVENTS)
            nobj = len(objs)
            if rng.random() < 0.7:
                lines += gen_disp.gen_reactions(rng, objs, mapping_of, ['add', 'remove', 'enable'],
                                                p=0.3, raise_p=0.6)
            if rng.random() < 0.4:
                # a listener that, from inside its callback, makes the transform notify again (what assigning
                # another property of the same transform from a callback comes to for the dispatcher)
                o = rng.choice(list(objs))
                ms = sorted(set((mapping_of[objs[o]] or {}).values()))
                if ms:
                    lines.append(f'react {o} {rng.choice(ms)} {rng.randint(0, 1)} : dispatch {rng.choice(EVENTS)} _')
            # spare listeners for the churn block below (created only when first used)
            spare = [nobj + j for j in range(3)]
            hc = next(iter(objs.values()))
            lines += [f'obj {x} class={hc} hash={rng.randint(0, 3)}' for x in spare]
        dims = []
        for i in range(rng.randint(1, 3)):
            dim = rng.choice([2, 3])
            dims.append(dim)
            # (the constructors rebuild vectors from the components they are given - Vec2(*position) -: a tuple
            # or list given at construction reads back as the vector of its components)
            p = vec(rng, dim) if rng.random() < 0.4 else '-'
            r = (str(rng.choice(ROTS)) if dim == 2 else vec(rng, 3)) if rng.random() < 0.5 else '-'
            s = vec(rng, dim) if rng.random() < 0.4 else '-'
            lines.append(f'transform {dim} {p} {r} {s}')
        for i in range(len(dims)):
            for f in FIELDS:
                lines.append(f'top {i} read {f}')
            for o in range(nobj):
                if rng.random() < 0.6:
                    lines.append(f'top {i} add {o}')
        churn_at = rng.randint(0, 6) if spare and rng.random() < 0.5 else -1
        for step in range(rng.randint(1, 25)):
            i = rng.randrange(len(dims))
            if step == churn_at:
                # short-lived listeners followed by fresh ones on the same transform
                for a, b in zip(spare, spare[1:]):
                    lines += [f'top {i} add {a}', f'top {i} drop {a}', f'top {i} add {b}']
                    f = rng.choice(['position', 'scale'])
                    lines.append(f'top {i} set {f} {vec(rng, dims[i])}')
                    lines += [f'top {i} read {g}' for g in FIELDS]
            k = rng.random()
            if k < 0.7:
                f = rng.choice(FIELDS)
                if f == 'rotation' and dims[i] == 2:
                    v = str(rng.choice(ROTS) if rng.random() < 0.7 else rng.randint(-3000, 3000))
                else:
                    v = vec(rng, dims[i] if f != 'rotation' else 3)
                lines.append(f'top {i} set {f} {v}')
                for j in range(len(dims)):
                    for g in FIELDS:
                        lines.append(f'top {j} read {g}')
            elif k < 0.8 and nobj:
                # (drop: the program lets the listener go; a listener created later may get its address)
                lines.append(f'top {i} {rng.choice(["add", "add", "remove", "drop"])} {rng.randrange(nobj)}')
            elif k < 0.9:
                lines.append(f'top {i} enable {rng.randint(0, 1)}')
            else:
                lines.append(f'top {i} enable 1')
        yield lines


def project(obs):
    return [o for o in obs if len(o.split()) > 1 and o.split()[1] in ('cb', 'val', 'res')] + \
        [o for o in obs if o.split()[0] in ('res', 'hang', 'bad-hint')]


class _Out(list):
    """observation stream of several transforms: every line carries the transform's prefix"""
    prefix = ''

    def append(self, x):
        super().append(self.prefix + x)


def oracle(lines, obs):
    """Statement of C20 as an abstract interpreter (the dispatcher part is the statement of C03/C04 in
    harness/spec_disp.py, one per transform): a set stores the value (2D rotation mod 360) and then
    notifies - once each, with the stored value, following the implementation's resolution of the set
    order - the listeners of the matching event; a listener that raises ends that notification and the
    exception reaches the caller, the value stays stored and later assignments notify as before."""
    from harness import spec_disp
    decl = [ln for ln in lines if ln.split()[0] in ('class', 'obj', 'react')]
    hints = [int(o.split()[2]) for o in obs if o.split()[1:2] == ['cb'] and o.split()[2] != 'None']
    shared = spec_disp.Spec(decl, hints)
    out = _Out()
    ts = []

    def guarded(fn):
        try:
            fn()
            out.append('res ok')
        except spec_disp.Raised as e:
            out.append('res raised ' + e.name)
        except spec_disp.BadHint:
            out.append('res bad-hint')
    for ln in lines:
        t = ln.split()
        if t[0] == 'transform':
            dim = int(t[1])
            z, o = ('p0_0', 'p1_1') if dim == 2 else ('p0_0_0', 'p1_1_1')
            rot = t[3] if t[3] != '-' else ('0' if dim == 2 else 'p0_0_0')
            d = spec_disp.Spec(decl, [])
            d.hints, d.calls, d.out, d.held = shared.hints, shared.calls, out, shared.held
            if dim == 2 and rot[0] in 'ptl':
                out.prefix = ''
                out.append('res raised TypeError')
                rot = '0'
                ts.append({'dim': dim, 'position': z, 'rotation': rot, 'scale': o, 'd': d})
                continue
            if dim == 2:
                rot = str(int(rot) % 720)
            as_vec = lambda v: 'p' + v[1:] if v[0] in 'tl' else v       # noqa
            ts.append({'dim': dim, 'position': as_vec(t[2] if t[2] != '-' else z),
                       'rotation': rot if dim == 2 else as_vec(rot),
                       'scale': as_vec(t[4] if t[4] != '-' else o), 'd': d})
        elif t[0] == 'top':
            i = int(t[1])
            T = ts[i]
            out.prefix = f't{i} '
            if t[2] == 'read':
                out.append(f'val {T[t[3]]}')
            elif t[2] == 'set':
                f, v = t[3], t[4]
                if f == 'rotation' and T['dim'] == 2:
                    if v[0] in 'ptl':
                        out.append('res raised TypeError')
                        continue
                    v = str(int(v) % 720)
                T[f] = v
                guarded(lambda: T['d'].dispatch(f'on_{f}_change', v))
            else:
                guarded(lambda: T['d'].op(t[2:]))
    e, a = project(list(out)), project(obs)
    if e == a:
        return []
    k = next((n for n, (x, y) in enumerate(zip(e, a)) if x != y), min(len(e), len(a)))
    want = e[k] if k < len(e) else '<end>'
    got = a[k] if k < len(a) else '<end>'
    w, g = want.split()[1:] if want[:1] == 't' else want.split(), got.split()[1:] if got[:1] == 't' else got.split()
    if w[:1] == ['val'] and g[:1] == ['val']:
        kind = 'wrong-stored-value'
    elif got == 'hang':
        kind = 'hang'
    elif w[:1] == ['cb'] and g[:1] == ['cb'] and w[1] == g[1] and w[2] == g[2]:
        kind = 'notified-value-differs-from-stored'
    elif w[:1] == ['cb'] and g[:1] == ['cb'] and w[1] == g[1] and w[2].split('@')[0] == g[2].split('@')[0]:
        kind = 'wrong-method-implementation'
    elif w[:1] == ['cb'] or g[:1] == ['cb'] or want == 'res bad-hint' or w[:2] == ['res', 'bad-hint']:
        kind = 'wrong-listeners-notified'
    elif g[:2] == ['res', 'raised'] or w[:2] == ['res', 'raised']:
        kind = 'setter-raised'
    else:
        kind = 'wrong-' + (w[0] if w else 'end')
    return [{'sig': f'C20:{kind}', 'what': f'observation #{k}: required `{want}`, implementation gave `{got}`'}]


def nontrivial(lines, obs):
    return any(' cb ' in o for o in obs) and any(' set ' in l for l in lines)


def stats(scenarios, impl_obs):
    return {'sets': sum(1 for s in scenarios for l in s if ' set ' in l),
            'rotation_sets_2d_out_of_range': sum(1 for s in scenarios for l in s if ' set rotation ' in l
                                                 and l.split()[-1][0] not in 'ptl'
                                                 and not 0 <= int(l.split()[-1]) < 720),
            'callbacks': sum(1 for obs in impl_obs for o in obs if ' cb ' in o),
            'transforms': sum(1 for s in scenarios for l in s if l.startswith('transform'))}
