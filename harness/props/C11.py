"""C11 — resource paths, shadowing and back-links stay consistent."""
from harness import gen_tree, spec_tree, spec_poptree

MODEL = 'tree'
RULE = ('seeded random histories over 1-4 declared ResourceMaps and 1-7 handles: 1-22 steps of '
        '__setitem__ with keys of depth 1-4 over a 2-4 name alphabet (identifiers, the empty name, names '
        'with dots/dashes), values = fresh or re-used handles, fresh / pre-populated / layered / re-used maps '
        '(self-insertion included), assignments that must be refused in the middle of the history (values that are '
        'neither maps nor handles, keys that are not strings: nothing may change), pushed handle scopes (what the populator does on a conflict), clear() of '
        'roots and of sub-maps reached through get(), and the three spellings m[a/b], m[a][b], m.get(a/b) of '
        'the same path side by side.  After every mutation: the whole tree to depth 4 (object, .parent, .key, '
        'every ChainMap layer) and .parent/.key of every declared object.  Non-trivial: at least one '
        'assignment was executed and a dump showed a node below the root.  Thorough tier: additionally every '
        'history of length <= 3 over 2 names, keys of depth <= 2, 2 handles + 1 map, layer, clear (small-scope '
        'exhaustive).')
RULE += ('  Object dimension: user subclasses of Handle / ResourceMap with value semantics (distinct objects that '
         'compare equal and hash alike, compare equal and are unhashable, are falsy).  Key dimension: maps whose '
         'delimiter is not "/" (subclass attribute or instance attribute), then with names that contain "/".')
RULE += ('  User subclasses whose parent/key are PROPERTIES: the setters run scripts that use the same map again '
         '(assign, clear, get, []) in the middle of __setitem__ / clear; .parent/.key of anonymous maps are observed too.')
ASSUMPTIONS = ['user code that changes the SIZE of a dictionary the library is iterating (a setter adding or removing '
               'a direct child of the map under clear()) makes clear() raise RuntimeError half-way (mirrored by the '
               'model; the oracle does not judge the rest of such a history)',
               'values inserted more than once (aliasing, cycles) are generated for the model/code '
               'correspondence; the theorems and the back-link clauses of the oracle cover values that are '
               'inserted at most once (hypothesis Fresh)',
               'loaders do not touch the tree (loaders that raise are scripted: `newhandle h fail=i,j`)',
               'value-equal MAPS are generated only in histories without aliasing: ResourceMap.clear() tests '
               '`child.parent == self`, so with two equal maps sharing a child it detaches the other map\'s child '
               '(witness reported); names containing "/" are used only directly under declared maps: the maps '
               '__setitem__ creates are plain ResourceMaps with the "/" delimiter, so m["a|t/g"] works where '
               'm["a"]["t/g"] raises KeyError (witness reported)',
               'assertions are enabled (without them the unchanged __setitem__ does not refuse a non-resource value)']
TIE = ('hand-written heap model lean/DesperModel/Tree.lean, correspondence-checked against '
       'desper/model/tree.py on every run (differential run on generated histories, all observables of '
       'observe_at compared line by line)')
KEEP = {'map', 'hnd', 'end-dump', 'link', 'end-links', 'got', 'item', 'bound', 'res', 'unbound'}


def generate(rng, tier):
    n = 1200 if tier == 'quick' else 15000
    for i in range(n):
        yield gen_tree.gen_c11(rng, fresh_only=(i % 3 == 0))
    if tier != 'quick':
        yield from gen_tree.exhaustive_c11()


def project(obs):
    out = []
    for o in obs:
        t = o.split()
        if t and t[0] in KEEP:
            # which load produced a value is C12's observable
            out.append(' '.join(t[:3]) if t[:2] == ['item', 'val'] else o)
    return out


oracle = spec_tree.oracle_for('C11')


def nontrivial(lines, obs):
    return any(o.startswith('res ok') for o in obs) and any(
        o.startswith(('map :', 'hnd ')) for o in obs)


def stats(scenarios, impl_obs):
    ops = [ln.split()[1] for s in scenarios for ln in s if ln.startswith('op ')]
    d = {k: ops.count(k) for k in sorted(set(ops))}
    d['keyerrors'] = sum(1 for obs in impl_obs for o in obs if o == 'item raised KeyError')
    d['defaults'] = sum(1 for obs in impl_obs for o in obs if o == 'got default')
    d['anonymous_maps_seen'] = sum(1 for obs in impl_obs for o in obs
                                   if o.startswith('map :') and o.split()[2].startswith('a'))
    d['shadowed_handle_lines'] = sum(1 for obs in impl_obs for o in obs
                                     if o.startswith('hnd ') and o.split()[2] != '0')
    return d


# ---------------------------------------------------------------------------- trees built by the populator
class _PopStream(spec_poptree.Stream):
    """every map / handle reachable in a tree the DirectoryResourcePopulator built records its container and
    its name, one kind per name - the property holds for every way a tree gets built"""
    PID = 'C11'
    KEEP = ('map', 'hnd', 'end-dump', 'link', 'end-links', 'res', 'unbound')


def stream_for(lines):
    return _PopStream if spec_poptree.is_pop_scenario(lines) else None


def extra_checks(ctx):
    spec_poptree.run_stream(
        ctx, _PopStream, 250 if ctx.tier == 'quick' else 4000,
        'the C16 scenarios (real directory trees, rules, options, repeated population, pre-existing content) run '
        'through the populator; after every population the whole reachable tree is dumped and judged by C11\'s '
        'back-link and one-kind clauses (predicates on the dump), and compared with the Lean pop model')

