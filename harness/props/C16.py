"""C16 — directory population mirrors the file tree under the rules."""
from harness import gen_pop, spec_pop

MODEL = 'pop'
RULE = ('seeded random scenarios on REAL directory trees under tempfile.mkdtemp() (removed afterwards): depth '
        '<= 4, <= 15 entries, names with 0-2 dots (x, x.txt, x.tar.gz, "w."), empty directories, directory names '
        'with extensions, directory/trimmed-file and file/file key collisions, no leading-dot names; 1-2 '
        'populators with 1-4 rules each (rule paths: top or nested directories in several spellings, ".", a '
        'missing path, a regular file), extension filters, extra positional/keyword factory arguments; 1-4 '
        'populations with nest_on_conflict / trim_extensions given at construction or per call, root given or '
        'defaulted, on maps that are empty, pre-populated, layered, or populated before.  Observed: every handle '
        'the factories built (factory, file path, arguments), the whole reachable content to depth 4 with every '
        'layer of handles, the exception class.  Non-trivial: at least one handle was built from a file.')
RULE += ('  file_exts is handed over in every kind of iterable (list, tuple, set, frozenset, dict, dict view, '
         'generator, iterator, map object, reversed); the root in ten spellings; pre-existing handles / maps with '
         'value equality or falsy.')
RULE += ('  The tree CHANGES between populations of the same populator object (files / directories added deep in '
         'the tree, subtrees removed); extra arguments that are objects (lists, dicts, un-copyable objects, '
         'generators, locks) are observed by identity.')
ASSUMPTIONS = ['no file or directory name starts with a dot (glob does not list them) — hypothesis ListingOk',
               'the listing handed to the model is what the real glob.iglob returned on the real tree; the '
               'harness checks ListingOk on it (rule directory first, parents first, nothing twice, exactly the '
               'declared subtree) and the model validates it again against the declared tree',
               'no symbolic links; the tree does not change while it is being read']
TIE = ('hand-written model lean/DesperModel/Pop.lean (populate/placeEntry/splitext over the heap model of '
       'tree.py), correspondence-checked against desper/model/__init__.py on real directory trees on every run; '
       'os.path.splitext is compared with the model\'s splitext on every name of every generated tree')
TRUSTED = ['the file system, glob traversal order and os.path are inputs of the model (hypothesis ListingOk), '
           'observed on the real tree on every run']
KEEP = {'made', 'res', 'map', 'hnd', 'end-dump', 'splitext', 'unbound', 'link', 'end-links'}


def generate(rng, tier):
    n = 800 if tier == 'quick' else 12000
    for _ in range(n):
        yield gen_pop.gen_c16(rng)


def project(obs):
    return [o for o in obs if o.split()[0] in KEEP]


oracle = spec_pop.oracle


def nontrivial(lines, obs):
    return any(o.startswith('made ') for o in obs)


def stats(scenarios, impl_obs):
    d = {}
    d['populations'] = sum(1 for s in scenarios for ln in s if ln.startswith('op populate'))
    d['handles_built'] = sum(1 for obs in impl_obs for o in obs if o.startswith('made '))
    d['rules_missing'] = sum(1 for obs in impl_obs for o in obs if o.startswith('glob') and o.endswith('missing'))
    d['rules_not_a_directory'] = sum(1 for obs in impl_obs for o in obs if o.startswith('glob') and o.endswith('notdir'))
    d['raised'] = {}
    for obs in impl_obs:
        for o in obs:
            if o.startswith('res raised'):
                d['raised'][o.split()[2]] = d['raised'].get(o.split()[2], 0) + 1
    d['shadowed_handle_lines'] = sum(1 for obs in impl_obs for o in obs
                                     if o.startswith('hnd ') and o.split()[2] != '0')
    d['fs_entries'] = sum(1 for s in scenarios for ln in s if ln.startswith('fs '))
    d['splitext_checks'] = sum(1 for s in scenarios for ln in s if ln.startswith('op splitext'))
    return d
