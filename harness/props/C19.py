"""C19 — Controllers, references and prototypes are faithful shorthands."""
import random

from harness import core, gen_world
from harness.models import world as impl_world, logic as impl_logic
from harness.props import _world

MODEL = 'world'
ASSUMPTIONS = _world.ASSUMPTIONS + [
    'prototype classes form single-inheritance chains of desper.Prototype subclasses; type names may collide',
    'controller classes keep Controller.on_add reachable (only controller bases)']
RULE = ('(a) twin worlds: seeded random World histories in which a share of the operations goes through a '
        'Controller (module-level shorthands, Controller methods, ComponentReference / ProcessorReference get, '
        'set, del); the same history is replayed with every shorthand replaced by the World call for the '
        'controller\'s recorded entity and ALL observables (results, callbacks, full snapshots after every '
        'operation) must be identical; the shorthand run is also compared with the Lean world model; one '
        'history in three is frame-heavy (OnUpdateProcessor subclasses, on_update listeners some of which '
        'raise on a scripted call while the caller keeps calling process()) and every process() is held to '
        '"dt relayed exactly once to every on_update listener".  '
        '(b) prototypes: seeded families of Prototype subclasses over every combination of the three '
        'construction sources per listed type, custom/empty prefixes, inherited and overridden attributes, '
        'colliding type names, double iteration (freshness).  Non-trivial: a shorthand changed the world / a '
        'prototype yielded >= 1 component; distinct by scenario hash.')
TAGS = ('cb', 'res', 'ret', 'get', 'getall', 'row', 'exists', 'has', 'entities', 'procs', 'gp', 'pw', 'ish', 'ctl')
VIA = ['add', 'remove', 'has', 'get', 'comps', 'delete', 'cget', 'cset', 'cdel', 'pget', 'pset', 'pdel']


def with_via(rng, lines):
    """Insert shorthand operations after ordinary ones."""
    kinds = {}
    objs = {}
    for ln in lines:
        t = ln.split()
        if t[0] == 'class':
            kinds[int(t[1])] = t[2].split('=')[1]
        elif t[0] == 'obj':
            objs[int(t[1])] = int(t[2].split('=')[1])
    ctrls = [o for o, c in objs.items() if kinds[c] == 'ctrl']
    if not ctrls:
        return None
    ctys = [c for c, k in kinds.items() if k in ('c', 'ctrl')]
    ptys = [c for c, k in kinds.items() if k in ('p', 'upd')]
    comps = [o for o, c in objs.items() if kinds[c] in ('c', 'ctrl')]
    procs = [o for o, c in objs.items() if kinds[c] in ('p', 'upd')]
    out = []
    for ln in lines:
        out.append(ln)
        if ln.startswith('op ') and ln != 'op snap' and rng.random() < 0.6:
            k = rng.choice(ctrls)
            kind = rng.choice(VIA)
            if kind in ('add', 'cset') and comps:
                arg = str(rng.choice(comps))
            elif kind in ('remove', 'has', 'get', 'cget', 'cdel') and ctys:
                arg = str(rng.choice(ctys))
            elif kind in ('pget', 'pdel') and ptys:
                arg = str(rng.choice(ptys))
            elif kind == 'pset' and procs:
                arg = str(rng.choice(procs))
            elif kind in ('comps', 'delete'):
                arg = ''
            else:
                continue
            out.append(f'op via {k} {kind} {arg}'.rstrip())
            out.append('op snap')
    return out


def generate(rng, tier):
    n = 250 if tier == 'quick' else 5000
    made = 0
    while made < n:
        if made % 3 == 2:
            # frames: OnUpdateProcessor subclasses, on_update listeners (some raise on a scripted call and
            # the caller goes on calling process()), dispatch toggles
            lines = gen_world.gen_scenario(rng, ops_range=(4, 16), n_comp=(2, 5), n_proc=(1, 3), handlers=0.85,
                                           ctrl=0.5, upd=0.8, raises=0.8, raise_plain=True, clear_disabled=False,
                                           w=dict(enable=0.8, clear=0.1, dispatch=0.3, process=6, addproc=4,
                                                  rmproc=0.5, create=5, add=4, remove=1, delete=1))
        else:
            lines = gen_world.gen_scenario(rng, ops_range=(2, 14), n_comp=(2, 5), n_proc=(0, 3), handlers=0.5,
                                           ctrl=0.7, clear_disabled=False,
                                           w=dict(enable=0.6, clear=0.2, dispatch=0.6, process=1.5))
        lines = with_via(rng, lines)
        if lines:
            made += 1
            yield lines


def project(obs):
    return [o for o in _world.norm_ret(obs) if o.split()[0] in TAGS]


def oracle(lines, obs):
    """Twin worlds: the same history with every shorthand replaced by the World call it stands for."""
    try:
        twin, _ = core.run_impl_guarded(impl_world, ['mode direct'] + list(lines))
    except core.Timeout:
        twin = ['hang']
    a, b = project(obs), project(twin)
    if a == b:
        # the frame clause: each process() makes every OnUpdateProcessor relay dt exactly once to every
        # on_update listener (statement of the world properties, harness/spec_world.py)
        from harness import spec_world
        for v in spec_world.check(lines, obs):
            clause = v['sig'].split(':')[0]
            if clause in ('missing-callback', 'unexpected-callback', 'wrong-callback', 'process-calls') \
                    and v['what'].startswith('`process') and len(v['sig'].split(':')) == 1:
                return [{'sig': 'C19:on_update-relay', 'what': v['what']}]
        return []
    k = next((i for i, (x, y) in enumerate(zip(a, b)) if x != y), min(len(a), len(b)))
    got = a[k] if k < len(a) else '<end>'
    want = b[k] if k < len(b) else '<end>'
    # which shorthand was executing
    n_res = sum(1 for o in a[:k + 1] if o.startswith('res '))
    ops = [ln for ln in lines if ln.startswith('op ') and ln != 'op snap']
    cur = ops[min(n_res, len(ops) - 1)] if ops else '?'
    clause = 'shorthand-' + (cur.split()[3] if cur.startswith('op via') else 'aftermath')
    return [{'sig': f'C19:{clause}', 'what': f'around `{cur}`: through the controller `{got}`, World call `{want}`'}]


def nontrivial(lines, obs):
    return any(ln.startswith('op via') for ln in lines) and any(o.startswith('get ') and not o.endswith(' -')
                                                                 for o in obs)


def stats(scenarios, impl_obs):
    from collections import Counter
    return {'via_ops': dict(Counter(ln.split()[3] for s in scenarios for ln in s if ln.startswith('op via'))),
            'attribute_errors': sum(1 for obs in impl_obs for o in obs if o == 'res raised AttributeError')}


# ---------------------------------------------------------------------------- prototypes
NAMES = ['A', 'B', 'C', 'A']        # the last one collides with the first


def gen_proto(rng):
    lines = [f'ptype {i} name={NAMES[i]}' for i in range(4)]
    ncls = rng.randint(1, 4)
    for pid in range(ncls):
        base = '-' if pid == 0 or rng.random() < 0.3 else str(rng.randrange(pid))
        types = 'inherit' if base != '-' and rng.random() < 0.4 else \
            (','.join(str(rng.randrange(4)) for _ in range(rng.randint(0, 4))) or '-')
        prefix = 'inherit' if rng.random() < 0.6 else 'q' + rng.choice(['init_', 'make', '', 'init'])
        im = 'inherit' if rng.random() < 0.5 else \
            (','.join(f'{t}:f{pid}{t}' for t in rng.sample(range(4), rng.randint(0, 3))) or '-')
        meths = {}
        for _ in range(rng.randint(0, 4)):
            p = rng.choice(['init_', 'make', 'init', 'x'])
            nm = p + rng.choice(['A', 'B', 'C'])
            meths[nm] = f'g{pid}{len(meths)}'
        lines.append(f'pclass {pid} base={base} types={types} prefix={prefix} im={im} methods=' +
                     (','.join(f'{k}:{v}' for k, v in meths.items()) or '-'))
    for pid in range(ncls):
        lines.append(f'iter {pid}')
    return lines


def extra_checks(ctx):
    rng = random.Random(ctx.seed * 7907 + 19)
    n = 300 if ctx.tier == 'quick' else 6000
    scen = [gen_proto(rng) for _ in range(n)]
    impl = [impl_logic.run_impl(s)[0] for s in scen]
    model = core.run_driver('logic', scen)
    nontriv = set()
    for s, io, mo in zip(scen, impl, model):
        if any(o.startswith('bad-op') for o in mo):
            raise core.MachineryError(f'logic model rejected {s}')
        built = [o for o in io if o.startswith('built ')]
        if built:
            nontriv.add(core.scen_hash(s))
        bad_shape = [o for o in io if o.startswith('shape ') and o != 'shape ok']
        if bad_shape:
            ctx.violations.append({'sig': 'C19:prototype-shape', 'what': f'{bad_shape[0]}', 'scenario': s,
                                   'shrink': False})
        if built != mo:
            k = next((i for i, (x, y) in enumerate(zip(built, mo)) if x != y), min(len(built), len(mo)))
            ctx.violations.append({
                'sig': 'C19:prototype-source', 'shrink': False, 'scenario': s,
                'what': f'prototype component #{k}: required `{mo[k] if k < len(mo) else "<end>"}` '
                        f'(init_methods entry, else prefixed method, else default constructor), implementation '
                        f'`{built[k] if k < len(built) else "<end>"}`'})
    ctx.cov['prototype_scenarios'] = n
    ctx.cov['prototype_nontrivial'] = len(nontriv)
    ctx.cov['prototype_sample'] = {'scenario': scen[0], 'impl_obs': impl[0]}


def replay(lines):
    if any(ln.startswith('pclass') for ln in lines):
        io = impl_logic.run_impl(lines)[0]
        mo = core.run_driver('logic', [lines])[0]
        print('--- implementation'); print('\n'.join(io))
        print('--- model'); print('\n'.join(mo))
        ok = [o for o in io if o.startswith('built ')] == mo and all(o == 'shape ok' for o in io if o.startswith('shape'))
        if not ok:
            print('VIOLATION property=C19 replay=<given file>')
        return 0 if ok else 1
    obs, hints = core.run_impl_guarded(impl_world, lines)
    mobs = core.run_driver('world', [hints + lines])[0]
    vs = oracle(lines, obs)
    print('--- oracle (twin worlds):', vs or 'holds')
    div = project(obs) != project(mobs)
    if div:
        print('correspondence with the Lean model diverges')
    if vs:
        print('VIOLATION property=C19 replay=<given file>')
    return 1 if (vs or div) else 0
