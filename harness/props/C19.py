"""C19 — Controllers, references and prototypes are faithful shorthands."""
import random

from harness import core, gen_world
from harness.models import world as impl_world, logic as impl_logic
from harness.props import _world

MODEL = 'world'
ASSUMPTIONS = _world.ASSUMPTIONS + [
    'prototype classes form single-inheritance chains of desper.Prototype subclasses; type names may collide',
    'controller classes keep Controller.on_add reachable (only controller bases)']
RULE = ('(a) twin worlds: seeded random World histories in which a share of the operations goes through a '
        'Controller (module-level shorthands, Controller methods, ComponentReference / ProcessorReference get, '
        'set, del); the same history is replayed with every shorthand replaced by the World call for the '
        'controller\'s recorded entity and ALL observables (results, callbacks, full snapshots after every '
        'operation) must be identical; the shorthand run is also compared with the Lean world model; one '
        'history in three is frame-heavy (OnUpdateProcessor subclasses, on_update listeners some of which '
        'raise on a scripted call while the caller keeps calling process()) and every process() is held to '
        '"dt relayed exactly once to every on_update listener".  '
        '(b) prototypes: seeded families of Prototype subclasses over every combination of the three '
        'construction sources per listed type, custom/empty prefixes, inherited and overridden attributes, '
        'colliding type names, double iteration (freshness).  Non-trivial: a shorthand changed the world / a '
        'prototype yielded >= 1 component; distinct by scenario hash.')
TAGS = ('cb', 'res', 'ret', 'get', 'getall', 'row', 'exists', 'has', 'entities', 'procs', 'gp', 'pw', 'ish', 'ctl')
VIA = ['add', 'remove', 'has', 'get', 'comps', 'delete', 'cget', 'cset', 'cdel', 'pget', 'pset', 'pdel']


def with_via(rng, lines):
    """Insert shorthand operations after ordinary ones."""
    kinds = {}
    objs = {}
    for ln in lines:
        t = ln.split()
        if t[0] == 'class':
            kinds[int(t[1])] = t[2].split('=')[1]
        elif t[0] == 'obj':
            objs[int(t[1])] = int(t[2].split('=')[1])
    ctrls = [o for o, c in objs.items() if kinds[c] == 'ctrl']
    if not ctrls:
        return None
    ctys = [c for c, k in kinds.items() if k in ('c', 'ctrl')]
    ptys = [c for c, k in kinds.items() if k in ('p', 'upd')]
    comps = [o for o, c in objs.items() if kinds[c] in ('c', 'ctrl')]
    procs = [o for o, c in objs.items() if kinds[c] in ('p', 'upd')]
    out = []
    for ln in lines:
        out.append(ln)
        if ln.startswith('op ') and ln != 'op snap' and rng.random() < 0.6:
            k = rng.choice(ctrls)
            kind = rng.choice(VIA)
            if kind in ('add', 'cset') and comps:
                arg = str(rng.choice(comps))
            elif kind in ('remove', 'has', 'get', 'cget', 'cdel') and ctys:
                arg = str(rng.choice(ctys))
            elif kind in ('pget', 'pdel') and ptys:
                arg = str(rng.choice(ptys))
            elif kind == 'pset' and procs:
                arg = str(rng.choice(procs))
            elif kind in ('comps', 'delete'):
                arg = ''
            else:
                continue
            out.append(f'op via {k} {kind} {arg}'.rstrip())
            out.append('op snap')
    return out


def gen_references(rng):
    """Reads through ComponentReference / ProcessorReference interleaved with World calls that change what
    the reference must answer: a subtype component first, then one of the exact type (which has priority),
    removals, replacements, the same for processors."""
    lines = ['class 0 kind=c bases=- names=- kw=- prio=0', 'class 1 kind=c bases=0 names=- kw=- prio=0',
             'class 2 kind=c bases=1 names=- kw=- prio=0', 'class 3 kind=ctrl bases=- names=- kw=- prio=0',
             'class 4 kind=p bases=- names=- kw=- prio=0', 'class 5 kind=p bases=4 names=- kw=- prio=1']
    objs = {0: 0, 1: 1, 2: 2, 3: 0, 4: 1, 5: 3, 6: 4, 7: 5, 8: 5}
    lines += [f'obj {o} class={c}' for o, c in objs.items()]
    lines.append('ents ' + ','.join(map(str, gen_world.ENTS)))
    ops = ['create auto 5', 'snap']
    pool_c, pool_p = [0, 1, 2, 3, 4], [6, 7, 8]
    for _ in range(rng.randint(4, 10)):
        k = rng.random()
        if k < 0.35:
            ops.append(f'add 1 {rng.choice(pool_c)}')
        elif k < 0.5:
            ops.append(f'remove 1 {rng.choice([0, 1, 2])}')
        elif k < 0.65:
            ops.append(f'addproc {rng.choice(pool_p)} -')
        elif k < 0.72:
            ops.append(f'rmproc {rng.choice([4, 5])}')
        else:
            ops.append(f'via 5 {rng.choice(["add", "cset"])} {rng.choice(pool_c)}')
        ops.append('snap')
        for _ in range(rng.randint(1, 3)):
            kind = rng.choice(['cget', 'cget', 'get', 'has', 'pget', 'pget', 'comps'])
            arg = '' if kind == 'comps' else str(rng.choice([4, 5]) if kind == 'pget' else rng.choice([0, 1, 2]))
            ops.append(f'via 5 {kind} {arg}'.rstrip())
            ops.append('snap')
    return lines + ['op ' + o for o in ops]


def gen_stale_controller(rng):
    """A controller that was taken off its entity (it still knows entity and world) goes on using the
    shorthands: entity without components, awaiting deletion, populated again under the same identifier,
    swept - each shorthand still is the World call for the recorded entity."""
    lines = ['class 0 kind=ctrl bases=- names=- kw=- prio=0', 'class 1 kind=c bases=- names=- kw=- prio=0',
             'class 2 kind=c bases=1 names=- kw=- prio=0', 'class 3 kind=p bases=- names=- kw=- prio=0']
    lines += ['obj 0 class=0', 'obj 1 class=1', 'obj 2 class=2', 'obj 3 class=1', 'obj 4 class=3', 'obj 5 class=0']
    lines.append('ents ' + ','.join(map(str, gen_world.ENTS)))
    ops = [rng.choice(['create auto 0', 'create auto 0,1', 'create 3 0'])]
    e = 3 if ops[0].startswith('create 3') else 1
    pool = [f'remove {e} 0', 'via 0 remove 0', f'delete {e} 1', 'via 0 delete', f'delete {e} 0', f'add {e} 1',
            f'add {e} 2', f'add {e} 5', 'via 0 add 3', 'via 0 cset 2', 'process 1', 'via 0 comps', 'via 0 has 1',
            'via 0 get 1', 'via 0 cget 1', 'via 0 remove 1', 'via 0 cdel 1', f'remove {e} 1', 'clear',
            'create auto 3', 'via 0 pset 4', 'via 0 pget 3', 'via 0 pdel 3']
    for _ in range(rng.randint(4, 12)):
        ops.append(rng.choice(pool))
    ops.append('process 2')
    out = []
    for o in ops:
        out += ['op ' + o, 'op snap']
    return lines + out


def generate(rng, tier):
    n = 250 if tier == 'quick' else 1800
    made = 0
    while made < n:
        if made % 5 == 4:
            made += 1
            yield gen_references(rng)
            continue
        if made % 5 == 1:
            made += 1
            yield gen_stale_controller(rng)
            continue
        if made % 3 == 2:
            # frames: OnUpdateProcessor subclasses, on_update listeners (some raise on a scripted call and
            # the caller goes on calling process()), dispatch toggles
            lines = gen_world.gen_scenario(rng, ops_range=(4, 16), n_comp=(2, 5), n_proc=(1, 3), handlers=0.85,
                                           ctrl=0.5, upd=0.8, raises=0.8, raise_plain=True, clear_disabled=False,
                                           w=dict(enable=0.8, clear=0.1, dispatch=0.3, process=6, addproc=4,
                                                  rmproc=0.5, create=5, add=4, remove=1, delete=1))
        else:
            lines = gen_world.gen_scenario(rng, ops_range=(2, 14), n_comp=(2, 5), n_proc=(0, 3), handlers=0.5,
                                           ctrl=0.7, clear_disabled=False, traits=0.35,
                                           w=dict(enable=0.6, clear=0.2, dispatch=0.6, process=1.5))
        lines = with_via(rng, lines)
        if lines:
            made += 1
            yield lines


def project(obs):
    return [o for o in _world.norm_ret(obs) if o.split()[0] in TAGS]


def oracle(lines, obs):
    """Twin worlds: the same history with every shorthand replaced by the World call it stands for."""
    try:
        twin, _ = core.run_impl_guarded(impl_world, ['mode direct'] + list(lines))
    except core.Timeout:
        twin = ['hang']
    lost = [o for o in obs if o.startswith('ctlworld ') and o.endswith(' 0')]
    if lost:
        return [{'sig': 'C19:controller-lost-its-world', 'what': f'after the program dropped its own reference to '
                 f'the world an attached controller no longer knows it: {lost[0]}'}]
    moved = [o for o in obs if o.startswith('migrate ') and o.split()[2:] not in (['1', '0'], ['skipped'])]
    if moved:
        return [{'sig': 'C19:on_update-relay', 'what': 'an OnUpdateProcessor removed from the world and added to '
                 f'another one, one frame of the new world: `{moved[0]}` (processor, dt received by a listener '
                 'of the new world, by a listener of the old world); required 1 and 0'}]
    a, b = project(obs), project(twin)
    if a == b:
        # the frame clause: each process() makes every OnUpdateProcessor relay dt exactly once to every
        # on_update listener (statement of the world properties, harness/spec_world.py)
        from harness import spec_world
        for v in spec_world.check(lines, obs):
            clause = v['sig'].split(':')[0]
            if clause in ('missing-callback', 'unexpected-callback', 'wrong-callback', 'process-calls') \
                    and v['what'].startswith('`process') and len(v['sig'].split(':')) == 1:
                return [{'sig': 'C19:on_update-relay', 'what': v['what']}]
        return []
    k = next((i for i, (x, y) in enumerate(zip(a, b)) if x != y), min(len(a), len(b)))
    got = a[k] if k < len(a) else '<end>'
    want = b[k] if k < len(b) else '<end>'
    # which shorthand was executing
    n_res = sum(1 for o in a[:k + 1] if o.startswith('res '))
    ops = [ln for ln in lines if ln.startswith('op ') and ln != 'op snap']
    cur = ops[min(n_res, len(ops) - 1)] if ops else '?'
    clause = 'shorthand-' + (cur.split()[3] if cur.startswith('op via') else 'aftermath')
    return [{'sig': f'C19:{clause}', 'what': f'around `{cur}`: through the controller `{got}`, World call `{want}`'}]


def nontrivial(lines, obs):
    return any(ln.startswith('op via') for ln in lines) and any(o.startswith('get ') and not o.endswith(' -')
                                                                 for o in obs)


def stats(scenarios, impl_obs):
    from collections import Counter
    return {'via_ops': dict(Counter(ln.split()[3] for s in scenarios for ln in s if ln.startswith('op via'))),
            'attribute_errors': sum(1 for obs in impl_obs for o in obs if o == 'res raised AttributeError')}


# ---------------------------------------------------------------------------- prototypes
NAMES = ['A', 'B', 'C', 'A']        # the last one collides with the first


def gen_proto(rng):
    lines = [f'ptype {i} name={NAMES[i]}' for i in range(4)]
    ncls = rng.randint(1, 4)
    for pid in range(ncls):
        base = '-' if pid == 0 or rng.random() < 0.3 else str(rng.randrange(pid))
        types = 'inherit' if base != '-' and rng.random() < 0.4 else \
            (','.join(str(rng.randrange(4)) for _ in range(rng.randint(0, 4))) or '-')
        prefix = 'inherit' if rng.random() < 0.6 else 'q' + rng.choice(['init_', 'make', '', 'init'])
        im = 'inherit' if rng.random() < 0.5 else \
            (','.join(f'{t}:f{pid}{t}' for t in rng.sample(range(4), rng.randint(0, 3))) or '-')
        meths = {}
        for _ in range(rng.randint(0, 4)):
            p = rng.choice(['init_', 'make', 'init', 'x'])
            nm = p + rng.choice(['A', 'B', 'C'])
            meths[nm] = f'g{pid}{len(meths)}'
        lines.append(f'pclass {pid} base={base} types={types} prefix={prefix} im={im} methods=' +
                     (','.join(f'{k}:{v}' for k, v in meths.items()) or '-'))
    for pid in range(ncls):
        lines.append(f'iter {pid}')
    return lines


def gen_proto_lazy(rng):
    """prototypes whose init methods / factories / component constructors (and whose consumer, between
    two next() calls) change what is in charge of the types that come later: init_methods entries set
    and deleted in place, init_methods / init_prefix / component_types / init functions rebound on the
    instance and on classes; consumed by list(), next() by next(), two iterators of one instance"""
    lines = [ln for ln in gen_proto(rng) if not ln.startswith('iter ')]
    ncls = sum(1 for ln in lines if ln.startswith('pclass '))
    flabels = sorted({p.split(':')[1] for ln in lines if ln.startswith('pclass ')
                      for p in ln.split()[5][3:].split(',') if ':' in p})
    glabels = sorted({p.split(':')[1] for ln in lines if ln.startswith('pclass ')
                      for p in ln.split()[6][8:].split(',') if ':' in p})
    fresh = [0]

    def new(prefix):
        fresh[0] += 1
        lab = f'{prefix}{fresh[0]}'
        (flabels if prefix == 'nf' else glabels).append(lab)
        return lab

    def pairs():
        return ','.join(f'{t}:{new("nf")}' for t in rng.sample(range(4), rng.randint(0, 2))) or '-'

    def tids():
        return ','.join(str(rng.randrange(4)) for _ in range(rng.randint(0, 4))) or '-'

    def name():
        return rng.choice(['init_', 'make', 'init', '']) + rng.choice(['A', 'B', 'C'])

    def pfx():
        return 'q' + rng.choice(['init_', 'make', '', 'init'])

    def op():
        c = rng.randrange(ncls)
        return rng.choice([
            lambda: f'im-set {rng.randrange(4)} {new("nf")}', lambda: f'im-set {rng.randrange(4)} {new("nf")}',
            lambda: f'im-del {rng.randrange(4)}', lambda: f'im-del {rng.randrange(4)}',
            lambda: f'inst-im {pairs()}', lambda: f'inst-prefix {pfx()}',
            lambda: f'inst-meth {name()} {new("ng")}', lambda: f'inst-meth-del {name()}',
            lambda: f'inst-types {tids()}',
            lambda: f'cls-im {c} {pairs()}', lambda: f'cls-prefix {c} {pfx()}',
            lambda: f'cls-meth {c} {name()} {new("ng")}', lambda: f'cls-meth-del {c} {name()}',
            lambda: f'cls-types {c} {tids()}'])()

    def ops():
        return ' ; '.join(op() for _ in range(rng.randint(1, 3)))
    body = []
    for k in range(rng.randint(0, 2)):
        body.append(f'ceffect {k} : {ops()}')
    nce = len(body)
    for pid in range(ncls):
        if rng.random() < 0.3:
            body.append(f'iter {pid}')
            continue
        toks, made = [], set()
        for _ in range(rng.randint(2, 12)):
            k = rng.random()
            if k < 0.2 or not made:
                it = rng.choice('AB')
                toks.append(it)
                made.add(it)
            elif k < 0.75:
                toks.append(rng.choice(sorted(made)).lower())
            elif k < 0.85 and nce:
                toks.append(f'e{rng.randrange(nce)}')
            elif k < 0.92:
                toks.append('L')
            else:
                toks.append(rng.choice(sorted(made)).lower())
        body.append(f'run {pid} ' + ' '.join(toks))
    # the builders that act: labels known now (the new ones can act in turn)
    effects = {}
    for _ in range(rng.randint(1, 5)):
        src = rng.choice(['default', 'default'] + [f'im:{f}' for f in flabels] + [f'method:{g}' for g in glabels])
        effects[(rng.randrange(4), src)] = ops()
    return lines + [f'effect {t} {src} : {o}' for (t, src), o in effects.items()] + body


class _ProtoStream:
    MODEL = 'logic'


def stream_for(lines):
    return _ProtoStream if any(ln.startswith(('ptype', 'pclass')) for ln in lines) else None


def extra_checks(ctx):
    rng = random.Random(ctx.seed * 7907 + 19)
    n = 300 if ctx.tier == 'quick' else 2000
    scen = [gen_proto(rng) for _ in range(n)] + [gen_proto_lazy(rng) for _ in range(n)]
    proto_corpus = sorted((core.VERIF / 'corpus' / 'C19' / 'proto').glob('*.scn'))
    scen = [[ln for ln in f.read_text().splitlines() if ln.strip() and not ln.startswith('#')]
            for f in proto_corpus] + scen
    impl = [impl_logic.run_impl(s)[0] for s in scen]
    model = core.run_driver('logic', scen)
    nontriv = set()
    for s, io, mo in zip(scen, impl, model):
        if any(o.startswith('bad-op') for o in mo):
            raise core.MachineryError(f'logic model rejected {s}')
        built = [o for o in io if o.startswith(('built ', 'stop '))]
        if built:
            nontriv.add(core.scen_hash(s))
        bad_shape = [o for o in io if o.startswith('shape ') and o != 'shape ok']
        if bad_shape:
            ctx.violations.append({'sig': 'C19:prototype-shape', 'what': f'{bad_shape[0]}', 'scenario': s,
                                   'shrink': False})
        if built != mo:
            k = next((i for i, (x, y) in enumerate(zip(built, mo)) if x != y), min(len(built), len(mo)))
            ctx.violations.append({
                'sig': 'C19:prototype-source', 'shrink': False, 'scenario': s,
                'what': f'prototype component #{k}: required `{mo[k] if k < len(mo) else "<end>"}` '
                        f'(init_methods entry, else prefixed method, else default constructor: whichever is in '
                        f'charge of the type at the moment the component is built), implementation '
                        f'`{built[k] if k < len(built) else "<end>"}`'})
    ctx.cov['prototype_scenarios'] = len(scen)
    ctx.cov['prototype_effect_lines'] = sum(1 for sc in scen for ln in sc if ln.startswith(('effect ', 'ceffect ')))
    ctx.cov['prototype_stepwise_runs'] = sum(1 for sc in scen for ln in sc if ln.startswith('run '))
    ctx.cov['prototype_nontrivial'] = len(nontriv)
    ctx.cov['prototype_sample'] = {'scenario': scen[0], 'impl_obs': impl[0]}


def replay(lines):
    if any(ln.startswith('pclass') for ln in lines):
        io = impl_logic.run_impl(lines)[0]
        mo = core.run_driver('logic', [lines])[0]
        print('--- implementation'); print('\n'.join(io))
        print('--- model'); print('\n'.join(mo))
        ok = [o for o in io if o.startswith(('built ', 'stop '))] == mo and all(
            o == 'shape ok' for o in io if o.startswith('shape'))
        if not ok:
            print('VIOLATION property=C19 replay=<given file>')
        return 0 if ok else 1
    obs, hints = core.run_impl_guarded(impl_world, lines)
    mobs = core.run_driver('world', [hints + lines])[0]
    vs = oracle(lines, obs)
    print('--- oracle (twin worlds):', vs or 'holds')
    div = project(obs) != project(mobs)
    if div:
        print('correspondence with the Lean model diverges')
    if vs:
        print('VIOLATION property=C19 replay=<given file>')
    return 1 if (vs or div) else 0
