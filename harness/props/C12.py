"""C12 — a handle loads its resource at most once between clears."""
from harness import gen_tree, spec_tree

MODEL = 'tree'
RULE = ('seeded random histories: a small resource tree (1-6 handles whose counting loaders return None, '
        '0, "", False, (), 0.0, b"", fresh [] / {} / object(), objects whose __eq__/__bool__/__len__ raise, whose == is True for everything, '
        'that are equal but never identical, with duck-typed equality; loaders that RAISE on scripted invocations - '
        'the 1st, 1st+2nd, 2nd, ... - and are used again afterwards), '
        '0-3 static snapshots, then 3-30 accesses through every access path - h(), m[a/b], m[a][b], '
        'snapshot[a][b], snapshot.a.b - interleaved with Handle.clear(), re-assignments and map clears.  '
        'Observed: which load produced each returned object (identity, never ==), the number of load() calls '
        'and Handle.cached.  Non-trivial: at least one access returned a loaded resource.')
RULE += ('  Loaders that use the tree WHILE loading (scripts: clear their own handle / a sibling / the whole map, '
         'load other handles, assign into the map, take a snapshot), then continued use on every path.')
ASSUMPTIONS = ['a clear() issued during a load is overridden when load() returns (tree.py:43-44): the handle ends '
               'up cached with the returned object - what the unchanged code does, mirrored by model and oracle; a '
               'loader that calls ITS OWN handle while loading makes load() run twice in one cache period '
               '(reported as a witness, generated rarely)',
               'a load that raises caches nothing: the next access loads again (loads = invocations that returned, '
               'tries = all invocations); a loader returning a shared singleton (None, 0, ...) is identified by '
               'the load counter, a loader returning fresh objects by identity']
TIE = ('hand-written heap model lean/DesperModel/Tree.lean (callH/clearH/cachedH and every access path '
       'reduced to callH), correspondence-checked against desper/model/tree.py on every run')
KEEP = {'val', 'item', 'sitem', 'stat', 'cached'}


def generate(rng, tier):
    n = 1500 if tier == 'quick' else 20000
    for _ in range(n):
        yield gen_tree.gen_c12(rng)


def project(obs):
    return [o for o in obs if o.split()[0] in KEEP]


oracle = spec_tree.oracle_for('C12')


def nontrivial(lines, obs):
    return any(o.startswith(('val h', 'item val h', 'sitem val h')) for o in obs)


def stats(scenarios, impl_obs):
    ops = [ln.split()[1] for s in scenarios for ln in s if ln.startswith('op ')]
    d = {k: ops.count(k) for k in sorted(set(ops))}
    kinds = [ln.split()[2] for s in scenarios for ln in s if ln.startswith('newhandle')]
    d['value_kinds'] = {k: kinds.count(k) for k in sorted(set(kinds))}
    d['loaded_through_map'] = sum(1 for obs in impl_obs for o in obs if o.startswith('item val h'))
    d['loaded_through_snapshot'] = sum(1 for obs in impl_obs for o in obs if o.startswith('sitem val h'))
    d['direct_calls'] = sum(1 for obs in impl_obs for o in obs if o.startswith('val h'))
    return d
