"""C13 — world switching delivers in/out events to the worlds that run."""
from harness import gen_loop, spec_loop

MODEL = 'loop'
RULE = ('corpus, then seeded random scenarios (45 % of them with the Python protocol dressing `identity`: distinct '
        'handle objects that compare equal and hash alike or are unhashable, falsy handles and falsy worlds): 1-3 world handles (1-3 processors each: plain, '
        'OnUpdateProcessor, CoroutineProcessor; 0-2 load-time events), optional pre-loading, an initial '
        'loop.switch, 1-3 start() calls of 1-8 frames in which any processor of any frame may request '
        'switch()/raise SwitchWorld with every clear flag combination (also to the current handle), call '
        'loop.switch(handle, cc, cn) directly without raising, read loop.current_world, quit or '
        'raise; scripted reactions of callbacks (on_switch_out/in, load-time callbacks, on_update, on_quit) '
        'that switch, quit or raise themselves; plus the small-scope enumeration of gen_loop.small_scope. '
        'Non-trivial: at least one switch request was served inside start(); distinct by scenario text.')
TRUSTED = ['harness/models/loop.py observes World.process through an attribute set on each world instance '
           '(the scenario handle names instances <handle>#<load number>); desper.default_loop is pointed at '
           'the SimpleLoop under test for the duration of a scenario']
ASSUMPTIONS = ['direct calls of the running loop (loop.switch, loop.time_function = ..., loop.current_world) are '
               'scripted for processors and coroutine steps, not for event callbacks; the texts leave a direct '
               'loop.switch call in mid-frame open: the model mirrors the code (nothing is abandoned, no '
               'switch events, the next iteration processes the new current world)',
               'every world has one listener that listens to all event names of the scenario; callbacks are '
               'scripted reactions (switch, quit, raise) and terminate',
               'switch() is called with from_world=None and desper.default_loop set to the loop under test',
               'a world left by a directly raised SwitchWorld is not muted by the code; the property text '
               'demands nothing about its events and the oracle follows the code there',
               'the dispatch_enabled setter pops one queued event at a time (D7 repair, commit ac9c198)']
FRAME_W = dict(gen_loop.FRAME_W, switch=8, rswitch=2)


def generate(rng, tier):
    yield from gen_loop.small_scope(('none',) if tier == 'quick' else
                                    ('none', 'rquit', 'switch 1 0 1', 'rother', 'switch 0 1 0'))
    for _ in range(2500 if tier == 'quick' else 40000):
        yield gen_loop.gen_scenario(rng, FRAME_W)


def _line(o):
    t = o.split()
    if t[0] == 'ev' and t[2] == 'on_update':
        return f'ev {t[1]} on_update'           # the delta is C14's business
    if t[0] in ('load', 'ev', 'hang', 'peek'):
        return o
    if t[0] == 'frame':
        return f'frame {t[1]}'
    if t[0] == 'proc':
        return f'proc {t[1]} {t[2]}'
    if t[0] == 'res':
        return o
    if t[0] == 'ret':
        return ' '.join(x for x in t if not x.startswith('running='))
    return None


def project(obs):
    return [x for x in map(_line, obs) if x is not None]


def oracle(lines, obs):
    return spec_loop.compare('C13', lines, obs, project)


def nontrivial(lines, obs):
    return any(' on_switch_in ' in o or ' on_switch_out ' in o for o in obs) or \
        len({o.split()[1] for o in obs if o.startswith('frame ')}) > 1


def stats(scenarios, impl_obs):
    def count(pred):
        return sum(1 for obs in impl_obs for o in obs if pred(o))
    return {'switch_in_deliveries': count(lambda o: ' on_switch_in ' in o),
            'switch_out_deliveries': count(lambda o: ' on_switch_out ' in o),
            'loads': count(lambda o: o.startswith('load ')),
            'frames': count(lambda o: o.startswith('frame ')),
            'scenarios_with_reactions': sum(1 for s in scenarios if any(l.startswith('react') for l in s)),
            'clear_flag_requests': sum(1 for s in scenarios for l in s for a in l.split(';')
                                       if 'switch' in a and a.split()[-2:] != ['0', '0'] and
                                       a.split()[-1] in '01' and ('1' in a.split()[-2:]))}
