"""C05 — Deferred entity deletion is applied at the next process, safely."""
from harness.props import _world

MODEL = _world.MODEL
ASSUMPTIONS = _world.ASSUMPTIONS
RULE = ('seeded random histories biased towards touching an entity again between delete_entity and process '
        '(components removed one by one, deleted again, deleted immediately, re-created under the same id), '
        'several process() calls afterwards, scripted raising on_remove callbacks / processors in a share of '
        'the scenarios, and - one scenario in three - callbacks (on_remove, on_add, processors, plain events) '
        'that call delete_entity themselves, also while the sweep of process() is running; observed: entity_exists/entities/get_components around process, order of on_remove '
        'versus Processor.process calls, exceptions of process.  Non-trivial as for C01.')
TAGS = ('exists', 'entities', 'row', 'cb', 'res')
CLAUSES = {'entity_exists', 'entities', 'get_components', 'process-raised', 'process-keeps-failing',
           'process-calls', 'unexpected-callback', 'missing-callback', 'wrong-callback', 'sweep-set', 'outcome',
           'shape', 'truncated', 'hang'}
generate, project, oracle, nontrivial, stats = _world.make(
    'C05', TAGS, CLAUSES, [
        dict(n_comp=(1, 4), n_proc=(0, 2), handlers=0.6, raises=0.25,
             w=dict(delete=7, process=5, remove=5, create=3, add=3, clear=1.0, enable=0.7, dispatch=0.3)),
        dict(n_comp=(1, 4), n_proc=(0, 2), handlers=0.6, raises=0.25,
             w=dict(delete=7, process=5, remove=5, create=3, add=3, clear=1.0, enable=0.7, dispatch=0.3)),
        # callbacks that call delete_entity themselves (an owner's on_remove deleting what it owns, ...)
        dict(n_comp=(2, 4), n_proc=(0, 2), handlers=0.9, raises=0.15, reacts=0.9, traits=0.5,
             w=dict(delete=7, process=6, remove=4, create=5, add=4, clear=0.8, enable=0.3, dispatch=0.3)),
        # callbacks that call back into the same world while it is being changed (the sweep included)
        dict(n_comp=(2, 4), n_proc=(0, 2), handlers=0.9, reenter=0.95,
             w=dict(delete=7, process=6, remove=4, create=5, add=4, clear=0.8, enable=0.3, dispatch=0.3)),
    ])
