"""C03 — an enabled dispatcher delivers each event once to each listener."""
from harness import gen_disp, spec_disp

MODEL = 'disp'
RULE = ('seeded random scenarios: 1-5 handler classes (single mapping lineage + mixins, decorator with '
        'positional and keyword mappings), 1-5 handler objects with scripted __hash__ (permutes the set '
        'order), 1-25 top-level add/remove/dispatch/is_handler operations and scripted re-entrant '
        'reactions (add/remove/dispatch/raise from inside callbacks); one scenario in four also toggles '
        'dispatch_enabled from the top level and from callbacks and ends enabled.  Non-trivial: at least one callback '
        'was delivered; distinct by hash of the scenario text.')
ASSUMPTIONS = ['handler class hierarchies carry __events__ along a single lineage (multi-lineage MRO '
               'lookup is unspecified by the property, DESIGN §2)',
               'callbacks are scripted reactions made of dispatcher operations; user programs terminate']
KINDS = ['add', 'add', 'remove', 'dispatch', 'dispatch', 'dispatch', 'ishandler']


def generate(rng, tier):
    n = 400 if tier == 'quick' else 8000
    for i in range(n):
        if i % 8 == 5:
            yield gen_disp.gen_churn(rng)
            continue
        lines, objs, mapping_of = gen_disp.gen_universe(rng)
        # one scenario in four also switches dispatching off and on again (from the top level and from
        # inside callbacks, which may raise half-way through a release): "while dispatching is enabled"
        # covers every history that ends up enabled, not only the ones that never disabled
        toggles = i % 4 == 3
        rk = ['add', 'remove', 'dispatch'] + (['enable'] if toggles else [])
        lines += gen_disp.gen_reactions(rng, objs, mapping_of, rk, raise_p=0.3 if toggles else 0.15)
        if i % 3 == 1:
            lines.append(f'decoy {rng.randint(0, 999)}')      # a second dispatcher in the same process
        for o in objs:
            if rng.random() < 0.7:
                lines.append(f'op add {o}')
        # (one scenario in four: the program also lets handlers go — a handler created later may get the
        # address of a dead one)
        kinds = KINDS + (['enable', 'enable'] if toggles else []) + (['drop', 'drop'] if i % 4 == 2 else [])
        for _ in range(rng.randint(1, 25)):
            lines.append('op ' + gen_disp.gen_op(rng, objs, kinds))
        if toggles:
            lines += ['op enable 1', 'op enable 1']
            for _ in range(rng.randint(1, 4)):
                lines.append('op ' + gen_disp.gen_op(rng, objs, ['dispatch']))
        yield lines


def project(obs):
    return [o for o in obs if o.split()[0] in ('events', 'cb', 'ish', 'res', 'gone', 'hang')]


def oracle(lines, obs):
    return spec_disp.compare('C03', spec_disp.expected(lines, obs), obs, project)


def nontrivial(lines, obs):
    return any(o.startswith('cb ') for o in obs)


def stats(scenarios, impl_obs):
    cbs = sum(1 for obs in impl_obs for o in obs if o.startswith('cb '))
    raised = sum(1 for obs in impl_obs for o in obs if o.startswith('res raised'))
    nested = sum(1 for s in scenarios for ln in s if ln.startswith('react'))
    return {'callbacks': cbs, 'ops_raised': raised, 'reaction_lines': nested,
            'ops': sum(1 for s in scenarios for ln in s if ln.startswith('op '))}
