"""C09 — coroutine lifecycle: state, kill, restart and promise are coherent."""
from harness import gen_coro, spec_coro


def kind_of(o):
    """first token of an observation line, past the instance mark `@k`"""
    t = o.split()
    return t[1] if t[0].startswith('@') and len(t) > 1 else t[0]

MODEL = 'coro'
RULE = ('seeded random histories: 1-4 generator scripts whose bodies start/kill/query generators '
        '(themselves included, and a non-generator object), 1-25 top-level start/kill/state/process/value '
        'operations; states of all generators observed after every operation, through the processor and '
        'through the current promise; weak references checked after gc.collect() at the end; plus the '
        'hand-written corpus (D10, D29, equal-deadline witnesses); plus a family in which 2-4 coroutines yield '
        'the SAME positive wait in the same frame and waiting ones are killed and at once started again '
        '(from outside or by a controller body), each in turn, followed by frames past the deadline; plus families with bodies that leave with an '
        'exception while others are queued before and behind them (the caller goes on calling process, '
        'queries and kills the raiser) and bodies that kill themselves mid-queue; waits / dt as Fraction, int, bool; a second '
        'processor side by side (non-interference); worlds whose CoroutineProcessor is reached through '
        '@desper.coroutine (world= argument and default-loop form), replaced by world.add_processor and '
        'removed, with world.process() driving the current one: a decorated start must behave like a direct '
        'start on the CURRENT processor; plus small-scope exhaustive enumeration: every history of '
        '<= 4 (thorough: <= 6; three script families, one with two sleepers on the same deadline) operations from {start, kill} x {0, 1} and process '
        '{1/2 s, 1 s} over two generators that kill / restart each other and themselves.  Non-trivial: at '
        'least one body ran and at least one kill (top-level or in-body) succeeded; distinct by hash of '
        'the scenario text.')
ASSUMPTIONS = ['generator bodies terminate, catch the exceptions of their own start/kill/state calls, do not '
               'call process() themselves and yield None or numbers; a body may leave with an exception '
               '(Quit / SwitchWorld / errors): the coroutine is then over - TERMINATED and released as soon '
               'as the aborted call has returned, its promise stays empty',
               'waits and dt are multiples of 1/8 s, given as float, Fraction, int or bool (not Decimal)',
               'starting through @desper.coroutine is a way to start: the lifecycle clauses are required of what '
               'world.process() then does with the world\'s current CoroutineProcessor; a replaced processor is a '
               'new, empty processor (coroutines left in the old one are no longer the world\'s)']
TIE = ('correspondence check: the Lean model lean/DesperModel/Coro.lean and the real CoroutineProcessor '
       'run the same generated histories; compared: execution log of bodies, results of in-body and '
       'top-level start/kill/state, exception classes, promise values, states after every operation, '
       'generators still referenced at the end')
TRUSTED = ['CPython generator objects, gc and weakref (collectability is checked by the oracle on the '
           'implementation only; the model states it as absence from every table)']


def generate(rng, tier):
    n = 1500 if tier == 'quick' else 30000
    for _ in range(n):
        yield gen_coro.gen_lifecycle(rng, tier)
    for _ in range(n // 3):
        yield gen_coro.gen_same_wait(rng, tier)
    for _ in range(n // 3):
        yield gen_coro.gen_raise(rng, tier)
    for _ in range(n // 6):
        yield gen_coro.gen_self_kill(rng, tier)
    # supervisor coroutines: bodies acting on OTHER coroutines, then waiting / yielding / returning
    for _ in range(n // 3):
        yield gen_coro.gen_supervisor(rng, tier)
    # waits and dt in other numeric types; a second processor living side by side; worlds whose
    # coroutine processor is reached through the decorator, replaced and removed
    for _ in range(n // 5):
        yield gen_coro.retype(rng, gen_coro.gen_lifecycle(rng, tier))
    for _ in range(n // 6):
        yield gen_coro.with_decoy(rng, gen_coro.gen_lifecycle(rng, tier), gen_coro.gen_same_wait(rng, tier))
    for _ in range(n // 4):
        yield gen_coro.gen_world(rng, tier)
    for _ in range(n // 10):
        yield gen_coro.with_decoy(rng, gen_coro.gen_world(rng, tier), gen_coro.gen_world(rng, tier))
    if tier == 'quick':
        # small-scope exhaustive: every history of <= 4 operations over 6 operations, 2 generators
        yield from gen_coro.enum_lifecycle(4, families=(0, 1, 2))
    else:
        for _ in range(10000):
            yield gen_coro.gen_lifecycle(rng, tier, max_gens=2, max_ops=8)
        yield from gen_coro.enum_lifecycle(6, families=(0, 1, 2))


def project(obs):
    return [o for o in obs if kind_of(o) in ('step', 'act', 'res', 'states', 'retained', 'hang')]


def project_oracle(obs):
    return [o for o in obs if kind_of(o) in ('step', 'act', 'res', 'states', 'pstates', 'retained',
                                               'hang')]


def oracle(lines, obs):
    if not any('pstates' in o for o in obs):      # the model's stream has no promise view
        return spec_coro.compare('C09', lines, obs, project)
    return spec_coro.compare('C09', lines, obs, project_oracle)


def nontrivial(lines, obs):
    ran = any(o.startswith('step ') for o in obs)
    killed_in_body = any(o.startswith('act ') and o.split()[3] == 'kill' and o.endswith(' ok') for o in obs)
    ops = [ln.split()[1] for ln in lines if ln.startswith('op ')]
    res = [o for o in obs if o.startswith('res ')]
    killed_top = any(k == 'kill' and r == 'res ok' for k, r in zip(ops, res))
    return ran and (killed_in_body or killed_top)


def stats(scenarios, impl_obs):
    def count(pred):
        return sum(1 for obs in impl_obs for o in obs if pred(o))
    return {'ops': sum(1 for s in scenarios for ln in s if ln.startswith('op ')),
            'steps_executed': count(lambda o: o.startswith('step ')),
            'in_body_actions': count(lambda o: o.startswith('act ')),
            'ValueError': count(lambda o: o.endswith('raised ValueError')),
            'TypeError': count(lambda o: o.endswith('raised TypeError')),
            'process_raised': count(lambda o: o.startswith('res raised') and
                                    not o.endswith(('ValueError', 'TypeError')))}
