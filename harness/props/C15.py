"""C15 — a loaded world contains exactly what its description says."""
from harness import gen_loader, spec_loader

MODEL = 'loader'
RULE = ('seeded random scenarios: 2-8 component/processor classes in inheritance chains (also below the default processors; handlers of on_add / on_world_load / other '
        'events under their own or renamed methods, priorities -2..2) living in a real importable module, '
        'a resolve table (classes, aliases through a namespace object, plain objects, objects deepcopy '
        'cannot copy, strings), a real ResourceMap tree with counting handles and the world handle in it, '
        'a description of 0-5 processors (derived before base, base before derived, the same exact type twice) and 0-4 entities (optional int/str ids, 0-3 components, 0-4 args, '
        '0-3 kwargs, absent or empty args/kwargs/components keys) whose arguments are JSON scalars, nested '
        'lists/objects, exact references ${..} $res{..} $handle{..}, near-misses, marker-prefixed strings '
        'with trailing text / inner braces / newlines and unresolvable references; loaded as a JSON file '
        'by a WorldFromFileHandle (in the tree or free-standing), as a dictionary through a WorldHandle, '
        'or with populate_world_from_dict on a World; in a third of the clean file scenarios 1-3 further loads of the same file against the same tree (world handle cleared and called again, or a second WorldFromFileHandle) with resource handles cleared and replaced in between, resolved values named by handle id and load counter; in about a tenth of the handle scenarios a load that fails part-way (a $res{} target that is put into the tree only later, constructors raising on scripted calls, unknown names) followed by further handle() calls with or without the cause repaired; in a third of the file scenarios a second, bigger tree with resources under the same paths into which the map holding the world handle is mounted / moved / unmounted between loads; in about a seventh of the clean handle scenarios scripted reactions of listed components / processors (on_add, on_world_load, other events) that suspend and resume dispatching, create entities, add / remove components and dispatch events while the postponed events are delivered (the model follows the receiver order of the implementation, given as hints that it validates; the world is dumped again afterwards); plus 1-4 strings per scenario matched by the three '
        'regular expressions of desper and by the model, and every string marker+w with w over {$ { } a . \\n} '
        'up to length 3 (quick) / 5 (thorough).  Non-trivial: the load succeeded and built at '
        'least one instance; distinct by hash of the scenario text.')
ASSUMPTIONS = [
    'well-formed descriptions: distinct processor types (also distinct from the two default ones for file '
    'handles), distinct component types per entity, explicit identifiers distinct from each other and '
    'from the automatic ones that are used (decidable predicate WellFormed of the theorems; outside it '
    'World.create_entity / add_processor merge or replace, which is C01/C02/C07 territory)',
    'only the arguments themselves are resolved, not strings nested in lists or dictionaries '
    '("String arguments of the forms ... are replaced"; the code maps the top-level args and kwargs values)',
    'strings that begin with a marker but are not marker + name + "}" are left unconstrained (DESIGN section 2)',
    'constructors are opaque: an instance is identified with the class and the arguments it recorded',
    'json.load, importlib, lru_cache, copy and re are modelled, not verified (re is cross-checked on every run)',
]
TIE = ('correspondence check: the Lean model (transformer pipeline, regex functions, populate, world tables, '
       'event queue) and the real desper loader run on the same generated scenarios (real JSON file, real '
       'importable module, real ResourceMap tree) and every observation line is compared; the regex '
       'functions of the model are compared with desper.model.world.*_STRING_REGEX.match on generated strings')
TRUSTED = ['CPython json/importlib/re/copy; the harness classes that record constructor arguments']


def generate(rng, tier):
    yield from gen_loader.rx_exhaustive(3 if tier == 'quick' else 5)
    n = 700 if tier == 'quick' else 12000
    for _ in range(n):
        yield gen_loader.gen_scenario(rng)


def project(obs):
    return list(obs)


def oracle(lines, obs):
    return spec_loader.oracle(lines, obs, 'C15')


def nontrivial(lines, obs):
    return 'res ok' in obs and any(o.startswith('inst ') for o in obs)


def stats(scenarios, impl_obs):
    from collections import Counter
    c = Counter()
    for s, obs in zip(scenarios, impl_obs):
        mode = next((ln for ln in s if ln.startswith('mode ')), 'mode file intree')
        c[mode] += 1
        res = next((o for o in obs if o.startswith('res ')), 'res none')
        c[res] += 1
        c['instances'] += sum(1 for o in obs if o.startswith('inst '))
        c['callbacks'] += sum(1 for o in obs if o.startswith('cb '))
        c['rx_lines'] += sum(1 for o in obs if o.startswith('rx '))
        c['further_loads'] += sum(1 for o in obs if o.startswith('load '))
        c['mount_steps'] += sum(1 for ln in s if ln.startswith('step mount') or ln.startswith('step unmount'))
        c['reaction_lines'] += sum(1 for ln in s if ln.startswith('react '))
        c['spawned_instances_attached'] += sum(o.count(':C') for o in obs if o.startswith('post-ent ') and 'x' in o)
        c['re_enabled'] += sum(int(o.split()[1]) for o in obs if o.startswith('re-enabled '))
        res = [o for o in obs if o.startswith('res ')]
        c['ok_after_failed_load'] += sum(1 for a, b in zip(res, res[1:]) if a.startswith('res raised') and b == 'res ok')
        c['same_world_calls'] += res.count('res same-world')
        c['ctor_raised'] += res.count('res raised CtorError')
        c['proc_classes_with_base'] += sum(1 for ln in s if ln.startswith('cls ') and ' proc ' in ln and 'base=' in ln)
        c['rx_matches'] += sum(1 for o in obs if o.startswith('rx ') and o != 'rx - - -')
        for o in obs:
            if o.startswith('inst '):
                for t in o.split()[3:]:
                    if t[0] in 'RPHMC' and t[1:].replace('.', '').isdigit() or t == 'HW':
                        c['resolved_' + t[0]] += 1
    return dict(c)
