"""C01 — World queries always agree on who owns which component."""
from harness.props import _world

MODEL = _world.MODEL
ASSUMPTIONS = _world.ASSUMPTIONS
RULE = ('seeded random histories of 1-25 World operations (create with automatic or imposed int/str ids, add, '
        'replace, remove by (super)type, deferred/immediate delete, process, clear, dispatch toggles) over '
        'random class DAGs (chains, diamonds) with re-use of live entities and types; after EVERY operation all '
        'six queries are observed for 7 entity ids x every component type.  Non-trivial: >= 2 operations and '
        'at least one non-empty get(); distinct by scenario hash.')
TAGS = ('get', 'getall', 'row', 'exists', 'has', 'entities', 'ret', 'res')
CLAUSES = {'get', 'get-lists-pair-twice', 'get_components', 'entity_exists', 'has_component', 'get_component',
           'entities', 'create-entity-id', 'outcome', 'shape', 'truncated', 'hang', 'remove-result',
           'remove-matches-subtype', 'return-value'}
generate, project, oracle, nontrivial, stats = _world.make(
    'C01', TAGS, CLAUSES, [
        dict(n_proc=(0, 1), handlers=0.2, traits=0.5, decoy=0.4,
             w=dict(addproc=0.5, rmproc=0, dispatch=0, enable=0.5)),
        # histories in which lifecycle callbacks raise half-way through an operation
        dict(n_comp=(2, 5), n_proc=(0, 1), handlers=0.8, raises=0.8, dup_in_create=0.3, reacts=0.5,
             w=dict(addproc=0.3, rmproc=0, dispatch=0, enable=0.5, delete=5, process=3, create=5)),
        # callbacks that call back into the same world (nested add / remove / delete / create / processors)
        dict(n_comp=(2, 5), n_proc=(0, 2), handlers=0.9, reenter=0.95,
             w=dict(addproc=1, rmproc=0.5, dispatch=0.3, enable=0.3, delete=4, process=3, create=5, remove=4)),
    ])
