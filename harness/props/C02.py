"""C02 — Component lifecycle callbacks fire exactly once per attach/detach."""
from harness.props import _world

MODEL = _world.MODEL
ASSUMPTIONS = _world.ASSUMPTIONS
RULE = ('seeded random histories of 1-25 World operations interleaved with enabling/disabling dispatching and '
        'probe events, over handler and non-handler component classes with every subset of {on_add, on_remove, '
        'probe events} (also remapped to other method names), scripted raising callbacks in a share of the '
        'scenarios (a postponed callback raising during the release: the later ones must stay pending); observed: every callback with receiver, owner '
        'entity and world, is_handler of every handler object and the controller-recorded owner after every '
        'operation.  Non-trivial: >= 2 operations and a non-empty get(); distinct by scenario hash.')
TAGS = ('cb', 'ish', 'ctl', 'res')
CLAUSES = {'unexpected-callback', 'missing-callback', 'wrong-callback', 'registered-iff-attached',
           'controller-owner', 'outcome', 'shape', 'truncated', 'hang'}
generate, project, oracle, nontrivial, stats = _world.make(
    'C02', TAGS, CLAUSES, [
        dict(n_proc=(0, 1), handlers=0.85, ctrl=0.2, raises=0.3,
             w=dict(addproc=0.3, rmproc=0.2, enable=3, dispatch=2, clear=0.7)),
        dict(n_proc=(0, 1), handlers=0.85, ctrl=0.2, raises=0.3,
             w=dict(addproc=0.3, rmproc=0.2, enable=3, dispatch=2, clear=0.7)),
        # handler components that are value objects (dataclass style: instances compare equal, may be
        # unhashable or falsy) and a second world of the same classes in the same process
        dict(n_proc=(0, 1), handlers=0.85, ctrl=0.2, traits=0.9, decoy=0.4,
             w=dict(addproc=0.3, rmproc=0.2, enable=3, dispatch=2, clear=0.7)),
    ])
