"""C02 — Component lifecycle callbacks fire exactly once per attach/detach."""
from harness.props import _world

MODEL = _world.MODEL
ASSUMPTIONS = _world.ASSUMPTIONS
RULE = ('seeded random histories of 1-25 World operations interleaved with enabling/disabling dispatching and '
        'probe events, over handler and non-handler component classes with every subset of {on_add, on_remove, '
        'probe events} (also remapped to other method names), scripted raising callbacks in a share of the '
        'scenarios (a postponed callback raising during the release: the later ones must stay pending); observed: every callback with receiver, owner '
        'entity and world, is_handler of every handler object and the controller-recorded owner after every '
        'operation.  Non-trivial: >= 2 operations and a non-empty get(); distinct by scenario hash.')
TAGS = ('cb', 'ish', 'ctl', 'res')
CLAUSES = {'unexpected-callback', 'missing-callback', 'wrong-callback', 'registered-iff-attached',
           'controller-owner', 'outcome', 'shape', 'truncated', 'hang',
           # known-finding territory (recorded by the oracle, matched against known_findings.jsonl)
           'clear-while-disabled-loses-postponed', 'duplicate-type-in-create-entity'}
generate, project, oracle, nontrivial, stats = _world.make(
    'C02', TAGS, CLAUSES, [
        dict(n_proc=(0, 1), handlers=0.85, ctrl=0.2, raises=0.3,
             w=dict(addproc=0.3, rmproc=0.2, enable=3, dispatch=2, clear=1.3)),
        dict(n_proc=(0, 1), handlers=0.85, ctrl=0.2, raises=0.3,
             w=dict(addproc=0.3, rmproc=0.2, enable=3, dispatch=2, clear=1.3)),
        # handler components that are value objects (dataclass style: instances compare equal, may be
        # unhashable or falsy) and a second world of the same classes in the same process
        dict(n_proc=(0, 1), handlers=0.85, ctrl=0.2, traits=0.9, decoy=0.4,
             w=dict(addproc=0.3, rmproc=0.2, enable=3, dispatch=2, clear=1.3)),
        dict(n_proc=(0, 2), handlers=0.9, ctrl=0.2, reenter=0.95,
             w=dict(addproc=1, rmproc=0.5, enable=0.5, dispatch=0.5, clear=0.3, delete=4, process=2)),
    ])


# ---------------------------------------------------------------------------- objects the program lets go of
from harness.props import C10 as _c10       # noqa: E402


class _ForgetStream(_c10._WorldStream):
    """World histories in which the program drops its references (a removed component whose return value
    is thrown away, ...): a postponed on_add / on_remove still reaches its component, in order."""

    @staticmethod
    def oracle(lines, obs):
        from harness import spec_world
        out = []
        for v in spec_world.check(lines, obs):
            if v['sig'].split(':')[0] in CLAUSES | {'outcome', 'kept-alive', 'collected-while-attached'}:
                out.append({'sig': 'C02:forget:' + v['sig'], 'what': v['what']})
        return out


def stream_for(lines):
    return _ForgetStream if any(ln.startswith('op forget') for ln in lines) else None


def extra_checks(ctx):
    import random
    from harness import core
    from harness.models import world as impl_world
    rng = random.Random(ctx.seed * 7907 + 2)
    n = 150 if ctx.tier == "quick" else 1000
    corpus = sorted((core.VERIF / 'corpus' / 'C02' / 'forget').glob('*.scn'))
    scen = [[ln for ln in f.read_text().splitlines() if ln.strip() and not ln.startswith('#')] for f in corpus] + \
        list(_ForgetStream.generate(rng, n))
    divs, nontriv, impl_obs, _ = core.correspondence(ctx, _ForgetStream, impl_world, scen, 'forget')
    if divs:
        ctx.broken.append({'kind': 'correspondence', 'stream': 'forget', 'count': len(divs), 'first': divs[0]})
    ctx.cov['forget_stream'] = {'scenarios': n, 'nontrivial': len(nontriv),
                                'forget_ops': sum(1 for s in scen for l in s if l.startswith('op forget'))}
