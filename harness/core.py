"""Shared check pipeline (see DESIGN.md §3.3).

A property plug-in is a module ``harness/props/Cxx.py`` exposing

    MODEL      : str                       model name understood by the Lean driver
    generate(rng, tier) -> iterable of scenarios (each a list[str] of lines)
    project(obs: list[str]) -> list[str]   the observation lines this property compares
    oracle(lines, obs) -> list[dict]       executable statement of the property over one
                                           observation stream; [] when it holds, else
                                           dicts {'sig': str, 'what': str}
    nontrivial(lines, obs) -> bool         rule for coverage.distinct_nontrivial
    RULE       : str                       the rule in words
    (optional) pre_build() -> dict         e.g. the C18 translator; may raise MachineryError
    (optional) extra_checks(ctx) -> None   property specific additions (may add to ctx)
    (optional) ASSUMPTIONS : list[str]

and a model plug-in is a module ``harness/models/<model>.py`` exposing

    run_impl(lines) -> (obs: list[str], hints: list[str])

which runs the real desper code in-process on the scenario.  ``hints`` are lines that are
put in front of the scenario before it is given to the Lean model (the implementation's
resolution of choices Python leaves unspecified; the model validates them).
"""
from __future__ import annotations

import fcntl
import gc
import hashlib
import importlib
import json
import os
import pathlib
import random
import re
import signal
import subprocess
import sys
import time
import traceback

VERIF = pathlib.Path(__file__).resolve().parent.parent
LEAN = VERIF / 'lean'
REPO = os.environ.get('DESPER_REPO', '/repo')
DRIVER = LEAN / '.lake' / 'build' / 'bin' / 'driver'
ALLOWED_AXIOMS = {'propext', 'Classical.choice', 'Quot.sound'}
FORBIDDEN = re.compile(r'\bsorry\b|\badmit\b|^\s*axiom\s|native_decide|bv_decide|implemented_by|'
                       r'\bunsafe\s|maxHeartbeats\s+0\b')


class MachineryError(Exception):
    """Internal error of the verification machinery: exit 2, never a VIOLATION."""


def use_repo():
    """Make ``import desper`` resolve to the tree under test."""
    if sys.path[0] != REPO:
        sys.path.insert(0, REPO)
    for name in list(sys.modules):
        if name == 'desper' or name.startswith('desper.'):
            mod = sys.modules[name]
            f = getattr(mod, '__file__', '') or ''
            if not f.startswith(REPO.rstrip('/') + '/'):
                del sys.modules[name]


# --------------------------------------------------------------------------- Lean side

def _run(cmd, cwd, timeout=3600):
    p = subprocess.run(cmd, cwd=cwd, stdout=subprocess.PIPE, stderr=subprocess.STDOUT,
                       text=True, timeout=timeout)
    return p.returncode, p.stdout


class BuildLock:
    def __enter__(self):
        self.f = open(VERIF / '.lock', 'w')
        fcntl.flock(self.f, fcntl.LOCK_EX)
        return self

    def __exit__(self, *a):
        fcntl.flock(self.f, fcntl.LOCK_UN)
        self.f.close()


def theorem_names(pid):
    src = (LEAN / 'DesperProofs' / 'Props' / f'{pid}.lean').read_text()
    return re.findall(r'^theorem\s+([A-Za-z0-9_.\']+)', strip_comments(src), flags=re.M)


def strip_comments(src):
    # block comments (possibly nested) and line comments
    out, depth, i = [], 0, 0
    while i < len(src):
        if src.startswith('/-', i):
            depth += 1
            i += 2
        elif src.startswith('-/', i) and depth:
            depth -= 1
            i += 2
        elif depth:
            if src[i] == '\n':
                out.append('\n')
            i += 1
        elif src.startswith('--', i):
            j = src.find('\n', i)
            i = len(src) if j < 0 else j
        else:
            out.append(src[i])
            i += 1
    return ''.join(out)


def lean_sources():
    for d in ('DesperModel', 'DesperProofs', 'Driver'):
        yield from sorted((LEAN / d).rglob('*.lean'))


def import_closure(roots):
    """Local Lean files reachable through `import DesperModel.* / DesperProofs.* / Driver.*`."""
    seen, todo = [], list(roots)
    while todo:
        f = todo.pop()
        if f in seen or not f.exists():
            continue
        seen.append(f)
        for m in re.finditer(r'^import\s+((?:DesperModel|DesperProofs|Driver)[A-Za-z0-9_.]*)',
                             strip_comments(f.read_text()), flags=re.M):
            todo.append(LEAN / (m.group(1).replace('.', '/') + '.lean'))
    return sorted(seen)


def grep_forbidden(pid=None):
    files = list(lean_sources()) if pid is None else import_closure(
        [LEAN / 'DesperProofs' / 'Props' / f'{pid}.lean', LEAN / 'Driver' / 'Main.lean'])
    hits = []
    for f in files:
        for n, line in enumerate(strip_comments(f.read_text()).splitlines(), 1):
            if FORBIDDEN.search(line):
                hits.append(f'{f.relative_to(LEAN)}:{n}: {line.strip()}')
    return hits


def lean_build(pid):
    """lake build of the property's theorems, then of the driver.  Returns dict.

    A failure of the property's own module is a broken proof obligation; a failure that only
    concerns the driver (some other model does not compile) is a machinery error."""
    target = f'DesperProofs.Props.{pid}'
    with BuildLock():
        t0 = time.time()
        rc, out = _run(['lake', 'build', target], LEAN)
        if rc != 0 and 'clang' in out and 'frontend command failed' in out:
            rc, out = _run(['lake', 'build', target], LEAN)       # transient compiler crash: retry once
        res = {'ok': rc == 0, 'log': out, 'wall_s': round(time.time() - t0, 2),
               'cmd': f'cd lean && lake build {target} driver'}
        rc2, out2 = _run(['lake', 'build', 'driver'], LEAN)
        if rc2 != 0:
            rc2, out2 = _run(['lake', 'build', 'driver'], LEAN)
        res['wall_s'] = round(time.time() - t0, 2)
    if rc != 0:
        res['failed_theorems'] = failed_theorems(pid, out)
    if rc2 != 0:
        raise MachineryError('driver build failed:\n' + out2[-3000:])
    return res


def failed_theorems(pid, log):
    """Map `error: DesperProofs/Props/Cxx.lean:LINE` to the enclosing theorem."""
    path = LEAN / 'DesperProofs' / 'Props' / f'{pid}.lean'
    names = []
    try:
        src = path.read_text().splitlines()
    except OSError:
        return names
    for m in re.finditer(r'error: (\S+?\.lean):(\d+):', log):
        f, line = m.group(1), int(m.group(2))
        if not f.endswith(f'Props/{pid}.lean'):
            names.append(f'{f}:{line}')
            continue
        for k in range(min(line, len(src)) - 1, -1, -1):
            mm = re.match(r'(theorem|example|lemma|def)\s+([A-Za-z0-9_.\']+)?', src[k])
            if mm:
                names.append(mm.group(2) or f'example@{k + 1}')
                break
    return sorted(set(names))


def lean_audit(pid):
    """#print axioms for every theorem of the property + forbidden-token grep."""
    names = theorem_names(pid)
    (LEAN / '.audit').mkdir(exist_ok=True)
    f = LEAN / '.audit' / f'{pid}.lean'
    f.write_text(f'import DesperProofs.Props.{pid}\n' +
                 ''.join(f'#print axioms {n}\n' for n in names))
    with BuildLock():
        rc, out = _run(['lake', 'env', 'lean', str(f)], LEAN)
    axioms = {}
    for m in re.finditer(r"'([^']+)' depends on axioms: \[([^\]]*)\]", out.replace('\n', ' ')):
        axioms[m.group(1)] = sorted(a.strip() for a in m.group(2).split(',') if a.strip())
    for m in re.finditer(r"'([^']+)' does not depend on any axioms", out):
        axioms[m.group(1)] = []
    bad = {n: a for n, a in axioms.items() if not set(a) <= ALLOWED_AXIOMS}
    missing = [n for n in names if n not in axioms]
    return {'ok': rc == 0 and not bad and not missing, 'names': names, 'axioms': axioms,
            'bad': bad, 'missing': missing, 'forbidden_tokens': grep_forbidden(pid),
            'log': out if rc != 0 else ''}


def run_driver(model, scenarios):
    """scenarios: list of list[str] -> list of list[str] observations (model side)."""
    if not scenarios:
        return []
    for _ in range(60):          # a concurrent `lake build` may be relinking it right now
        if DRIVER.exists():
            break
        time.sleep(1)
    else:
        raise MachineryError(f'driver not built: {DRIVER}')
    buf = []
    for i, lines in enumerate(scenarios):
        buf.append(f'scenario {model} {i}')
        for ln in lines:
            if ln.strip() == 'end' or '\n' in ln:
                raise MachineryError(f'illegal scenario line {ln!r}')
            buf.append(ln)
        buf.append('end')
    p = subprocess.run([str(DRIVER)], input='\n'.join(buf) + '\n', stdout=subprocess.PIPE,
                       stderr=subprocess.PIPE, text=True, timeout=3600)
    if p.returncode != 0:
        raise MachineryError(f'driver exited {p.returncode}: {p.stderr[-2000:]}')
    outs, cur = [], None
    for ln in p.stdout.splitlines():
        if ln.startswith('begin '):
            cur = []
        elif ln.startswith('end '):
            outs.append(cur)
            cur = None
        elif cur is not None:
            cur.append(ln)
    if len(outs) != len(scenarios):
        raise MachineryError(f'driver answered {len(outs)} of {len(scenarios)} scenarios; '
                             f'stderr: {p.stderr[-2000:]}')
    return outs


# --------------------------------------------------------------------------- impl side

class Timeout(BaseException):
    pass


def _alarm(signum, frame):
    raise Timeout()


def run_impl_guarded(model_mod, lines, seconds=10):
    """Run the implementation on one scenario with a hang guard: `seconds` of the process's own CPU time
    (so that a loaded machine cannot turn a slow scenario into a "hang"), backed by a generous wall clock
    limit for a scenario that blocks without computing."""
    old = signal.signal(signal.SIGPROF, _alarm)
    old2 = signal.signal(signal.SIGALRM, _alarm)
    signal.setitimer(signal.ITIMER_PROF, seconds)
    signal.setitimer(signal.ITIMER_REAL, 30 * seconds)
    try:
        return model_mod.run_impl(lines)
    finally:
        signal.setitimer(signal.ITIMER_PROF, 0)
        signal.setitimer(signal.ITIMER_REAL, 0)
        signal.signal(signal.SIGPROF, old)
        signal.signal(signal.SIGALRM, old2)


def scen_hash(lines):
    return hashlib.sha1('\n'.join(lines).encode()).hexdigest()[:12]


def load_corpus(pid):
    d = VERIF / 'corpus' / pid
    out = []
    if d.is_dir():
        for f in sorted(d.glob('*.scn')):
            out.append(([ln for ln in f.read_text().splitlines()
                         if ln.strip() and not ln.startswith('#')], f.name))
    if pid in ('C03', 'C04', 'C10'):
        # the order in which a dispatcher walks its listeners depends on their addresses: every corpus
        # scenario also runs in five other memory layouts (a `decoy` line - ignored by the model - makes
        # the runner allocate a second dispatcher doing other things in between)
        for lines, name in list(out):
            for k in range(1, 6):
                out.append(([f'decoy {k}'] + [ln for ln in lines if not ln.startswith('decoy')], f'{name}#{k}'))
    return out


def load_findings(pid):
    f = VERIF / 'known_findings.jsonl'
    out = []
    if f.exists():
        for ln in f.read_text().splitlines():
            ln = ln.strip()
            if ln and not ln.startswith('#'):
                e = json.loads(ln)
                if e.get('property') == pid:
                    out.append(e)
    return out


# --------------------------------------------------------------------------- pipeline

class Ctx:
    def __init__(self, pid, tier, seed):
        self.pid, self.tier, self.seed = pid, tier, seed
        self.t0 = time.time()
        self.cov = {}
        self.broken = []          # proof obligations / correspondence streams that no longer check
        self.violations = []      # dicts {'sig','what','scenario'}
        self.known_hits = []
        self.assumptions = []
        self.notes = []


def shrink(prop, model_mod, lines, sig):
    """Greedy one-line-removal delta debugging; keeps the same violation signature."""
    def fails(ls):
        try:
            obs, _ = run_impl_guarded(model_mod, ls)
        except Timeout:
            obs = ['hang']
        except Exception:
            return False
        try:
            return any(v['sig'] == sig for v in prop.oracle(ls, obs))
        except Exception:
            return False
    cur = list(lines)
    changed = True
    # (mutant trials bound the effort: only the verdict matters there)
    budget = int(os.environ.get('VERIF_SHRINK_BUDGET') or 400)
    while changed and budget > 0:
        changed = False
        for i in range(len(cur) - 1, -1, -1):
            budget -= 1
            if budget <= 0:
                break
            cand = cur[:i] + cur[i + 1:]
            if fails(cand):
                cur = cand
                changed = True
    return cur


def evidence_dir():
    # mutant trials (harness/seedtest.py) redirect their output so that committed evidence stays
    # the one produced against /repo itself
    return pathlib.Path(os.environ.get('VERIF_EVIDENCE_DIR') or (VERIF / 'evidence'))


def write_replay(pid, payload):
    d = evidence_dir() / 'replay'
    d.mkdir(parents=True, exist_ok=True)
    h = hashlib.sha1(json.dumps(payload, sort_keys=True).encode()).hexdigest()[:10]
    f = d / f'{pid}-{h}.json'
    f.write_text(json.dumps(payload, indent=1))
    try:
        return str(f.relative_to(VERIF))
    except ValueError:
        return str(f)


def anchored_files(pid):
    for ln in (VERIF / 'properties.jsonl').read_text().splitlines():
        if ln.strip():
            p = json.loads(ln)
            if p['id'] == pid:
                return [os.path.join(REPO, f) for f in p['anchors']['files']]
    return []


def correspondence(ctx, prop, model_mod, scenarios, label):
    """Run implementation and model on the same scenarios; diff; evaluate the oracle."""
    impl_obs, hints, errs = [], [], 0
    cov = None
    if label == 'main' and os.environ.get('VERIF_NO_COVERAGE') != '1':
        try:
            import coverage
            files = [f for f in anchored_files(ctx.pid) if os.path.exists(f)]
            if files:
                cov = coverage.Coverage(include=files, data_file=None, config_file=False)
                cov.start()
        except Exception:       # noqa  (coverage is a convenience: never a reason to fail)
            cov = None
    try:
        hangs = 0
        gc.collect()
        gc.freeze()
        gc_done, gc_cost = time.time(), 0.0
        for n, lines in enumerate(scenarios):
            try:
                obs, hs = run_impl_guarded(model_mod, lines)
            except Timeout:
                obs, hs = ['hang'], []
                hangs += 1
            impl_obs.append(obs)
            hints.append(hs)
            if hangs >= 3:
                # every hang costs the full guard time and one is already a violation: stop this stream
                ctx.cov['stopped_after_hangs'] = {'stream': label, 'scenarios_run': n + 1, 'of': len(scenarios)}
                scenarios = scenarios[:n + 1]
                break
            if n % 100 == 99 and time.time() - gc_done > 20 * gc_cost:
                # scenarios define classes; collect them so that subclass registries do not grow.  The
                # runners call gc.collect() themselves (is a forgotten object still alive?): everything
                # that exists now is moved out of the collector's sight, so that those calls only walk
                # what the next scenarios create instead of the whole heap of the run
                # (a full collection walks everything recorded so far: at most 5 % of the run goes into it)
                t_gc = time.time()
                gc.unfreeze()
                gc.collect()
                gc.freeze()
                gc_done = time.time()
                gc_cost = gc_done - t_gc
    finally:
        gc.unfreeze()
        if cov is not None:
            cov.stop()
            try:
                rep = {}
                for f in anchored_files(ctx.pid):
                    if os.path.exists(f):
                        _, stmts, _, missing, _ = cov.analysis2(f)
                        src = pathlib.Path(f).read_text().splitlines()

                        def body(n):
                            # definitions run at import time, before measuring starts: count bodies only
                            t = src[n - 1] if n <= len(src) else ''
                            st = t.strip()
                            return t.startswith(' ') and not st.startswith(('def ', 'class ', '@', '"""')) \
                                and not (len(t) - len(t.lstrip()) == 4 and '=' in st and '(' not in st.split('=')[0]
                                         and not st.startswith(('self.', 'return', 'if ', 'for ', 'while ')))
                        bstmts = [n for n in stmts if body(n)]
                        bmiss = [n for n in missing if body(n)]
                        rep[os.path.relpath(f, REPO)] = {
                            'body_statements': len(bstmts), 'executed': len(bstmts) - len(bmiss),
                            'not_executed_lines': bmiss[:80]}
                ctx.cov['anchored_line_coverage'] = rep
            except Exception as e:      # noqa
                ctx.cov['anchored_line_coverage'] = {'error': str(e)}
    model_in = [hs + lines for hs, lines in zip(hints, scenarios)]
    model_obs = run_driver(prop.MODEL, model_in)
    divergences = []
    nontrivial = set()
    known_sigs = {e['sig'] for e in load_findings(ctx.pid) if e.get('status') == 'known'}
    for lines, io, mo, hs in zip(scenarios, impl_obs, model_obs, hints):
        if any(o.startswith('SKIP ') for o in io):
            # the runner could not observe something the comparison needs (stated in the line)
            ctx.cov['skipped_scenarios'] = ctx.cov.get('skipped_scenarios', 0) + 1
            continue
        pi, pm = prop.project(io), prop.project(mo)
        if any(o.startswith('bad-op') or o == 'not-implemented' or o == 'bad-model' for o in mo):
            raise MachineryError(f'model rejected scenario: {mo[:5]} in {lines[:40]}')
        if pi != pm:
            k = next((j for j, (a, b) in enumerate(zip(pi, pm)) if a != b), min(len(pi), len(pm)))
            divergences.append({'scenario': lines, 'hints': hs, 'first_diff_index': k,
                                'impl': pi[max(0, k - 3):k + 3], 'model': pm[max(0, k - 3):k + 3]})
        for v in prop.oracle(lines, io):
            if v['sig'] in known_sigs:
                ctx.known_hits.append(v['sig'])
            else:
                ctx.violations.append({**v, 'scenario': lines, 'stream': label})
        # spec self-check: the oracle must accept the model's own output whenever the theorems
        # say the property holds of the model (skipped for scenarios in known-finding territory)
        if pi == pm:
            pass
        else:
            mv = [v for v in prop.oracle(lines, mo) if v['sig'] not in known_sigs]
            if mv:
                ctx.notes.append({'oracle_rejects_model': mv[:2], 'scenario': lines})
        if prop.nontrivial(lines, io):
            nontrivial.add(scen_hash(lines))
    return divergences, nontrivial, impl_obs, model_obs


def run_check(pid, tier, seed):
    ctx = Ctx(pid, tier, seed)
    use_repo()
    prop = importlib.import_module(f'harness.props.{pid}')
    model_mod = importlib.import_module(f'harness.models.{prop.MODEL}')
    cov = ctx.cov

    # 1. regenerate (translators) -------------------------------------------------------------
    if hasattr(prop, 'pre_build'):
        cov['pre_build'] = prop.pre_build()

    # 2. build + audit ------------------------------------------------------------------------
    b = lean_build(pid)
    cov['checker_cmd'] = b['cmd'] + ' && lake env lean .audit/%s.lean  (#print axioms)' % pid
    cov['build_wall_s'] = b['wall_s']
    names = theorem_names(pid)
    cov['obligations'] = len(names)
    if not b['ok']:
        ctx.broken.append({'kind': 'proof', 'theorems': b.get('failed_theorems', []),
                           'log_tail': b['log'][-3000:]})
        cov['discharged'] = 0
        cov['theorems'] = names
    else:
        a = lean_audit(pid)
        cov['theorems'] = a['names']
        cov['axioms'] = a['axioms']
        if a['forbidden_tokens']:
            raise MachineryError('forbidden tokens in Lean sources: %s' % a['forbidden_tokens'])
        if not a['ok']:
            raise MachineryError('axiom audit failed: %s %s %s' % (a['bad'], a['missing'], a['log'][-1500:]))
        cov['discharged'] = len([n for n in a['names'] if n in a['axioms']])
    used = sorted({x for v in cov.get('axioms', {}).values() for x in v})
    cov['trusted_base'] = [
        'Lean 4.33.0 kernel; axioms used by the theorems of this property: %s' % (used or 'none'),
        'no sorry/admit/axiom/native_decide/bv_decide in the Lean files this property and the driver import (grep on every run)',
        'model<->code tie: ' + getattr(prop, 'TIE', 'correspondence check (differential run of the '
                                      'Lean model and the real desper code on generated scenarios)'),
    ] + list(getattr(prop, 'TRUSTED', []))

    # 2b. thorough tier: independent re-check of the compiled proofs with leanchecker -----------
    if tier == 'thorough' and b['ok']:
        with BuildLock():
            t0 = time.time()
            rc, out = _run(['lake', 'env', 'leanchecker', f'DesperProofs.Props.{pid}'], LEAN)
        cov['leanchecker'] = {'cmd': f'cd lean && lake env leanchecker DesperProofs.Props.{pid}',
                              'exit': rc, 'wall_s': round(time.time() - t0, 1)}
        if rc != 0:
            raise MachineryError('leanchecker rejected the compiled proofs:\n' + out[-2000:])

    # 3. corpus + generated scenarios -----------------------------------------------------------
    stage = cov.setdefault('stage_wall_s', {})
    stage['build_audit_recheck'] = round(time.time() - ctx.t0, 1)
    t_stage = time.time()
    rng = random.Random(seed * 1000003 + int(pid[1:]))
    corpus = load_corpus(pid)
    gen = list(prop.generate(rng, tier))
    scenarios = [c for c, _ in corpus] + gen
    divs, nontrivial, impl_obs, model_obs = correspondence(ctx, prop, model_mod, scenarios, 'main')
    cov['evaluations'] = len(scenarios)
    cov['corpus_scenarios'] = len(corpus)
    cov['distinct_nontrivial'] = len(nontrivial)
    cov['traces_validated_against_impl'] = len(scenarios) - len(divs)
    cov['rule'] = prop.RULE
    k = len(corpus)
    picks = [i for i in (k, k + len(gen) // 2, len(scenarios) - 1) if 0 <= i < min(len(scenarios), len(impl_obs))]
    cov['samples'] = [{'scenario': scenarios[i], 'impl_obs': prop.project(impl_obs[i])[:40]}
                      for i in sorted(set(picks))][:3]
    if hasattr(prop, 'stats'):
        cov['distribution'] = prop.stats(scenarios, impl_obs)
    if divs:
        ctx.broken.append({'kind': 'correspondence', 'count': len(divs), 'first': divs[0]})
    stage['main_stream'] = round(time.time() - t_stage, 1)
    t_stage = time.time()
    if hasattr(prop, 'extra_checks'):
        prop.extra_checks(ctx)
    stage['further_streams'] = round(time.time() - t_stage, 1)
    t_stage = time.time()

    # 4. known findings -----------------------------------------------------------------------
    for e in load_findings(pid):
        if e.get('status') != 'known':
            continue
        try:
            obs, _ = run_impl_guarded(model_mod, e['scenario'])
        except Timeout:
            obs = ['hang']
        if any(v['sig'] == e['sig'] for v in prop.oracle(e['scenario'], obs)):
            print(f"KNOWN-FINDING: property={pid} {e['what']}")
            cov.setdefault('known_findings_reproduced', []).append(e['id'])
        else:
            cov.setdefault('known_findings_not_reproduced', []).append(e['id'])

    # 5/6. verdict, search ---------------------------------------------------------------------
    status = 0
    if ctx.broken and not ctx.violations:
        # search harder for a concrete failing input on the implementation
        extra = []
        for s in range(1, 6 if tier == 'quick' else 21):
            r2 = random.Random((seed + s) * 7919 + int(pid[1:]))
            extra = list(prop.generate(r2, tier))
            for lines in extra:
                try:
                    obs, _ = run_impl_guarded(model_mod, lines)
                except Timeout:
                    obs = ['hang']
                known_sigs = {e['sig'] for e in load_findings(pid) if e.get('status') == 'known'}
                for v in prop.oracle(lines, obs):
                    if v['sig'] not in known_sigs:
                        ctx.violations.append({**v, 'scenario': lines, 'stream': 'search'})
                if ctx.violations:
                    break
            cov['search_evaluations'] = cov.get('search_evaluations', 0) + len(extra)
            if ctx.violations:
                break
    if ctx.violations:
        v = ctx.violations[0]
        sprop, smod = stream_of(prop, model_mod, v.get('scenario'))
        small = shrink(sprop, smod, v['scenario'], v['sig']) if 'scenario' in v and v.get('shrink', True) else v.get('scenario')
        path = write_replay(pid, {'property': pid, 'kind': 'failing-input', 'model': sprop.MODEL,
                                  'sig': v['sig'], 'what': v['what'], 'scenario': small,
                                  'original_scenario': v.get('scenario'), 'broken': ctx.broken,
                                  'replay_cmd': f'./check {pid} --replay <this file>'})
        print(f'VIOLATION property={pid} replay={path}')
        print(f"  {v['sig']}: {v['what']}")
        status = 1
    elif ctx.broken:
        path = write_replay(pid, {'property': pid, 'kind': 'no-failing-input-found',
                                  'model': prop.MODEL, 'broken': ctx.broken,
                                  'scenario': (ctx.broken[0].get('first') or {}).get('scenario')})
        what = '; '.join(
            ('theorems no longer check: %s' % ','.join(b['theorems'])) if b['kind'] == 'proof'
            else b['kind'] + ' no longer checks' for b in ctx.broken)
        print(f'VIOLATION property={pid} replay={path} no-failing-input-found')
        print(f'  {what}')
        status = 1
    stage['findings_search_shrink'] = round(time.time() - t_stage, 1)
    write_evidence(ctx, prop, status)
    return status


def write_evidence(ctx, prop, status):
    cov = ctx.cov
    if ctx.notes:
        cov['notes'] = ctx.notes[:5]
    if ctx.known_hits:
        cov['known_finding_signatures_hit'] = sorted(set(ctx.known_hits))
    ev = {
        'property_id': ctx.pid, 'tier': ctx.tier, 'seed': ctx.seed, 'level': 'proof',
        'coverage': cov,
        'assumptions': list(getattr(prop, 'ASSUMPTIONS', [])) + ctx.assumptions,
        'wall_s': round(time.time() - ctx.t0, 2),
        'violations': 1 if status == 1 else 0,
    }
    evidence_dir().mkdir(parents=True, exist_ok=True)
    (evidence_dir() / f'{ctx.pid}.json').write_text(json.dumps(ev, indent=1, default=str))


def stream_of(prop, model_mod, lines):
    """A plug-in may run a second scenario stream over another model (`stream_for(lines)` returns the
    plug-in-like object judging such a scenario): shrink and replay go through it."""
    sub = prop.stream_for(lines) if lines and hasattr(prop, 'stream_for') else None
    if sub is None:
        return prop, model_mod
    return sub, importlib.import_module(f'harness.models.{sub.MODEL}')


def replay(pid, path):
    use_repo()
    prop = importlib.import_module(f'harness.props.{pid}')
    model_mod = importlib.import_module(f'harness.models.{prop.MODEL}')
    p = pathlib.Path(path)
    if not p.is_absolute():
        p = VERIF / p
    if p.suffix == '.json':
        payload = json.loads(p.read_text())
        lines = payload.get('scenario')
        if payload.get('kind') == 'no-failing-input-found':
            print(json.dumps(payload['broken'], indent=1))
            if not lines:
                return 1
    else:
        lines = [ln for ln in p.read_text().splitlines() if ln.strip() and not ln.startswith('#')]
    if hasattr(prop, 'replay'):
        return prop.replay(lines)
    prop, model_mod = stream_of(prop, model_mod, lines)
    try:
        obs, hints = run_impl_guarded(model_mod, lines)
    except Timeout:
        obs, hints = ['hang'], []
    mobs = run_driver(prop.MODEL, [hints + lines])[0]
    print('--- scenario'); print('\n'.join(lines))
    print('--- implementation'); print('\n'.join(prop.project(obs)))
    print('--- model'); print('\n'.join(prop.project(mobs)))
    vs = prop.oracle(lines, obs)
    print('--- oracle on implementation:', vs or 'holds')
    if vs:
        print(f'VIOLATION property={pid} replay={path}')
        return 1
    if prop.project(obs) != prop.project(mobs):
        print('correspondence diverges')
        return 1
    return 0


def main(argv):
    import argparse
    ap = argparse.ArgumentParser()
    ap.add_argument('pid')
    ap.add_argument('--tier', default=os.environ.get('VERIF_TIER') or 'quick',
                    choices=['quick', 'thorough'])
    ap.add_argument('--replay')
    a = ap.parse_args(argv)
    seed = int(os.environ.get('VERIF_SEED') or 0)
    try:
        if a.replay:
            return replay(a.pid, a.replay)
        return run_check(a.pid, a.tier, seed)
    except MachineryError as e:
        print(f'MACHINERY-ERROR property={a.pid}: {e}', file=sys.stderr)
        return 2
    except Exception:
        traceback.print_exc()
        print(f'MACHINERY-ERROR property={a.pid}: unexpected exception', file=sys.stderr)
        return 2
