"""Seeded scenario generators for the `disp` model (C03, C04, C10)."""

EVS = ['e0', 'e1', 'e2', 'e3']
METHS = ['m0', 'm1', 'm2']
ARGS = ['_', '1', '0.N', 'sa.2', '1|k=2', '_|a=N.b=sx', '7.8.9', '1|event=2', '_|handler=N.name=sx']
# payload keywords named like something a dispatcher might one day take for itself: they belong to the listeners
ARGS = ARGS * 3 + [f'{a}|{n}={v}' for n, a, v in zip(
    ['sender', 'source', 'target', 'priority', 'immediate', 'default', 'once', 'callback', 'args', 'kwargs', 'dt',
     'world', 'entity', 'force', 'handler', 'enabled', 'queue', 'sync'],
    ['_', '1', '_', '0.N', '_', '1', '_', 'sa.2', '_', '1', '_', '_', '1', '_', '_', '1', '_', '_'],
    ['N', '2', 'sx', 'N', '1', 'N', '1', 'sx', '2', 'N', '1', 'N', 'sx', '1', '2', '0', 'N', '1'])]


def gen_universe(rng, max_classes=5, max_objs=5, mixins=True, evs=None):
    """Handler class hierarchy with a single lineage of mappings (+ plain mixins)."""
    lines, mapping_of, handler_classes, mixin_classes = [], [], [], []
    EVS = evs or globals()['EVS']
    pyc = []        # real (empty) classes, to reject what Python's C3 linearisation rejects
    has_over = {}   # class (or an ancestor of it) defines a callback method itself
    n = rng.randint(1, max_classes)
    for cid in range(n):
        kind = rng.random()
        if mixins and kind < 0.15:
            lines.append(f'class {cid} bases=- names=- kw=-')
            pyc.append(type(f'K{cid}', (), {}))
            mapping_of.append(None)
            mixin_classes.append(cid)
            continue
        bases = []
        if handler_classes and rng.random() < 0.7:
            bases.append(rng.choice(handler_classes))
            if len(handler_classes) > 1 and rng.random() < 0.25:
                # two handler bases: the mapping a class starts from is the one attribute lookup finds
                # (the first base's lineage), not a merge of both
                # (the second lineage defines no callback method of its own: which override wins across two
                # lineages is Python's C3 linearisation, not the dispatcher's business)
                cands = [h for h in handler_classes if h != bases[0] and not has_over.get(h)]
                if cands:
                    bases.append(rng.choice(cands))
        if mixin_classes and rng.random() < 0.3:
            mx = rng.choice(mixin_classes)
            if rng.random() < 0.5:
                bases.append(mx)
            else:
                bases.insert(0, mx)
        try:
            pyc.append(type(f'K{cid}', tuple(pyc[b] for b in bases), {}))
        except TypeError:
            bases = [b for b in bases if mapping_of[b] is not None][:1]
            pyc.append(type(f'K{cid}', tuple(pyc[b] for b in bases), {}))
        names = rng.sample(EVS, rng.choice([0, 0, 1, 1, 2]))
        kw = {}
        for _ in range(rng.choice([0, 0, 1, 2])):
            kw[rng.choice(EVS)] = rng.choice(METHS + EVS[:2])
        inherited = next((mapping_of[b] for b in bases if mapping_of[b] is not None), None)
        if not names and not kw and inherited is None:
            names = [rng.choice(EVS)]
        m = dict(inherited or {})
        m.update({x: x for x in names})
        m.update(kw)
        mapping_of.append(m)
        handler_classes.append(cid)
        # a class may define (override) some of the callback methods itself
        over = [x for x in sorted(set(m.values())) if rng.random() < 0.3]
        has_over[cid] = bool(over) or any(has_over.get(b) for b in bases)
        lines.append('class %d bases=%s names=%s kw=%s over=%s' % (
            cid, ','.join(map(str, bases)) or '-', ','.join(names) or '-',
            ','.join(f'{k}:{v}' for k, v in kw.items()) or '-', ','.join(over) or '-'))
    if not handler_classes:
        cid = n
        lines.append(f'class {cid} bases=- names={EVS[0]} kw=-')
        mapping_of.append({EVS[0]: EVS[0]})
        handler_classes.append(cid)
    if rng.random() < 0.3:
        # handler classes whose instances are value objects (compare equal; possibly unhashable)
        for cid in handler_classes:
            if rng.random() < 0.6:
                lines.append(f'trait {cid} ' + rng.choice(['eq', 'eq', 'unhash', 'falsy', 'falsy', 'eq falsy']))
    objs = {}
    for oid in range(rng.randint(1, max_objs)):
        c = rng.choice(handler_classes)
        objs[oid] = c
        own = ''
        if rng.random() < 0.12 and mapping_of[c]:
            # this instance carries its own __events__ (a subset / another routing of its class's methods)
            ms = sorted(set(mapping_of[c].values()))
            ev = {e: rng.choice(ms) for e in rng.sample(EVS, rng.randint(1, min(2, len(EVS))))}
            own = ' ev=' + ','.join(f'{k}:{v}' for k, v in ev.items())
        lines.append(f'obj {oid} class={c} hash={rng.randint(0, 3)}{own}')
    return lines, objs, mapping_of


def gen_op(rng, objs, kinds):
    k = rng.choice(kinds)
    if k in ('add', 'remove', 'drop', 'ishandler'):
        return f'{k} {rng.choice(list(objs))}'
    if k == 'dispatch':
        return f'dispatch {rng.choice(EVS)} {rng.choice(ARGS)}'
    if k == 'enable':
        return f'enable {rng.randint(0, 1)}'
    if k == 'clear':
        return 'clear'
    if k == 'raise':
        return f'raise {rng.choice(["E0", "Quit", "SwitchWorld"])}'
    raise ValueError(k)


def gen_reactions(rng, objs, mapping_of, kinds, p=0.35, raise_p=0.15, max_k=2, last=None):
    lines = []
    for oid, c in objs.items():
        for meth in sorted(set(mapping_of[c].values())):
            for k in range(max_k):
                if rng.random() < p:
                    ops = [gen_op(rng, objs, kinds) for _ in range(rng.randint(1, 3))]
                    if rng.random() < raise_p:
                        ops.append(gen_op(rng, objs, ['raise']))
                    if last is not None and rng.random() < last[0]:
                        ops.append(last[1](oid))
                    lines.append(f'react {oid} {meth} {k} : ' + ' ; '.join(ops))
    return lines


def gen_churn(rng):
    """Short-lived handlers followed by fresh ones: each object is created (at its first use), registered,
    let go by the program - sometimes before any dispatch - and the next one, created afterwards, may get
    the address of the dead one."""
    lines, objs, mapping_of = gen_universe(rng, max_classes=2, max_objs=1, mixins=False)
    cls = next(iter(objs.values()))
    lines = [ln for ln in lines if not ln.startswith('obj ')]
    n = rng.randint(3, 7)
    for o in range(n):
        lines.append(f'obj {o} class={cls} hash={rng.randint(0, 3)}')
    evs = sorted(mapping_of[cls]) or EVS[:1]
    for o in range(n):
        lines.append(f'op add {o}')
        if rng.random() < 0.4:
            lines.append(f'op dispatch {rng.choice(evs)} {rng.choice(ARGS)}')
        if rng.random() < 0.8:
            lines.append(f'op drop {o}')
        elif rng.random() < 0.5:
            lines.append(f'op remove {o}')
        if rng.random() < 0.3:
            lines.append(f'op dispatch {rng.choice(evs)} {rng.choice(ARGS)}')
        paused = o + 1 < n and rng.random() < 0.3
        if paused:
            # an event announced while dispatching is paused and nobody listens any more, released once the
            # next listener is there
            lines += ['op enable 0', f'op dispatch {rng.choice(evs)} {rng.choice(ARGS)}']
        if o + 1 < n:
            lines.append(f'op ishandler {o + 1}')
        if paused:
            lines += [f'op add {o + 1}', 'op enable 1']
    lines.append(f'op dispatch {rng.choice(evs)} {rng.choice(ARGS)}')
    return lines
