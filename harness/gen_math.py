"""Seeded scenario generators for the `math` model (C18).

A scenario is a list of independent call lines (see harness/models/math.py).  Every public
function of the static table harness/math_api.py is called: the polynomial ones exactly on
rationals (`call`), the ones through sqrt/sin/cos/atan2 exactly under the stand-in
interpretation (`callx`, translator validation), the polynomial ones also on the EXACT DOMAIN
(`calle`: genuine Python ints beyond 2**53 and Fractions with non-dyadic denominators, mixed,
nothing converted - value and float contamination are judged) and - when the property names them - on floats
of magnitude 1e-3..1e3 (`callf`, tolerance test).  SEQUENCES (`obj` / `set` / `@id`): operand objects
(plain lists) that live across the calls of one scenario, are edited in place between two identical
calls and shared by different functions; `!v` tokens are user number objects whose arithmetic calls
back into desper.math (re-entrancy).  Edge inputs: zeros, negatives, zero vectors,
singular / near-singular / sparse matrices, degenerate projection boxes, `limit` thresholds next to
the vector's length, every attribute string of length 0..5 over `xyzw` plus foreign letters.
"""
import math
from fractions import Fraction as F

from harness.math_api import API, KIND_LEN, SWIZZLE_CLASSES, swizzle_universe

LINES_PER_SCENARIO = 12
SWIZZLE_CHUNK = 400
FLOAT_OPS = ('abs', 'mag', 'distance', 'heading', 'from_polar', 'normalize', 'from_magnitude',
             'from_heading', 'rotate', 'limit')


def rat(rng):
    r = rng.random()
    if r < 0.10:
        return F(0)
    if r < 0.16:
        return F(1)
    if r < 0.21:
        return F(-1)
    return F(rng.randint(-12, 12), rng.choice([1, 1, 1, 2, 2, 3, 4, 5, 8]))


def vec(rng, n):
    r = rng.random()
    if r < 0.06:
        return [F(0)] * n
    if r < 0.12:                      # an axis vector
        v = [F(0)] * n
        v[rng.randrange(n)] = rat(rng)
        return v
    return [rat(rng) for _ in range(n)]


def mat(rng, n):
    nn = n * n
    r = rng.random()
    ident = [F(int(i // n == i % n)) for i in range(nn)]
    if r < 0.05:
        return ident
    if r < 0.10:                      # diagonal
        return [rat(rng) if i // n == i % n else F(0) for i in range(nn)]
    if r < 0.20:                      # sparse
        return [rat(rng) if rng.random() < 0.4 else F(0) for _ in range(nn)]
    m = [rat(rng) for _ in range(nn)]
    if r < 0.45:                      # singular: one row is a combination of two others (or zero)
        i, j, k = rng.sample(range(n), 3)
        a, b = rng.choice([F(0), F(1), F(-2), F(1, 2)]), rng.choice([F(0), F(1), F(3)])
        for c in range(n):
            m[i * n + c] = a * m[j * n + c] + b * m[k * n + c]
        if r < 0.30:                  # ... transposed: dependent columns
            m = [m[(c % n) * n + c // n] for c in range(nn)]
        if r >= 0.38:                 # near-singular: the singular matrix plus a tiny entry
            m[rng.randrange(nn)] += rng.choice([F(1, 1000), F(-1, 10 ** 6), F(1, 10 ** 9)])
    return m


def args_for(rng, name):
    """Exact rational arguments (flat list) for one API entry."""
    e = API[name]
    out = []
    for _, kind in e.params:
        if kind == 's':
            out.append(rat(rng))
        elif kind[0] == 'v':
            out += vec(rng, int(kind[1]))
        else:
            out += mat(rng, int(kind[1]))
    op = name.partition('.')[2]
    if op == 'limit':                 # threshold next to the length (below, between m and m^1.5, above)
        n = KIND_LEN[e.params[0][1]]
        L = math.sqrt(float(sum(x * x for x in out[:n])))
        u = math.exp(rng.uniform(math.log(0.3), math.log(3.0)))
        out[n] = rng.choice([F(L * u).limit_denominator(16), F(L * u).limit_denominator(16),
                             F(round(L * u)), rat(rng)])
    elif op in ('rotate', 'from_rotation') and name.startswith('Mat4') and rng.random() < 0.85:
        out[-3:] = [F(rng.randint(-8, 8), 8) for _ in range(3)]      # |component| <= 1 (assert)
    elif op in ('orthogonal_projection', 'perspective_projection',
                'perspective_projection_default_fov') and rng.random() < 0.15:
        i = rng.choice([0, 2, 4])
        out[i + 1] = out[i]           # degenerate box
    elif op == 'lerp' and rng.random() < 0.3:
        out[-1] = rng.choice([F(0), F(1), F(1, 2)])
    return out


def fl(rng):
    r = rng.random()
    if r < 0.08:
        return 0.0
    return rng.choice([-1.0, 1.0]) * 10.0 ** rng.uniform(-3, 3)


def float_args_for(rng, name):
    e = API[name]
    out = [fl(rng) for _, kind in e.params for _ in range(KIND_LEN[kind])]
    op = name.partition('.')[2]
    if op in ('normalize', 'from_magnitude', 'limit', 'abs', 'mag', 'heading') and rng.random() < 0.08:
        n = KIND_LEN[e.params[0][1]]
        out[:n] = [0.0] * n
    if op == 'limit':
        n = KIND_LEN[e.params[0][1]]
        L = math.sqrt(sum(x * x for x in out[:n]))
        r = rng.random()
        if r < 0.8:
            out[n] = L * math.exp(rng.uniform(math.log(0.3), math.log(3.0)))
        elif r < 0.9:
            out[n] = L                # exactly at the threshold
    if op in ('from_polar', 'from_heading', 'rotate'):
        out[-1] = rng.uniform(-7.0, 7.0)      # an angle
    return out


# functions whose `/` would be Python's int / int (a float by the language) on int arguments: their
# exact domain is the Fractions
DIV_OPS = ('truediv', 'invert', 'orthogonal_projection')
NON_DYADIC = [3, 7, 9, 10, 11, 13, 6, 15]


def exact_scalar(rng, allow_int):
    """Token of an exact-domain argument: `n/d` = Fraction, bare integer = Python int."""
    r = rng.random()
    if r < 0.5:
        d = rng.choice(NON_DYADIC)
        n = rng.choice([k for k in range(-40, 41) if k % d])
        return f'{n}/{d}'
    if r < 0.7:                       # beyond 2**53: not representable as a float
        v = rng.choice([-1, 1]) * (2 ** rng.choice([53, 54, 60, 64]) + rng.choice([1, 3, 5, 7, 11]))
    elif r < 0.9:
        v = rng.randint(-12, 12)
    else:
        return f'{rng.randint(-15, 15)}/{rng.choice([2, 4, 8])}'
    return str(v) if allow_int and rng.random() < 0.6 else f'{v}/1'


def exact_args_for(rng, name):
    e = API[name]
    allow_int = name.partition('.')[2] not in DIV_OPS
    n = sum(KIND_LEN[k] for _, k in e.params)
    if rng.random() < 0.35:           # the structured inputs of the rational run (singular matrices ...)
        out = []
        for x in args_for(rng, name):
            if x.denominator == 1 and allow_int and rng.random() < 0.5:
                out.append(str(x.numerator))
            else:
                out.append(f'{x.numerator}/{x.denominator}')
        return out
    return [exact_scalar(rng, allow_int) for _ in range(n)]


def call_lines(rng, reps):
    """`reps` calls of every function and mode, shuffled."""
    jobs = []
    for name, e in API.items():
        jobs += [('callx' if e.tr else 'call', name)] * reps
        if not e.tr:
            jobs += [('calle', name)] * reps
        if e.tr and e.named and name.partition('.')[2] in FLOAT_OPS:
            jobs += [('callf', name)] * reps
    rng.shuffle(jobs)
    for mode, name in jobs:
        if mode == 'callf':
            yield f'callf {name} ' + ' '.join(repr(x) for x in float_args_for(rng, name))
        elif mode == 'calle':
            yield (f'calle {name} ' + ' '.join(exact_args_for(rng, name))).rstrip()
        else:
            toks = [str(x) for x in args_for(rng, name)]
            if mode == 'call' and rng.random() < 0.3:
                toks = reentrant(rng, toks, 2.0 / max(len(toks), 2))
            yield (f'{mode} {name} ' + ' '.join(toks)).rstrip()


def reentrant(rng, toks, p):
    """Turn some argument tokens into user number objects (`!v`): same value, arithmetic that calls
    back into desper.math."""
    return [('!' + x if not x.startswith(('@', '!')) and rng.random() < p else x) for x in toks]


# parameters that may be given as a plain sequence instead of a Vec / Mat object ("Vec3 or 3 component
# tuple", "tuple compatibility" of @): the right-hand operand and the `vector` arguments.  Not the
# vector of matrix @ vector: there the class of the operand selects the operation.
SEQ_PARAMS = ('other', 'vector')
NO_SEQ = ('matvec', 'identity_vec', 'radd')


def seq_templates():
    out = []
    for name, e in API.items():
        if e.tr or name.partition('.')[2] in NO_SEQ:
            continue
        idx = [i for i, (p, k) in enumerate(e.params) if p in SEQ_PARAMS and k != 's']
        if idx:
            out.append((name, idx))
    return out


def sequence_scenarios(rng, count):
    """Calls that share state only through the operands: list objects that live across the calls and
    are edited in place between them, the same call repeated after an edit, other functions and
    other operands in between, re-entrant number objects as entries."""
    templates = seq_templates()
    for _ in range(count):
        lines, objs = [], {}
        for kind, oid in (('m4', 'M'), ('m4', 'P'), ('m3', 'N'), ('v3', 'V'), ('v2', 'W'), ('v4', 'X')):
            vals = mat(rng, int(kind[1])) if kind[0] == 'm' else vec(rng, int(kind[1]))
            objs[oid] = (kind, len(vals))
            lines.append(f'obj {oid} ' + ' '.join(reentrant(rng, [str(v) for v in vals], 0.08)))
        recent = []
        # every scenario multiplies by the same list object before and after an in-place edit
        for name, oid in rng.sample([('Mat4.matmul', 'M'), ('Mat4.matmul', 'P'), ('Mat3.matmul', 'N'),
                                     ('Mat4.identity_left', 'M'), ('Mat3.identity_left', 'N')], 2):
            e = API[name]
            inline = [str(x) for x in args_for(rng, name)][:sum(KIND_LEN[k] for _, k in e.params[:-1])]
            call = (f'call {name} ' + ' '.join(inline + ['@' + oid])).replace('  ', ' ')
            lines.append(call)
            recent.append((call, [oid]))
            if rng.random() < 0.7:
                for _ in range(rng.randint(1, 3)):
                    lines.append(f'set {oid} {rng.randrange(objs[oid][1])} {rat(rng)}')
                lines.append(call)
        for _ in range(rng.randint(6, 10)):
            r = rng.random()
            if recent and r < 0.45:
                # edit an operand of an earlier call in place and issue the very same call again
                call, used = rng.choice(recent)
                oid = rng.choice(used)
                for _ in range(rng.randint(1, 3)):
                    tok = reentrant(rng, [str(rat(rng))], 0.1)[0]
                    lines.append(f'set {oid} {rng.randrange(objs[oid][1])} {tok}')
                if rng.random() < 0.3:      # ... with another product in between
                    name2, _ = rng.choice(templates)
                    lines.append(f'call {name2} ' + ' '.join(str(x) for x in args_for(rng, name2)))
                lines.append(call)
                continue
            name, idx = rng.choice(templates)
            e = API[name]
            flat, toks, used, off = args_for(rng, name), [], [], 0
            for i, (_, k) in enumerate(e.params):
                n = KIND_LEN[k]
                cands = [o for o, (ok, _) in objs.items() if ok == k]
                if i in idx and cands and rng.random() < 0.85:
                    o = rng.choice(cands)
                    toks.append('@' + o)
                    used.append(o)
                else:
                    toks += reentrant(rng, [str(x) for x in flat[off:off + n]], 0.04)
                off += n
            call = f'call {name} ' + ' '.join(toks)
            lines.append(call)
            if used:
                recent.append((call, used))
        yield lines


def swizzle_scenarios(rng):
    uni = swizzle_universe()
    for cls in SWIZZLE_CLASSES:
        n = int(cls[3])
        for i in range(0, len(uni), SWIZZLE_CHUNK):
            # distinct non-zero components so that a wrong index is visible
            comps = rng.sample([F(k, d) for k in range(1, 13) for d in (1, 2, 3) if math.gcd(k, d) == 1], n)
            tail = ' '.join(str(c) for c in comps)
            yield [f'swz {cls} {s or "-"} {tail}' for s in uni[i:i + SWIZZLE_CHUNK]]


def generate(rng, tier):
    reps = 30 if tier == 'quick' else 3000
    cur = []
    for ln in call_lines(rng, reps):
        cur.append(ln)
        if len(cur) == LINES_PER_SCENARIO:
            yield cur
            cur = []
    if cur:
        yield cur
    yield from sequence_scenarios(rng, 80 if tier == 'quick' else 1500)
    yield from swizzle_scenarios(rng)
