"""Implementation side of the `logic` model: real desper.Prototype subclasses.

    ptype <tid> name=<Name>
    pclass <pid> base=<pid|-> types=<tid,..|-|inherit> prefix=q<prefix>|inherit im=<tid:fn,..|-|inherit>
           methods=<name:gn,..|->
    effect <tid> im:<fn>|method:<gn>|default : <op> ; <op> ..
            what the builder of a component of that type (the init_methods factory fn, the init method
            gn, the type's own constructor when called without an init method) does to the prototype
            that is being iterated, every time it runs
    ceffect <k> : <op> ; ..        what the consumer of an iteration does between two next() calls
    iter <pid>                     list(P<pid>())
    run <pid> <step> ..            one new instance p = P<pid>() consumed step by step:
                                   A / B: it = iter(p);  a / b: next(it);  L: list(p);  e<k>: ceffect k

  operations (p: the prototype instance, P<c>: a class of the scenario, T: the type <tid>):
    im-set <tid> <fn>        p.init_methods[T] = fn           (in place, whichever dict the lookup finds)
    im-del <tid>             p.init_methods.pop(T, None)      (in place)
    inst-im <tid:fn,..|->    p.init_methods = {..}
    inst-prefix q<prefix>    p.init_prefix = prefix
    inst-meth <name> <gn>    p.<name> = function              inst-meth-del <name>   p.__dict__.pop(name, None)
    inst-types <tid,..|->    p.component_types = (..)
    cls-im <c> <..> | cls-prefix <c> q<..> | cls-meth <c> <name> <gn> | cls-meth-del <c> <name> |
    cls-types <c> <..>       the same on the class P<c>

Observations: `built <tid> im:<fn>|method:<gn>|default` for every component `iter` yields, in order,
`built <A|B|L> <tid> <source>` / `stop <A|B>` for the steps of `run`; plus (implementation only)
`shape ok|...`: one NEW instance of exactly the listed type per entry (and, without effects, a fresh
set on every iteration).
"""
import desper
from harness.models.disp import split_list


def parse_ops(toks):
    ops, cur = [], []
    for t in toks + [';']:
        if t == ';':
            if cur:
                ops.append(cur)
            cur = []
        else:
            cur.append(t)
    return ops


class Run:
    def __init__(self):
        self.types, self.classes, self.obs = {}, [], []
        self.effects, self.ceffects = {}, {}
        self.cur = None            # the prototype instance that is being iterated
        self.in_factory = False
        self.saved_proto_im = dict(desper.Prototype.init_methods)

    def factory(self, label):
        run = self

        def f(comp_t):
            return run.make(comp_t, 'im:' + label)
        return f

    def method(self, label):
        run = self

        def m(self, comp_t):
            return run.make(comp_t, 'method:' + label)
        return m

    def inst_function(self, label):
        run = self

        def g(comp_t):
            return run.make(comp_t, 'method:' + label)
        return g

    def make(self, comp_t, by):
        self.in_factory = True
        try:
            c = comp_t()
        finally:
            self.in_factory = False
        c._by = by
        self.apply(self.effects.get((comp_t._tid, by), ()))
        return c

    def make_type(self, tid, name):
        run = self

        def __init__(self):
            self._by = 'default'
            if not run.in_factory:
                run.apply(run.effects.get((tid, 'default'), ()))
        return type(name, (), {'_tid': tid, '__init__': __init__})

    def table(self, tok):
        return {self.types[int(k)]: self.factory(v) for k, v in (p.split(':') for p in split_list(tok))}

    def apply(self, ops):
        p = self.cur
        for op in ops:
            k = op[0]
            if k == 'im-set':
                p.init_methods[self.types[int(op[1])]] = self.factory(op[2])
            elif k == 'im-del':
                p.init_methods.pop(self.types[int(op[1])], None)
            elif k == 'inst-im':
                p.init_methods = self.table(op[1])
            elif k == 'inst-prefix':
                p.init_prefix = op[1][1:]
            elif k == 'inst-meth':
                setattr(p, op[1], self.inst_function(op[2]))
            elif k == 'inst-meth-del':
                p.__dict__.pop(op[1], None)
            elif k == 'inst-types':
                p.component_types = tuple(self.types[int(x)] for x in split_list(op[1]))
            elif k == 'cls-im':
                self.classes[int(op[1])].init_methods = self.table(op[2])
            elif k == 'cls-prefix':
                self.classes[int(op[1])].init_prefix = op[2][1:]
            elif k == 'cls-meth':
                setattr(self.classes[int(op[1])], op[2], self.method(op[3]))
            elif k == 'cls-meth-del':
                if op[2] in self.classes[int(op[1])].__dict__:
                    delattr(self.classes[int(op[1])], op[2])
            elif k == 'cls-types':
                self.classes[int(op[1])].component_types = tuple(
                    self.types[int(x)] for x in split_list(op[2]))
            else:
                raise ValueError(op)

    @staticmethod
    def show(c):
        return f'{getattr(type(c), "_tid", "?")} {getattr(c, "_by", "default")}'

    def line(self, ln):
        t = ln.split()
        if not t:
            return
        if t[0] == 'ptype':
            tid = int(t[1])
            self.types[tid] = self.make_type(tid, t[2].split('=', 1)[1])
        elif t[0] == 'pclass':
            d = dict(x.split('=', 1) for x in t[2:])
            base = desper.Prototype if d['base'] == '-' else self.classes[int(d['base'])]
            ns = {}
            if d['types'] != 'inherit':
                ns['component_types'] = tuple(self.types[int(x)] for x in split_list(d['types']))
            if d['prefix'] != 'inherit':
                ns['init_prefix'] = d['prefix'][1:]
            if d['im'] != 'inherit':
                ns['init_methods'] = self.table(d['im'])
            for name, label in (p.split(':') for p in split_list(d['methods'])):
                ns[name] = self.method(label)
            self.classes.append(type(f'P{t[1]}', (base,), ns))
        elif t[0] == 'effect':
            assert t[3] == ':'
            self.effects[(int(t[1]), t[2])] = parse_ops(t[4:])
        elif t[0] == 'ceffect':
            assert t[2] == ':'
            self.ceffects[int(t[1])] = parse_ops(t[3:])
        elif t[0] == 'iter':
            cls = self.classes[int(t[1])]
            self.cur = proto = cls()
            want = list(proto.component_types)
            first = list(proto)
            for c in first:
                self.obs.append('built ' + self.show(c))
            ok = [type(c) for c in first] == want and len({id(c) for c in first}) == len(first)
            if not self.effects:
                second = list(proto)
                ok = ok and [type(c) for c in second] == want and not ({id(c) for c in first} & {id(c) for c in second})
            self.obs.append('shape ' + ('ok' if ok else 'wrong-types-or-not-fresh'))
        elif t[0] == 'run':
            cls = self.classes[int(t[1])]
            self.cur = proto = cls()
            its, seen, ok = {}, set(), True
            for tok in t[2:]:
                if tok in ('A', 'B'):
                    its[tok] = iter(proto)
                elif tok in ('a', 'b'):
                    tag = tok.upper()
                    try:
                        c = next(its[tag])
                    except StopIteration:
                        self.obs.append(f'stop {tag}')
                        continue
                    ok = ok and id(c) not in seen
                    seen.add(id(c))
                    self.keep.append(c)
                    self.obs.append(f'built {tag} ' + self.show(c))
                elif tok == 'L':
                    for c in list(proto):
                        ok = ok and id(c) not in seen
                        seen.add(id(c))
                        self.keep.append(c)
                        self.obs.append('built L ' + self.show(c))
                elif tok[0] == 'e':
                    self.apply(self.ceffects.get(int(tok[1:]), ()))
                else:
                    raise ValueError(ln)
            self.obs.append('shape ' + ('ok' if ok else 'not-fresh'))
        else:
            raise ValueError(ln)

    keep = []

    def go(self, lines):
        self.keep = []
        try:
            for ln in lines:
                self.line(ln)
        finally:
            # in-place effects may have reached the dictionary all prototype classes share
            desper.Prototype.init_methods.clear()
            desper.Prototype.init_methods.update(self.saved_proto_im)
        return self.obs, []


def run_impl(lines):
    return Run().go(lines)
