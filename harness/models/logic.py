"""Implementation side of the `logic` model: real desper.Prototype subclasses.

    ptype <tid> name=<Name>
    pclass <pid> base=<pid|-> types=<tid,..|-|inherit> prefix=q<prefix>|inherit im=<tid:fn,..|-|inherit>
           methods=<name:gn,..|->
    iter <pid>

Observations per `iter`: `built <tid> im:<fn>|method:<gn>|default` for every yielded component, in
order; plus (implementation only) `shape ok|...` (one NEW instance of exactly the listed type per
entry, fresh on every iteration).
"""
import desper
from harness.models.disp import split_list


def run_impl(lines):
    types, classes, obs = {}, [], []
    for ln in lines:
        t = ln.split()
        if not t:
            continue
        if t[0] == 'ptype':
            tid = int(t[1])
            name = t[2].split('=', 1)[1]
            types[tid] = type(name, (), {'_tid': tid})
        elif t[0] == 'pclass':
            d = dict(x.split('=', 1) for x in t[2:])
            base = desper.Prototype if d['base'] == '-' else classes[int(d['base'])]
            ns = {}
            if d['types'] != 'inherit':
                ns['component_types'] = tuple(types[int(x)] for x in split_list(d['types']))
            if d['prefix'] != 'inherit':
                ns['init_prefix'] = d['prefix'][1:]
            if d['im'] != 'inherit':
                def mk(label):
                    def f(comp_t):
                        c = comp_t()
                        c._by = 'im:' + label
                        return c
                    return f
                ns['init_methods'] = {types[int(k)]: mk(v) for k, v in
                                      (p.split(':') for p in split_list(d['im']))}
            for name, label in (p.split(':') for p in split_list(d['methods'])):
                def mkm(label):
                    def m(self, comp_t):
                        c = comp_t()
                        c._by = 'method:' + label
                        return c
                    return m
                ns[name] = mkm(label)
            classes.append(type(f'P{t[1]}', (base,), ns))
        elif t[0] == 'iter':
            cls = classes[int(t[1])]
            proto = cls()
            first = list(proto)
            second = list(proto)
            for c in first:
                obs.append(f'built {getattr(type(c), "_tid", "?")} {getattr(c, "_by", "default")}')
            want = [ty for ty in cls.component_types]
            ok = ([type(c) for c in first] == want and [type(c) for c in second] == want
                  and not ({id(c) for c in first} & {id(c) for c in second})
                  and len({id(c) for c in first}) == len(first))
            obs.append('shape ' + ('ok' if ok else 'wrong-types-or-not-fresh'))
        else:
            raise ValueError(ln)
    return obs, []
