"""Implementation side of the `disp` model: runs the real desper.events code on a scenario.

Scenario lines (see lean/DesperModel/Disp.lean for the model's reading of the same text):

    class <cid> bases=<cid,..|-> names=<ev,..|-> kw=<ev:meth,..|->
    obj <oid> class=<cid> [hash=<n>]
    react <oid> <method> <k> : <op> ; <op> ...        reaction of the k-th call (0-based)
    op add|remove|drop|ishandler <oid> | op dispatch <ev> <argtoken> | op enable 0|1 | op clear
    (inside reactions also: raise <Name>)

Observations:  events <cid> <mapping> | cb <oid|None> <method> <argtoken> | ish <oid> <0|1>
               | gone <oid> | res ok|raised <Name>
"""
import gc
import weakref

import desper
from desper.events import EventDispatcher, event_handler


class Scripted(Exception):
    def __init__(self, name):
        super().__init__(name)
        self.name = name


def exc_name(e):
    return e.name if isinstance(e, Scripted) else type(e).__name__


def dec_val(t):
    if t == 'N':
        return None
    if t.startswith('s'):
        return t[1:]
    return int(t)


def enc_val(v):
    if v is None:
        return 'N'
    if isinstance(v, str):
        return 's' + v
    return str(v)


def dec_args(tok):
    pos, _, kw = tok.partition('|')
    args = tuple(dec_val(t) for t in pos.split('.') if t and t != '_')
    kwargs = {}
    for t in kw.split('.'):
        if t:
            k, _, v = t.partition('=')
            kwargs[k] = dec_val(v)
    return args, kwargs


def enc_args(args, kwargs):
    pos = '.'.join(enc_val(a) for a in args) or '_'
    if kwargs:
        return pos + '|' + '.'.join(f'{k}={enc_val(v)}' for k, v in kwargs.items())
    return pos


def split_list(s):
    return [] if s == '-' else [t for t in s.split(',') if t]


def parse_ops(toks):
    ops, cur = [], []
    for t in toks:
        if t == ';':
            if cur:
                ops.append(cur)
            cur = []
        else:
            cur.append(t)
    if cur:
        ops.append(cur)
    return ops


class Run:
    def __init__(self, lines, make_dispatcher=EventDispatcher):
        self.obs = []
        self.dropped = []
        self.objs = {}
        self.lazy = {}
        self.classes = []
        self.reactions = {}
        self.calls = {}
        self.ops = []
        self.decls = []
        self.decoy_seed = None
        self.traits = {}
        self.objev = {}
        meths = set()
        for ln in lines:
            t = ln.split()
            if not t:
                continue
            if t[0] == 'class':
                d = dict(x.split('=', 1) for x in t[2:])
                names = split_list(d['names'])
                kw = dict(p.split(':') for p in split_list(d['kw']))
                over = split_list(d.get('over', '-'))
                self.decls.append(('class', int(t[1]), [int(b) for b in split_list(d['bases'])],
                                   names, kw, over))
                meths.update(over)
                meths.update(names)
                meths.update(kw.values())
            elif t[0] == 'obj':
                d = dict(x.split('=', 1) for x in t[2:])
                self.decls.append(('obj', int(t[1]), int(d['class']), d.get('hash')))
                if 'ev' in d:
                    # an __events__ mapping stored on the instance itself
                    self.objev[int(t[1])] = dict(p.split(':') for p in split_list(d['ev']))
                    meths.update(self.objev[int(t[1])].values())
            elif t[0] == 'react':
                assert t[4] == ':'
                self.reactions[(int(t[1]), t[2], int(t[3]))] = parse_ops(t[5:])
            elif t[0] == 'op':
                self.ops.append(t[1:])
            elif t[0] == 'hint':
                pass
            elif t[0] == 'decoy':
                self.decoy_seed = int(t[1])
            elif t[0] == 'trait':
                self.traits[int(t[1])] = set(t[2:])
            elif not self.parse_extra(t):
                raise ValueError(f'bad scenario line {ln!r}')
        # classes are numbered in order of declaration, bases and objects' classes are declared ones
        # (a shrunk scenario that lost a declaration is not a scenario)
        cids = [d[1] for d in self.decls if d[0] == 'class']
        if cids != list(range(len(cids))) or \
                any(b >= d[1] for d in self.decls if d[0] == 'class' for b in d[2]) or \
                any(d[2] >= len(cids) for d in self.decls if d[0] == 'obj'):
            raise ValueError('undeclared class')
        self.root = self.make_root(meths)
        self.disp = make_dispatcher()
        self.make_dispatcher = make_dispatcher

    def make_root(self, meths):
        run = self

        def make(mname, where='R'):
            def method(self, *args, **kwargs):
                run.on_call(self, mname, args, kwargs, where)
            method.__name__ = mname
            return method
        self.make_method = make

        def _hash(self):
            return self._h
        ns = {m: make(m) for m in meths}
        ns['__hash__'] = _hash
        return type('Logged', (), ns)

    def build(self):
        for d in self.decls:
            if d[0] == 'class':
                _, cid, bases, names, kw, over = d
                assert cid == len(self.classes)
                bs = tuple(self.classes[b] for b in bases) or (self.root,)
                ns = {m: self.make_method(m, str(cid)) for m in over}
                tr = self.traits.get(cid, ())
                if 'eq' in tr or 'unhash' in tr:
                    # value objects (dataclass style): all such handlers compare equal; `unhash`: and
                    # define no __hash__ — the dispatcher must tell handlers apart by identity
                    ns['_eq_group'] = True
                    ns['__eq__'] = lambda a, b: getattr(b, '_eq_group', False)
                    ns['__hash__'] = None if 'unhash' in tr else (lambda a: a._h)
                if 'falsy' in tr:
                    # an empty container-like handler: falsy, yet a handler like any other
                    ns['__bool__'] = lambda a: False
                cls = type(f'K{cid}', bs, ns)
                cls = event_handler(*names, **kw)(cls)
                self.classes.append(cls)
            else:
                # objects are created at their first use: an object allocated after another one died
                # may well get the address (id) of the dead one
                _, oid, cid, h = d
                self.objs[oid] = None
                self.lazy[oid] = (cid, h)
        for cid, cls in enumerate(self.classes):
            ev = getattr(cls, '__events__', None)
            if ev is None:
                self.obs.append(f'events {cid} none')
            else:
                self.obs.append(f'events {cid} ' +
                                (','.join(f'{k}:{v}' for k, v in sorted(ev.items())) or '-'))

    def decoy_step(self, t):
        """A second dispatcher of the same class, with its own handler objects, runs a perturbed copy of the
        previous top-level operation; whatever it does or raises is its own business."""
        import random
        if self.disp2 is None:
            self.disp2 = self.make_dispatcher() or EventDispatcher()
            self.dobjs = {}
            for d in self.decls:
                if d[0] == 'obj':
                    o = self.classes[d[2]]()
                    o._oid, o._h, o._decoy = d[1], (int(d[3]) if d[3] is not None else id(o) >> 4), True
                    self.dobjs[d[1]] = o
        rng = random.Random(self.decoy_seed * 7919 + len(self.obs))
        d2 = self.disp2
        try:
            k = t[0]
            if k in ('add', 'remove'):
                o = self.dobjs.get(int(t[1]) if rng.random() < 0.5 else rng.choice(list(self.dobjs)))
                if o is not None:
                    (d2.add_handler if k == 'add' or rng.random() < 0.3 else d2.remove_handler)(o)
            elif k == 'dispatch':
                args, kwargs = dec_args(t[2])
                d2.dispatch(t[1], 'decoy', *args, **kwargs)
            elif k == 'enable':
                d2.dispatch_enabled = not bool(int(t[1])) if rng.random() < 0.7 else bool(int(t[1]))
            elif k == 'clear' and rng.random() < 0.3:
                d2.clear()
        except Exception:       # noqa
            pass

    disp2 = None

    def on_call(self, recv, mname, args, kwargs, where='R'):
        if getattr(recv, '_decoy', False):
            return
        oid = None if recv is None else recv._oid
        self.obs.append(f'{self.prefix}cb {oid} {mname}@{where} {self.enc(args, kwargs)}')
        if oid is None:
            return
        k = self.calls.get((oid, mname), 0)
        self.calls[(oid, mname)] = k + 1
        for op in self.reactions.get((oid, mname, k), ()):
            self.exec_op(op)

    prefix = ''

    def materialise(self, oid):
        cid, h = self.lazy.pop(oid)
        o = self.classes[cid]()
        o._oid = oid
        o._h = int(h) if h is not None else id(o) >> 4
        if oid in self.objev:
            o.__events__ = dict(self.objev[oid])
        self.objs[oid] = o

    def parse_extra(self, t):
        return False

    def enc(self, args, kwargs):
        return enc_args(args, kwargs)

    def exec_op(self, t):
        kind = t[0]
        if kind == 'raise':
            raise Scripted(t[1])
        if kind in ('add', 'remove', 'drop', 'ishandler'):
            oid = int(t[1])
            if oid not in self.objs:
                self.obs.append(f'gone {oid}')
                return
            if self.objs[oid] is None:
                self.materialise(oid)
            if kind == 'add':
                self.disp.add_handler(self.objs[oid])
            elif kind == 'remove':
                self.disp.remove_handler(self.objs[oid])
            elif kind == 'drop':
                self.dropped.append((oid, weakref.ref(self.objs[oid])))
                del self.objs[oid]
                # "a new one takes its place": the next object not yet in use is created right now, which
                # in CPython usually hands it the address the dropped one just freed
                if self.lazy:
                    self.materialise(min(self.lazy))
            else:
                self.obs.append(f'ish {oid} {int(self.disp.is_handler(self.objs[oid]))}')
        elif kind == 'dispatch':
            args, kwargs = dec_args(t[2])
            self.disp.dispatch(t[1], *args, **kwargs)
        elif kind == 'enable':
            self.disp.dispatch_enabled = bool(int(t[1]))
        elif kind == 'clear':
            self.disp.clear()
        else:
            self.exec_extra(t)

    def exec_extra(self, t):
        raise ValueError(f'bad op {t}')

    def top(self, t):
        from harness.core import Timeout
        try:
            self.exec_op(t)
            out = 'ok'
        except Timeout:
            raise
        except RecursionError:
            out = 'hang'
        except Exception as e:        # noqa
            out = 'raised ' + exc_name(e)
        self.obs.append('res ' + out)
        # runtime part of C10: nothing may keep a dropped handler alive
        for oid, wr in self.dropped:
            if wr() is not None:
                gc.collect()
            if wr() is not None:
                self.obs.append(f'leak {oid}')
        self.dropped = [d for d in self.dropped if d[1]() is not None]

    def go(self):
        self.build()
        prev = None
        for t in self.ops:
            if self.decoy_seed is not None:
                if prev is not None:
                    self.decoy_step(prev)
                prev = t
            self.top(t)
        recv = [o.split()[-3] for o in self.obs if ' cb ' in ' ' + o and o.split()[-3] != 'None']
        hints = [f'hint {",".join(recv)}'] if recv else []
        return self.obs, hints


def run_impl(lines):
    return Run(lines).go()
