"""Implementation side of the `math` model (C18): runs the REAL desper.math on a scenario.

Scenario lines (the Lean side is lean/DesperModel/MathExec.lean, generated from the same code):

    call  <fn> <rational>*     exact run on rationals (`Q` below: fractions.Fraction arithmetic; the
                               float literals 0.0 / 1.0 / 2.0 of math.py are read as the exact
                               rationals they denote, so results stay exact)
    callx <fn> <rational>*     exact run with desper.math._math replaced by the rational stand-in
                               interpretation of sqrt/sin/cos/tan/atan2/radians/pi
                               (harness/math_api.py `StandIn`) - translator validation only
    calle <fn> <int | n/d>*    EXACT-DOMAIN run: the real functions on genuine Python numbers - a bare
                               integer token is a Python int (also beyond 2**53), `n/d` a
                               fractions.Fraction (non-dyadic denominators) - with the real `math`
                               module.  Nothing is converted on the way: an entry of the result that
                               comes back as a float (the exact inputs were rounded) is written `~v`
                               with v the exact value of that float.
    callf <fn> <float>*        ordinary float run with the real `math` module (a *test*, judged by the
                               oracle with a tolerance; the model does not compute floats)
    swz <Vec2|Vec3|Vec4> <attrs|-> <rational>*     swizzled attribute access (`__getattr__`)
    obj <id> <rational>*       an operand OBJECT that lives across the calls of the scenario: one Python
                               list, created once.  `@id` among the arguments of a later `call` passes
                               that very object (a vector / matrix argument given as a plain sequence)
    set <id> <i> <rational>    edits the object in place (`lst[i] = v`) between two calls
    A token `!v` (in `call` / `obj` / `set`) is a user number object (`Reent`) worth v whose every
    arithmetic operation or comparison first calls back into desper.math (nested Mat4 / Mat3 products,
    matrix @ vector, cross, swizzle) and then acts as the exact number v.
All lines of a scenario run in ONE process, in order: state that desper.math keeps between calls
(caches, reusable buffers) is exercised by repeated / interleaved calls and by re-entrant entries.

Observations:  r|rx <fn> <kind> <rational>* [warn]  |  r|rx <fn> raised <Exc>
               re <fn> <kind> <[~]rational>* [warn]  |  re <fn> raised <Exc>
               rf <fn> <kind> <float repr>* [warn]  |  rf <fn> raised <Exc>
               r swz <cls> <attrs> <kind> <rational>*  |  r swz <cls> <attrs> raised <Exc>
               o <id> <n> | o <id> set <i> | o <id> raised <Exc>
<fn> names are those of harness/math_api.py `API` (one per public function / operator).
"""
import math
import warnings
from fractions import Fraction

from harness import math_api
from harness.math_api import API


class Q:
    """Exact rational scalar.  Wraps a Fraction; ints and floats met in arithmetic are converted
    exactly (Fraction(1.0) == 1), so `1.0 * q`, `2.0 / q` stay exact instead of becoming floats."""
    __slots__ = ('f',)

    def __init__(self, v=0):
        if isinstance(v, Q):
            self.f = v.f
        elif isinstance(v, Fraction):
            self.f = v
        else:
            self.f = Fraction(v)

    @staticmethod
    def _c(o):
        if isinstance(o, Q):
            return o.f
        if isinstance(o, (int, Fraction)):
            return Fraction(o)
        if isinstance(o, float) and math.isfinite(o):
            return Fraction(o)
        return None

    def _bin(op):
        def f(self, o):
            c = Q._c(o)
            return NotImplemented if c is None else Q(op(self.f, c))

        def r(self, o):
            c = Q._c(o)
            return NotImplemented if c is None else Q(op(c, self.f))
        return f, r

    __add__, __radd__ = _bin(lambda a, b: a + b)
    __sub__, __rsub__ = _bin(lambda a, b: a - b)
    __mul__, __rmul__ = _bin(lambda a, b: a * b)
    __truediv__, __rtruediv__ = _bin(lambda a, b: a / b)

    def _cmp(op):
        def f(self, o):
            c = Q._c(o)
            return NotImplemented if c is None else op(self.f, c)
        return f

    __lt__, __le__ = _cmp(lambda a, b: a < b), _cmp(lambda a, b: a <= b)
    __gt__, __ge__ = _cmp(lambda a, b: a > b), _cmp(lambda a, b: a >= b)
    __eq__, __ne__ = _cmp(lambda a, b: a == b), _cmp(lambda a, b: a != b)

    def __hash__(self):
        return hash(self.f)

    def __pow__(self, e):
        if type(e) is not int:
            return NotImplemented
        return Q(self.f ** e)

    def __neg__(self):
        return Q(-self.f)

    def __pos__(self):
        return self

    def __abs__(self):
        return Q(abs(self.f))

    def __bool__(self):
        return self.f != 0

    def __float__(self):
        return float(self.f)

    def __round__(self, nd=None):
        return Q(round(self.f, nd))

    def __repr__(self):
        return str(self.f)


class Reent:
    """A user number object worth `q`.  Every arithmetic operation / comparison first calls back into
    desper.math - products and vector operations on the same types the outer call is working on -
    and then behaves as the exact number (returns a plain `Q`).  Re-entrancy at run time."""
    __slots__ = ('q',)
    nested_calls = 0

    def __init__(self, q):
        self.q = Q(q)

    @staticmethod
    def _nest():
        import desper.math as M
        Reent.nested_calls += 1
        a = M.Mat4((2, 0, 1, 0, 0, 3, 0, 1, 1, 0, 1, 0, 5, -2, 7, 1))
        b = M.Mat4((1, 2, 0, 0, 0, 1, 0, 3, 4, 0, 1, 0, 1, 6, -1, 1))
        c = a @ b
        v = c @ M.Vec4(1, 2, 3, 4)
        m = M.Mat3((1, 2, 0, 0, 1, 3, 4, 0, 1)) @ M.Mat3((2, 0, 1, 0, 3, 0, 1, 0, 1))
        w = (m @ M.Vec3(1, -1, 2)).cross(M.Vec3(v[0], v[1], v[2]))
        w.zyx, v.xw, M.Vec2(3, 4).yx
        (~a) @ c
        M.Mat4.from_translation(w).translate(w).transpose()
        w.lerp(M.Vec3(0, 1, 2), 1).dot(w)

    def _bin(op):
        def f(self, o):
            c = o.q if isinstance(o, Reent) else o
            Reent._nest()
            return op(self.q, c)

        def r(self, o):
            Reent._nest()
            return op(o, self.q)
        return f, r

    __add__, __radd__ = _bin(lambda a, b: a + b)
    __sub__, __rsub__ = _bin(lambda a, b: a - b)
    __mul__, __rmul__ = _bin(lambda a, b: a * b)
    __truediv__, __rtruediv__ = _bin(lambda a, b: a / b)
    __lt__, __gt__ = _bin(lambda a, b: a < b)[0], _bin(lambda a, b: a > b)[0]
    __le__, __ge__ = _bin(lambda a, b: a <= b)[0], _bin(lambda a, b: a >= b)[0]
    __eq__, __ne__ = _bin(lambda a, b: a == b)[0], _bin(lambda a, b: a != b)[0]

    def __hash__(self):
        return hash(self.q)

    def _un(op):
        def f(self, *a):
            Reent._nest()
            return op(self.q, *a)
        return f

    __neg__, __pos__, __abs__ = _un(lambda a: -a), _un(lambda a: +a), _un(abs)
    __pow__, __bool__, __float__ = _un(lambda a, e: a ** e), _un(bool), _un(float)
    __round__ = _un(lambda a, nd=None: round(a, nd))

    def __repr__(self):
        return f'!{self.q}'


def is_scalar(x):
    return isinstance(x, (Q, Reent, int, float, Fraction)) and not isinstance(x, bool)


def parse_rat(tok):
    if tok.startswith('!'):
        return Reent(Fraction(tok[1:]))
    return Q(Fraction(tok))


def show_rat(x):
    if isinstance(x, Reent):            # an argument handed back unchanged
        x = x.q
    if isinstance(x, float) and not math.isfinite(x):
        return repr(x)
    return str(Q(x).f)


def parse_exact(tok):
    """Exact-domain argument: `n/d` is a Fraction (also `5/1`), a bare integer a Python int."""
    return Fraction(tok) if '/' in tok else int(tok)


def show_exact(x):
    """Entry of an exact-domain result: exact types as they are, floats marked."""
    if isinstance(x, float):
        return '~' + (str(Fraction(x)) if math.isfinite(x) else repr(x))
    return str(Fraction(x))


def is_plain_scalar(x):
    return type(x) in (int, float, Fraction)


class ObjRef:
    """`@id` among the arguments: the operand object itself is passed, not a copy."""
    def __init__(self, obj):
        self.obj = obj


class UnknownObject(Exception):
    pass


def build_args(M, entry, leaves):
    args, off = [], 0
    for _, kind in entry.params:
        n = math_api.KIND_LEN[kind]
        if off < len(leaves) and isinstance(leaves[off], ObjRef):
            if kind == 's' or len(leaves[off].obj) != n:
                raise ValueError(f'{entry.name}: object of length {len(leaves[off].obj)} for a {kind}')
            args.append(leaves[off].obj)
            off += 1
            continue
        if any(isinstance(x, ObjRef) for x in leaves[off:off + n]):
            raise ValueError(f'{entry.name}: object reference in the middle of a {kind}')
        args.append(math_api.build(M, kind, leaves[off:off + n]))
        off += n
    if off != len(leaves):
        raise ValueError(f'{entry.name}: expected {off} scalars, got {len(leaves)}')
    return args


def run_call(M, tag, entry, leaves, show, is_scalar=is_scalar):
    try:
        args = build_args(M, entry, leaves)
    except ValueError as e:
        return f'bad-line {e}'
    with warnings.catch_warnings(record=True) as w:
        warnings.simplefilter('always')
        try:
            value = entry.fn(M, *args)
        except Exception as e:      # noqa: BLE001 - the exception class is the observation
            return f'{tag} {entry.name} raised {type(e).__name__}'
    cl = math_api.classify(M, value, is_scalar)
    if cl is None:
        return f'{tag} {entry.name} returned {type(value).__name__}'
    out = f'{tag} {entry.name} {cl[0]} ' + ' '.join(show(x) for x in cl[1])
    return out + (' warn' if w else '')


def run_impl(lines):
    import desper.math as M
    obs = []
    store = {}                  # id -> the one Python list of that operand object
    for ln in lines:
        t = ln.split()
        if not t:
            continue
        if t[0] == 'obj':
            store[t[1]] = [parse_rat(x) for x in t[2:]]
            obs.append(f'o {t[1]} {len(t) - 2}')
        elif t[0] == 'set':
            if t[1] not in store:
                obs.append(f'o {t[1]} raised UnknownObject')
            elif int(t[2]) >= len(store[t[1]]):
                obs.append(f'o {t[1]} raised IndexError')
            else:
                store[t[1]][int(t[2])] = parse_rat(t[3])        # in place: same object
                obs.append(f'o {t[1]} set {int(t[2])}')
        elif t[0] in ('call', 'callx', 'callf', 'calle'):
            entry = API.get(t[1])
            if entry is None:
                obs.append(f'bad-line {ln}')
                continue
            if t[0] == 'callf':
                obs.append(run_call(M, 'rf', entry, [float(x) for x in t[2:]], lambda x: repr(float(x))))
            elif t[0] == 'call':
                if any(x.startswith('@') and x[1:] not in store for x in t[2:]):
                    obs.append(f'r {t[1]} raised UnknownObject')
                    continue
                leaves = [ObjRef(store[x[1:]]) if x.startswith('@') else parse_rat(x) for x in t[2:]]
                obs.append(run_call(M, 'r', entry, leaves, show_rat))
            elif t[0] == 'calle':
                obs.append(run_call(M, 're', entry, [parse_exact(x) for x in t[2:]], show_exact,
                                    is_plain_scalar))
            else:
                restore = math_api.install_shims(M, math_api.StandIn(Q))
                try:
                    obs.append(run_call(M, 'rx', entry, [parse_rat(x) for x in t[2:]], show_rat))
                finally:
                    restore()
        elif t[0] == 'swz':
            cls = getattr(M, t[1])
            attrs = '' if t[2] == '-' else t[2]
            v = cls(*[Fraction(x) for x in t[3:]])      # genuine Fractions
            head = f'r swz {t[1]} {t[2]}'
            try:
                # the public route for real swizzles; the method itself for the strings that the
                # class resolves before `__getattr__` is consulted (`x`, `y`, ... are properties)
                r = getattr(v, attrs) if len(attrs) >= 2 else cls.__getattr__(v, attrs)
            except Exception as e:      # noqa: BLE001
                obs.append(f'{head} raised {type(e).__name__}')
                continue
            cl = math_api.classify(M, r, is_scalar)
            if cl is None:
                obs.append(f'{head} returned {type(r).__name__}')
            else:
                obs.append(f'{head} {cl[0]} ' + ' '.join(show_rat(x) for x in cl[1]))
        else:
            obs.append(f'bad-line {ln}')
    return obs, []
