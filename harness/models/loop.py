"""Implementation side of the `loop` model: runs the real desper.loop code on a scenario.

Scenario lines (see lean/DesperModel/Loop.lean for the model's reading of the same text):

    handle <h> procs=<p|u|c,..> load=<k:tok,..|->   world handle h (0,1,..): its worlds get one listener,
                                                    processors 0.. (p plain, u OnUpdateProcessor,
                                                    c CoroutineProcessor with one generator) and the
                                                    load-time events c<k>(tok) dispatched while loading
    clock f8|int|frac                               what the time function returns for a reading r:
                                                    f8 (default) the float r/8.0, int the Python int r
                                                    (any size: ns clocks above 2**53), frac the exact
                                                    Fraction(r, 7); readings may be negative / decrease
    identity <h> eq=<g|-> hash=<g|none> truth=<t|bool|len> world=<t|bool|len>
                                                    Python protocol dressing of handle h and of its worlds
                                                    (the scenario means the same with or without it):
                                                    handles with the same eq group compare `==` (value
                                                    objects), hash=g hashes alike / hash=none unhashable
                                                    (__eq__ only); truth=bool: __bool__ is False, len:
                                                    __len__ is 0; world=.. the same for the handle's worlds
    react <n> <act>                                 what the callback of the n-th delivery (0-based,
                                                    counted over the whole scenario) does
    op load <h>                                     handle()
    op switch <h> <cc> <cn>                         loop.switch(handle, cc, cn) from the test program
    op start                                        loop.start(); the following `frame` lines are the
    frame <r>[/<alt>] <pact> ; <pact> ; ...         clock readings (integers, see `clock`: r is what time
                                                    function 0 returns for this iteration, alt what time
                                                    function 1 returns) and what processor 0, 1, .. does
                                                    in the frame that consumed the reading
    act ::= none | switch h cc cn | rswitch h cc cn | quit | quitto h | rquit | rother
    pact ::= act | lswitch h cc cn | setclock k | peek      processors only: loop.switch(handle, cc, cn)
                                                    called directly (no exception), loop.time_function =
                                                    <time function k>, reading loop.current_world

Observations:
    load <h>#<n> | ev <inst> <event> <args> | frame <inst> <dt> | proc <inst> <p> <dt>
    | ret <outcome> running=<0|1> current=<inst|None> handle=<h|None>     (after start)
    | res <outcome> current=.. handle=..                                    (after load / switch)
    | tick <reading> ...  (the loop read the clock; the fields after the reading are implementation only)
    | peek <inst|None>    (a processor read loop.current_world)
    implementation only (read by the C14 oracle, never compared with the model):
    start | tick <reading> fn=<k> installed=<k'> current=.. handle=.. | tick end
    | do <kind> current=.. handle=.. [tgt=<inst> en=<0|1>]
"""
from fractions import Fraction

import desper
from desper.model.world import WorldHandle

EVENTS = ['on_world_load', 'on_switch_in', 'on_switch_out', 'on_quit', 'on_update',
          'c0', 'c1', 'c2', 'c3']


class Other(Exception):
    pass


class OtherBase(BaseException):
    pass


# "any other exception": what a frame raises when the scenario says `rother` is one of these, chosen by the
# scenario text (the model knows one kind, `Other`; all of them must propagate out of start() alike)
OTHER_KINDS = [Other, Other, OtherBase, KeyboardInterrupt, SystemExit, AssertionError]


class ClockExhausted(Exception):
    pass


def split_list(s):
    return [] if s == '-' else [t for t in s.split(',') if t]


def parse_acts(toks):
    acts, cur = [], []
    for t in toks:
        if t == ';':
            if cur:
                acts.append(cur)
            cur = []
        else:
            cur.append(t)
    if cur:
        acts.append(cur)
    return acts


def parse(lines):
    """-> (handles, reacts, ops); shared with the oracle."""
    handles, reacts, ops = [], {}, []
    for ln in lines:
        t = ln.split()
        if not t:
            continue
        if t[0] == 'handle':
            d = dict(x.split('=', 1) for x in t[2:])
            assert int(t[1]) == len(handles)
            handles.append({'procs': split_list(d['procs']),
                            'load': [tuple(int(v) for v in x.split(':')) for x in split_list(d['load'])]})
        elif t[0] == 'react':
            reacts.setdefault(int(t[1]), t[2:])
        elif t[0] == 'clock':
            assert t[1] in CLOCKS, ln
        elif t[0] == 'identity':
            d = dict(x.split('=', 1) for x in t[2:])
            assert set(d) == {'eq', 'hash', 'truth', 'world'}, ln
            handles[int(t[1])]['identity'] = d
        elif t[0] == 'op':
            if t[1] == 'start':
                ops.append(['start', []])
            elif t[1] == 'load':
                ops.append(['load', int(t[2])])
            elif t[1] == 'switch':
                ops.append(['switch', int(t[2]), bool(int(t[3])), bool(int(t[4]))])
            else:
                raise ValueError(ln)
        elif t[0] == 'frame':
            r, _, alt = t[1].partition('/')
            ops[-1][1].append((int(r), int(alt or r), parse_acts(t[2:])))
        else:
            raise ValueError(f'bad scenario line {ln!r}')
    # every handle an operation names is a declared one (a shrunk scenario that lost a declaration is
    # not a scenario)
    named = [op[1] for op in ops if op[0] in ('load', 'switch')]
    for acts in [a for op in ops if op[0] == 'start' for _, _, a in op[1]] + \
            [parse_acts(r) for r in reacts.values()]:
        named += [int(a[1]) for a in acts if a and a[0] in ('switch', 'rswitch', 'lswitch', 'load')
                  and len(a) > 1 and a[1].isdigit()]
    if any(k >= len(handles) for k in named):
        raise ValueError('operation on an undeclared handle')
    return handles, reacts, ops


# what the scenario's time function returns for the integer reading r, and the unit in which a
# delta is printed (a delta is printed as the exact rational dt / unit; never through float)
CLOCKS = {
    'f8': (lambda r: _f8(r), Fraction(1, 8)),        # exact in binary floating point for small r
    'int': (lambda r: r, Fraction(1)),               # Python int of any size (time.time_ns style)
    'frac': (lambda r: Fraction(r, 7), Fraction(1, 7)),
}


def _f8(r):
    if abs(r) >= 2 ** 50:
        raise ValueError('an f8 clock needs readings that are exact in binary floating point')
    return r / 8.0


def clock_of(lines):
    for ln in lines:
        t = ln.split()
        if t and t[0] == 'clock':
            return t[1]
    return 'f8'


def enc_dt(dt, unit=Fraction(1, 8)):
    """The delta handed to process(), as an exact number of reading units: an integer when it is
    one, else the exact fraction p/q (a float is converted exactly, it is never rounded)."""
    try:
        v = Fraction(dt) / unit
    except (TypeError, ValueError, OverflowError):
        return f'{type(dt).__name__}:{dt!r}'
    return str(v.numerator) if v.denominator == 1 else f'{v.numerator}/{v.denominator}'


def truth_ns(kind):
    if kind == 'bool':
        return {'__bool__': lambda self: False}
    if kind == 'len':
        return {'__len__': lambda self: 0}
    return {}


def exc_name(e):
    return 'Other' if getattr(e, '_scripted_other', False) else type(e).__name__


class Run:
    def __init__(self, lines):
        self.decls, self.reacts, self.ops = parse(lines)
        import zlib
        self.other = OTHER_KINDS[zlib.crc32('\n'.join(lines).encode()) % len(OTHER_KINDS)]
        self.to_clock, self.unit = CLOCKS[clock_of(lines)]
        self.obs = []
        self.delivered = 0
        self.frames = []
        self.cur_acts = []
        self.handles = []
        self.tfs = [self.make_time_function(0), self.make_time_function(1)]
        self.loop = desper.SimpleLoop(self.tfs[0])

    # ---- the scenario's time functions (two distinct callables reading the same frame list)
    def make_time_function(self, k):
        def time_function():
            installed = next((j for j, f in enumerate(self.tfs) if f is self.loop.time_function), '?')
            if not self.frames:
                self.obs.append('tick end')
                raise ClockExhausted()
            frame = self.frames.pop(0)
            self.cur_acts = frame[2]
            self.obs.append(f'tick {frame[k]} fn={k} installed={installed} {self.where()}')
            return self.to_clock(frame[k])
        return time_function

    def frame_act(self, p):
        return self.cur_acts[p] if p < len(self.cur_acts) else ['none']

    def inst(self, world):
        return 'None' if world is None else world._inst

    def hid(self, handle):
        return 'None' if handle is None else str(handle._hid)

    # ---- user code
    def mark(self, kind, target=None):
        """`do` lines: what user code is about to do, and what the loop's own attributes say at
        that moment (used by the C14 oracle; not compared with the model)."""
        tgt = ''
        if target is not None:
            tgt = f' tgt={self.inst(target)} en={int(bool(target.dispatch_enabled))}'
        self.obs.append(f'do {kind} {self.where()}{tgt}')

    def do_act(self, a):
        k = a[0]
        if k == 'none':
            return
        if k == 'switch':
            self.mark('switch')
            desper.switch(self.handles[int(a[1])], bool(int(a[2])), bool(int(a[3])))
        elif k == 'rswitch':
            self.mark('rswitch')
            raise desper.SwitchWorld(self.handles[int(a[1])], bool(int(a[2])), bool(int(a[3])))
        elif k == 'quit':
            self.mark('quit', self.loop.current_world)
            desper.quit_loop()
        elif k == 'quitto':
            target = self.handles[int(a[1])]()
            self.mark('quit', target)
            desper.quit_loop(target)
        elif k == 'lswitch':
            self.loop.switch(self.handles[int(a[1])], bool(int(a[2])), bool(int(a[3])))
        elif k == 'setclock':
            self.loop.time_function = self.tfs[int(a[1])]
        elif k == 'peek':
            self.obs.append(f'peek {self.inst(self.loop.current_world)}')
        elif k == 'rquit':
            self.mark('rquit')
            raise desper.Quit()
        elif k == 'rother':
            self.mark('rother')
            e = self.other()
            try:
                e._scripted_other = True
            except AttributeError:
                e = Other()
                e._scripted_other = True
            raise e
        else:
            raise ValueError(a)

    def delivery(self, world, name, args):
        self.obs.append(f'ev {world._inst} {name} {args}')
        n = self.delivered
        self.delivered += 1
        self.do_act(self.reacts.get(n, ['none']))

    def make_listener(self, world):
        run = self

        def two_worlds(self, a, b):
            return f'{run.inst(a)},{run.inst(b)}'
        ns = {
            'on_world_load': lambda self, h, w: run.delivery(world, 'on_world_load',
                                                             f'{run.hid(h)},{run.inst(w)}'),
            'on_switch_in': lambda self, a, b: run.delivery(world, 'on_switch_in', two_worlds(self, a, b)),
            'on_switch_out': lambda self, a, b: run.delivery(world, 'on_switch_out', two_worlds(self, a, b)),
            'on_quit': lambda self: run.delivery(world, 'on_quit', '_'),
            'on_update': lambda self, dt: run.delivery(world, 'on_update', enc_dt(dt, run.unit)),
        }
        for k in range(4):
            ns[f'c{k}'] = (lambda name: lambda self, tok: run.delivery(world, name, str(tok)))(f'c{k}')
        cls = desper.event_handler(*EVENTS)(type('Listener', (), ns))
        return cls()

    def make_processor(self, world, p, kind):
        run = self

        def log(dt):
            run.obs.append(f'proc {world._inst} {p} {enc_dt(dt, run.unit)}')
        if kind == 'p':
            def process(self, dt):
                log(dt)
                run.do_act(run.frame_act(p))
            return type(f'Plain{p}', (desper.Processor,), {'process': process})()
        if kind == 'u':
            def process(self, dt):
                log(dt)
                desper.OnUpdateProcessor.process(self, dt)
            return type(f'Update{p}', (desper.OnUpdateProcessor,), {'process': process})()
        if kind == 'c':
            def process(self, dt):
                log(dt)
                desper.CoroutineProcessor.process(self, dt)
            proc = type(f'Coro{p}', (desper.CoroutineProcessor,), {'process': process})()

            def gen():
                while True:
                    run.do_act(run.frame_act(p))
                    yield
            proc.start(gen())
            return proc
        raise ValueError(kind)

    def make_handle(self, hid, decl):
        run = self

        def populate(handle, world):
            world._inst = f'{hid}#{handle._nloads}'
            orig = world.process

            def process(dt=1):
                run.obs.append(f'frame {world._inst} {enc_dt(dt, run.unit)}')
                return orig(dt)
            world.process = process          # observation hook on the instance, not on desper
            world.create_entity(run.make_listener(world))
            for p, kind in enumerate(decl['procs']):
                world.add_processor(run.make_processor(world, p, kind), p)
            for k, tok in decl['load']:
                world.dispatch(f'c{k}', tok)

        def load(self):
            self._nloads += 1
            run.obs.append(f'load {hid}#{self._nloads}')
            world = WorldHandle.load(self)
            if ident['world'] != 't':
                # the handle's worlds are instances of a World subclass with this truth value
                world.__class__ = type('ScenarioWorld', (desper.World,), truth_ns(ident['world']))
            return world
        ident = decl.get('identity') or {'eq': '-', 'hash': 'g', 'truth': 't', 'world': 't'}
        ns = {'load': load}
        ns.update(truth_ns(ident['truth']))
        if ident['eq'] != '-':
            group = ident['eq']

            def __eq__(self, other):
                return getattr(other, '_eqgroup', None) == group
            ns['__eq__'] = __eq__
            ns['_eqgroup'] = group
            ns['__hash__'] = None if ident['hash'] == 'none' else (lambda self: hash(('group', group)))
        h = type('ScenarioHandle', (WorldHandle,), ns)()
        h._hid, h._nloads = hid, 0
        h.transform_functions.append(populate)
        return h

    def where(self):
        return (f'current={self.inst(self.loop.current_world)} '
                f'handle={self.hid(self.loop.current_world_handle)}')

    def top(self, op):
        from harness.core import Timeout
        try:
            if op[0] == 'load':
                self.handles[op[1]]()
            elif op[0] == 'switch':
                self.loop.switch(self.handles[op[1]], op[2], op[3])
            else:
                self.frames = list(op[1])
                self.obs.append('start')
                self.loop.start()
            out = 'ok'
        except Timeout:
            raise
        except RecursionError:
            out = 'hang'
        except Exception as e:        # noqa
            out = 'raised ' + exc_name(e)
        except BaseException as e:    # noqa  (the scenario's own KeyboardInterrupt / SystemExit / … only)
            if not getattr(e, '_scripted_other', False):
                raise
            out = 'raised ' + exc_name(e)
        if op[0] == 'start':
            self.obs.append(f'ret {out} running={int(bool(self.loop.running))} {self.where()}')
        else:
            self.obs.append(f'res {out} {self.where()}')

    def go(self):
        self.handles = [self.make_handle(h, d) for h, d in enumerate(self.decls)]
        saved = desper.default_loop
        desper.default_loop = self.loop
        try:
            for op in self.ops:
                self.top(op)
        finally:
            desper.default_loop = saved
        return self.obs, []


def run_impl(lines):
    return Run(lines).go()
