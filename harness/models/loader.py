"""Implementation side of the `loader` model: runs the real desper world loader on a scenario.

Scenario lines (see lean/DesperModel/Loader.lean for the model's reading of the same text).
Strings are percent-encoded tokens (`enc`): ASCII letters, digits and ``_.$/{}-`` stand for
themselves, every other character is ``%XX``.  JSON values are written in prefix form:
``n t f i<int> s<enc> L<n> v.. O<n> k<enc> v ..``.

    module <enc>                                   name under which the scenario's module is importable
    cls <cid> proc|comp prio=<int> ev=none|<event:method,..>     class K<cid> (cid >= 2; 0 and 1 are
                                                   desper.OnUpdateProcessor / desper.CoroutineProcessor)
    name <dotted-enc> cls <cid>                    what object_from_string finds under the name
    name <dotted-enc> obj <oid> copy=0|1           (copy=0: an object copy.deepcopy cannot copy)
    name <dotted-enc> str s<enc>
    tree <path-enc> handle <hid> | map <mid> | world [composite]   the resource tree, parents first
    mode file intree|bare | mode dict | mode direct
    proc <type-enc> A<n>|A- v.. K<m>|K- k<enc> v ..    ('-': the key is absent from the dictionary)
    ent -|i<int>|s<enc>
    ent same                                        the previous entity dictionary listed once more (the very
                                                    same dict object when a dictionary is loaded)
    comp <type-enc> A.. K..                         component of the last `ent`
    rx s<enc>                                       string given to the three regular expressions
    step clear <hid> | step replace <path-enc> <newhid> | step reload | step load2
                                                    (file intree only) between loads of the same file:
                                                    Handle.clear() of a resource handle; a new handle put
                                                    under the key of an existing one; the world handle
                                                    cleared and called again; a second WorldFromFileHandle
                                                    for the same file, stored next to the first, loaded
    tree2 <path-enc> handle <hid> | map <mid>       a second, bigger resource tree (`outer`)
    step mount <ip-enc|-> <key-enc>                 outer[key] = the map at path ip of the tree above the world
                                                    handle (-: its root map); paths of later steps and
                                                    references are then read from the root of `outer`
    step unmount                                    outer.clear(): what was mounted directly in it is a root again
    react <label> <method> <k> : <op> ; <op> ..     what the k-th call (0-based) of that method of the instance
                                                    does to the world it belongs to: enable 0|1 |
                                                    spawn <id|-> <cid,..> (create_entity) | add <id> <cid> |
                                                    remove <id> <cid> | dispatch <event>; labels: i<n> item of
                                                    the description, x<n> n-th instance built by a reaction
                                                    (handle modes only, no raise=)
    step call                                       world_handle() once more (cached world, or a new load after
                                                    a failed one); allowed for `mode dict` too, like reload
    cls .. raise=<n,..>                             the n-th constructor calls of the class (0-based, counted
                                                    over the whole scenario) raise CtorError
    cls .. base=<cid>                               the class is a subclass of an earlier class (its ev= is
                                                    the complete mapping, a superset of the base's)

Modes: `file` writes the description as a JSON file and loads it with a WorldFromFileHandle (stored in
the resource tree by the `tree .. world` line when `intree`); `dict` loads a dictionary holding the
classes themselves through a WorldHandle whose transform function calls populate_world_from_dict;
`direct` calls populate_world_from_dict on a fresh (enabled) World.

Observations:
    rx <group|-> <group|-> <group|->     groups of OBJECT/RESOURCE/HANDLE_STRING_REGEX.match
    load <k> call|reload|load2                a further load starts (its block has the lines below again)
    res ok | res raised <Exception> | res same-world     outcome of the load (same-world: handle() returned
                                         the world object it had returned before, nothing else is printed)
    enabled 0|1                          dispatch_enabled of the returned world
    procs <label:C<cid>,..>              World.processors
    ents <id,..> ; ent <id> <label:C<cid>,..>       World.entities, World.get_components
    inst <label> C<cid> A<n> v.. K<m> k v ..         constructor arguments recorded by the instance
    loaded <hid,..>                      handles whose load() ran during this load (file mode)
    pre <n>                              callbacks received before dispatching was enabled
    res-enable ok|raised <Exception>
    cb <label> <method> <args>           callback log: () | E<id>,W | HW,W
  with `react` lines the callback log is in the order of the calls (no sorting: the model follows the
  `hint <load> <labels>` line the runner hands over and validates it), and after it come
    re-enabled <n>                       times the program had to enable dispatching again (a callback left
                                         it suspended; at most three)
    post-enabled / post-procs / post-ents / post-ent / post-inst         the world once more
Values: JSON tokens, C<cid> class, P<oid> named object, R<hid>.<n> value built by the n-th load() of a
handle, H<hid> handle, M<mid> sub-map, HW the world handle, W the world.  Labels: i<n> the n-th instance that was
constructed, d0/d1 the default processors.
"""
import json
import os
import shutil
import sys
import tempfile
import types

import desper

SAFE = set('abcdefghijklmnopqrstuvwxyzABCDEFGHIJKLMNOPQRSTUVWXYZ0123456789_.$/{}-')


def enc(s):
    out = []
    for ch in s:
        if ch in SAFE:
            out.append(ch)
        else:
            assert ord(ch) < 256, 'scenario strings are Latin-1'
            out.append('%%%02X' % ord(ch))
    return ''.join(out)


def dec(t):
    out, i = [], 0
    while i < len(t):
        if t[i] == '%':
            out.append(chr(int(t[i + 1:i + 3], 16)))
            i += 3
        else:
            out.append(t[i])
            i += 1
    return ''.join(out)


class Ref:
    """A non-JSON value named by its scenario token (C2, P1, R5, H5, M1, HW, W)."""

    def __init__(self, tok):
        self.tok = tok

    def __eq__(self, other):
        return isinstance(other, Ref) and other.tok == self.tok

    def __hash__(self):
        return hash(self.tok)

    def __repr__(self):
        return self.tok


def parse_val(toks, i):
    """tokens -> (python value, next index); JSON objects become lists of pairs in dict order"""
    t = toks[i]
    if t == 'n':
        return None, i + 1
    if t == 't':
        return True, i + 1
    if t == 'f':
        return False, i + 1
    if t[0] == 'i':
        return int(t[1:]), i + 1
    if t[0] == 's':
        return dec(t[1:]), i + 1
    if t[0] == 'L':
        out, i = [], i + 1
        for _ in range(int(t[1:])):
            v, i = parse_val(toks, i)
            out.append(v)
        return out, i
    if t[0] == 'O':
        out, i = {}, i + 1
        for _ in range(int(t[1:])):
            assert toks[i][0] == 'k'
            k = dec(toks[i][1:])
            v, i = parse_val(toks, i + 1)
            out[k] = v
        return out, i
    return Ref(t), i + 1


def parse_args(toks):
    """`A<n>|A- v.. K<m>|K- k v ..` -> (args or None, kwargs or None, rest)"""
    assert toks[0][0] == 'A'
    args, i = (None, 1) if toks[0] == 'A-' else ([], 1)
    if args is not None:
        for _ in range(int(toks[0][1:])):
            v, i = parse_val(toks, i)
            args.append(v)
    assert toks[i][0] == 'K'
    kt, i = toks[i], i + 1
    kwargs = None if kt == 'K-' else {}
    if kwargs is not None:
        for _ in range(int(kt[1:])):
            assert toks[i][0] == 'k'
            k = dec(toks[i][1:])
            v, i = parse_val(toks, i + 1)
            kwargs[k] = v
    return args, kwargs, toks[i:]


def show_json(v):
    if isinstance(v, Ref):
        return [v.tok]
    if v is None:
        return ['n']
    if v is True:
        return ['t']
    if v is False:
        return ['f']
    if type(v) is int:
        return [f'i{v}']
    if type(v) is str:
        return ['s' + enc(v)]
    if type(v) in (list, tuple):
        return [f'L{len(v)}'] + [t for x in v for t in show_json(x)]
    if type(v) is dict:
        return [f'O{len(v)}'] + [t for k, x in v.items() for t in ['k' + enc(k)] + show_json(x)]
    return ['?' + type(v).__name__]


class Scenario:
    def __init__(self, lines):
        self.module = 'vmod'
        self.classes = {}     # cid -> (kind, prio, events or None)
        self.names = []       # (dotted, kind, payload)
        self.tree = []        # (path, kind, payload)
        self.mode, self.intree = 'file', True
        self.procs = []       # (type name, args, kwargs)
        self.ents = []        # [id token, [comps]]
        self.rx = []
        self.steps = []
        self.reactions = {}
        self.tree2 = []
        self.raises = {}
        for ln in lines:
            t = ln.split()
            if not t:
                continue
            k = t[0]
            if k == 'module':
                self.module = dec(t[1])
            elif k == 'cls':
                d = dict(x.split('=', 1) for x in t[3:])
                ev = None if d['ev'] == 'none' else dict(
                    p.split(':') for p in d['ev'].split(',') if p and p != '-')
                self.classes[int(t[1])] = (t[2], int(d['prio']), ev, int(d['base']) if 'base' in d else None)
                self.raises[int(t[1])] = [int(x) for x in d.get('raise', '-').split(',') if x not in ('-', '')]
            elif k == 'name':
                if t[2] == 'cls':
                    self.names.append((dec(t[1]), 'cls', int(t[3])))
                elif t[2] == 'obj':
                    self.names.append((dec(t[1]), 'obj', (int(t[3]), t[4] == 'copy=1')))
                elif t[2] == 'str':
                    self.names.append((dec(t[1]), 'str', dec(t[3][1:])))
                else:
                    raise ValueError(ln)
            elif k == 'react':
                assert t[4] == ':'
                ops, cur = [], []
                for x in t[5:] + [';']:
                    if x == ';':
                        if cur:
                            ops.append(cur)
                        cur = []
                    else:
                        cur.append(x)
                self.reactions[(t[1], t[2], int(t[3]))] = ops
            elif k == 'tree2':
                self.tree2.append((dec(t[1]), t[2], int(t[3])))
            elif k == 'tree':
                payload = int(t[3]) if t[2] in ('handle', 'map') else (len(t) > 3 and t[3] == 'composite')
                self.tree.append((dec(t[1]), t[2], payload))
            elif k == 'mode':
                self.mode = t[1]
                self.intree = len(t) > 2 and t[2] == 'intree'
            elif k == 'proc':
                a, kw, rest = parse_args(t[2:])
                assert not rest
                self.procs.append((dec(t[1]), a, kw))
            elif k == 'ent' and t[1] == 'same':
                self.ents.append(self.ents[-1])          # the same list object: an alias
            elif k == 'ent':
                self.ents.append([t[1], []])
            elif k == 'comp':
                a, kw, rest = parse_args(t[2:])
                assert not rest
                self.ents[-1][1].append((dec(t[1]), a, kw))
            elif k == 'rx':
                self.rx.append(dec(t[1][1:]))
            elif k == 'step':
                if t[1] == 'clear':
                    self.steps.append(('clear', int(t[2])))
                elif t[1] == 'replace':
                    self.steps.append(('replace', dec(t[2]), int(t[3])))
                elif t[1] in ('reload', 'load2', 'call', 'unmount'):
                    self.steps.append((t[1],))
                elif t[1] == 'mount':
                    self.steps.append(('mount', dec(t[2]), dec(t[3])))
                else:
                    raise ValueError(ln)
            elif k == 'hint':
                pass
            else:
                raise ValueError(f'bad scenario line {ln!r}')
        if any(ln.split()[:1] == ['mode'] and ln.split()[2:3] == ['intree'] for ln in lines) and \
                sum(1 for _, kind, _ in self.tree if kind == 'world') != 1:
            raise ValueError('mode intree without the place of the world handle in the tree')
        # a scripted reaction may only name declared classes (a shrunk scenario that lost a declaration is
        # not a scenario)
        for ops in self.reactions.values():
            for op in ops:
                cids = op[2].split(',') if op[0] == 'spawn' else op[2:3] if op[0] in ('add', 'remove') else []
                if any(c.isdigit() and int(c) not in self.classes for c in cids):
                    raise ValueError(f'reaction names an undeclared class: {op}')

    def name_table(self):
        return {n: (kind, p) for n, kind, p in self.names}

    def tree_table(self):
        return {p: (kind, x) for p, kind, x in self.tree}


def ent_id(tok):
    if tok == '-':
        return None
    return int(tok[1:]) if tok[0] == 'i' else dec(tok[1:])


def show_id(v):
    if type(v) is int:
        return f'i{v}'
    if type(v) is str:
        return 's' + enc(v)
    return '?' + type(v).__name__


class CtorError(Exception):
    """scripted failure of a component / processor constructor"""


class Opaque:
    def __init__(self, oid):
        self.oid = oid


class Res:
    def __init__(self, hid):
        self.hid = hid


class Run:
    def __init__(self, lines):
        self.sc = Scenario(lines)
        self.obs = []
        self.log = []
        self.counter = 0
        self.ids = {}        # id(object) -> token  (objects are kept alive in self.keep)
        self.keep = []
        self.handles = {}
        self.ctor_calls = {}
        self.calls = {}
        self.spawning, self.spawned = False, 0
        self.world = None
        self.hints = []
        self.load_no = 0
        self.returned = []     # worlds handle() has returned (kept alive: identity is observed)

    def register(self, obj, tok):
        self.ids[id(obj)] = tok
        self.keep.append(obj)

    # ---------------------------------------------------------------- universe
    def make_class(self, cid, kind, prio, events, base=None):
        run = self

        def __init__(self, *args, **kwargs):
            if run.spawning:
                self._label = f'x{run.spawned}'
                run.spawned += 1
            else:
                self._label = f'i{run.counter}'
                run.counter += 1
            k = run.ctor_calls.get(cid, 0)
            run.ctor_calls[cid] = k + 1
            if k in run.sc.raises.get(cid, ()):
                raise CtorError(f'constructor call {k} of K{cid}')
            self._args, self._kwargs = args, kwargs

        def make(mname):
            def method(self, *args, **kwargs):
                # no strong reference to the receiver is kept (the world holds handlers weakly)
                lab = run.label(self)
                run.log.append((lab, mname, args, kwargs))
                k = run.calls.get((lab, mname), 0)
                run.calls[(lab, mname)] = k + 1
                for op in run.sc.reactions.get((lab, mname, k), ()):
                    run.react(op)
            method.__name__ = mname
            return method
        ns = {'__init__': __init__}
        for m in sorted(set((events or {}).values())):
            ns[m] = make(m)
        if kind == 'proc':
            ns['process'] = lambda self, dt=1: None
            ns['priority'] = prio
            cls = type(f'K{cid}', (desper.Processor if base is None else self.cls[base],), ns)
        else:
            cls = type(f'K{cid}', () if base is None else (self.cls[base],), ns)
        if events:
            cls = desper.event_handler(**events)(cls)
        elif events is not None:
            cls.__events__ = {}
        return cls

    def build_universe(self):
        sc = self.sc
        self.cls = {0: desper.OnUpdateProcessor, 1: desper.CoroutineProcessor}
        for cid, (kind, prio, ev, base) in sc.classes.items():
            self.cls[cid] = self.make_class(cid, kind, prio, ev, base)
        for cid, c in self.cls.items():
            self.register(c, f'C{cid}')
        self.mod = types.ModuleType(sc.module)
        self.named = {}
        for dotted, kind, payload in sc.names:
            parts = dotted.split('.')
            if parts[0] != sc.module:
                # a real importable name (desper.OnUpdateProcessor): nothing to set up
                assert kind == 'cls' and desper.object_from_string(dotted) is self.cls[payload], dotted
                continue
            if kind == 'cls':
                value = self.cls[payload]
            elif kind == 'str':
                value = payload
            else:
                oid, copyable = payload
                if len(parts) == 1:
                    value = self.mod
                    assert not copyable
                else:
                    value = Opaque(oid) if copyable else types.ModuleType(f'uncopyable{oid}')
                self.register(value, f'P{oid}')
            if len(parts) > 1:
                parent = self.mod
                for p in parts[1:-1]:
                    parent = getattr(parent, p)
                setattr(parent, parts[-1], value)
            self.named[dotted] = value

    def build_tree(self, world_handle):
        run = self

        class CountingHandle(desper.Handle):
            def __init__(self, hid):
                self.hid = hid
                self.count = 0

            def load(self):
                self.count += 1
                r = Res(self.hid)
                run.register(r, f'R{self.hid}.{self.count}')
                return r
        self.handle_class = CountingHandle
        self.world_parent, self.world_key = None, None
        self.root = desper.ResourceMap()
        self.register(self.root, 'M0')
        for path, kind, payload in self.sc.tree:
            parts = path.split('/')
            if kind == 'world' and payload:
                # composite key, inserted from the root in one step (intermediate maps are implicit)
                if world_handle is not None:
                    self.root[path] = world_handle
                    self.world_parent, self.world_key = world_handle.parent, parts[-1]
                continue
            parent = self.root
            for p in parts[:-1]:
                parent = parent.maps[p]
            if kind == 'map':
                value = desper.ResourceMap()
                self.register(value, f'M{payload}')
            elif kind == 'handle':
                value = CountingHandle(payload)
                self.handles[payload] = value
                self.register(value, f'H{payload}')
            else:
                if world_handle is None:
                    continue
                value = world_handle
                self.world_parent, self.world_key = parent, parts[-1]
            parent[parts[-1]] = value
        self.outer = desper.ResourceMap()
        self.register(self.outer, 'M1000000')
        for path, kind, payload in self.sc.tree2:
            parts = path.split('/')
            parent = self.outer
            for p in parts[:-1]:
                parent = parent.maps[p]
            if kind == 'map':
                value = desper.ResourceMap()
                self.register(value, f'M{payload}')
            else:
                value = self.handle_class(payload)
                self.handles[payload] = value
                self.register(value, f'H{payload}')
            parent[parts[-1]] = value

    def current_root(self, handle):
        """the root of the tree the world handle is in now"""
        m = handle.parent
        while m.parent is not None:
            m = m.parent
        return m

    @staticmethod
    def walk(root, path):
        for p in path.split('/'):
            root = root.maps[p]
        return root

    # ---------------------------------------------------------------- description
    def item_dict(self, item, resolve_types):
        tname, args, kwargs = item
        d = {'type': self.named[tname] if resolve_types else tname}
        if args is not None:
            d['args'] = args
        if kwargs is not None:
            d['kwargs'] = kwargs
        return d

    def description(self, resolve_types):
        d = {}
        if self.sc.procs:
            d['processors'] = [self.item_dict(p, resolve_types) for p in self.sc.procs]
        if self.sc.ents:
            ents = []
            built = {}
            for entry in self.sc.ents:
                idtok, comps = entry
                if resolve_types and id(entry) in built:
                    ents.append(built[id(entry)])          # listed again: the same dictionary object
                    continue
                e = {}
                if idtok != '-':
                    e['id'] = ent_id(idtok)
                if comps or idtok == '-':
                    e['components'] = [self.item_dict(c, resolve_types) for c in comps]
                built[id(entry)] = e
                ents.append(e)
            d['entities'] = ents
        return d

    # ---------------------------------------------------------------- observation
    def show_val(self, v):
        tok = self.ids.get(id(v))
        if tok is not None:
            return [tok]
        if type(v) in (list, tuple):
            return [f'L{len(v)}'] + [t for x in v for t in self.show_val(x)]
        if type(v) is dict:
            return [f'O{len(v)}'] + [t for k, x in v.items() for t in ['k' + enc(k)] + self.show_val(x)]
        return show_json(v)

    def label(self, inst):
        if type(inst) is desper.OnUpdateProcessor:
            return 'd0'
        if type(inst) is desper.CoroutineProcessor:
            return 'd1'
        lab = getattr(inst, '_label', None)
        return '?' if lab is None else lab

    def ref(self, inst):
        return f'{self.label(inst)}:{self.ids.get(id(type(inst)), "?")}'

    def show_inst(self, inst):
        a, k = inst._args, inst._kwargs
        toks = ['inst', self.label(inst), self.ids.get(id(type(inst)), '?'), f'A{len(a)}']
        for x in a:
            toks += self.show_val(x)
        toks.append(f'K{len(k)}')
        for key, x in k.items():
            toks += ['k' + enc(key)] + self.show_val(x)
        return ' '.join(toks)

    def show_cb(self, world, handle, entry):
        lab, mname, args, kwargs = entry
        if kwargs:
            a = '?kwargs'
        elif not args:
            a = '()'
        elif len(args) == 2 and args[0] is handle and args[1] is world and handle is not None:
            a = 'HW,W'
        elif len(args) == 2 and args[1] is world:
            a = f'E{show_id(args[0])},W'
        else:
            a = '?'
        return (lab, mname, a)

    def dump(self, world, handle, post=False):
        obs = self.obs
        obs.append(f'enabled {int(world.dispatch_enabled)}')
        procs = list(world.processors)
        obs.append('procs ' + (','.join(self.ref(p) for p in procs) or '-'))
        ents = list(world.entities)
        obs.append('ents ' + (','.join(show_id(e) for e in ents) or '-'))
        comps = []
        for e in ents:
            cs = list(world.get_components(e))
            comps += cs
            obs.append(f'ent {show_id(e)} ' + (','.join(self.ref(c) for c in cs) or '-'))
        for inst in procs + comps:
            if str(getattr(inst, '_label', '')).startswith('i'):
                obs.append(self.show_inst(inst))
        if self.sc.mode == 'file' and not post:
            loaded = []
            for hid in sorted(self.handles):
                n = self.handles[hid].count - self.counts_before.get(hid, 0)
                if n:
                    loaded.append(str(hid) if n == 1 else f'{hid}x{n}')
            obs.append('loaded ' + (','.join(loaded) or '-'))

    @staticmethod
    def canon(cbs):
        """callbacks of one on_world_load delivery come out of a set: sorted by receiver"""
        def key(c):
            lab = c[0]
            return int(lab[1:]) if lab[0] == 'd' else int(lab[1:]) + 2 if lab[1:].isdigit() else 10 ** 9
        out, run = [], []
        for c in cbs:
            if c[2] == 'HW,W':
                run.append(c)
            else:
                out += sorted(run, key=key)
                run = []
                out.append(c)
        return out + sorted(run, key=key)

    def react(self, op):
        """one operation of a scripted reaction, on the world that is being observed"""
        w = self.world
        if op[0] == 'enable':
            w.dispatch_enabled = bool(int(op[1]))
        elif op[0] == 'dispatch':
            w.dispatch(op[1])
        elif op[0] == 'spawn':
            self.spawning = True
            try:
                comps = [self.cls[int(c)]() for c in op[2].split(',') if c and c != '-']
            finally:
                self.spawning = False
            w.create_entity(*comps, entity_id=ent_id(op[1]))
        elif op[0] == 'add':
            self.spawning = True
            try:
                comp = self.cls[int(op[2])]()
            finally:
                self.spawning = False
            w.add_component(ent_id(op[1]), comp)
        elif op[0] == 'remove':
            w.remove_component(ent_id(op[1]), self.cls[int(op[2])])
        else:
            raise ValueError(op)

    # ---------------------------------------------------------------- run
    def one_load(self, handle, load):
        """one load and its observation block"""
        sc = self.sc
        self.counter = 0
        self.log = []
        self.calls = {}
        self.spawned = 0
        self.load_no += 1
        self.counts_before = {hid: h.count for hid, h in self.handles.items()}
        try:
            if sc.mode == 'direct':
                world = desper.World()
                desper.populate_world_from_dict(world, self.description(True))
            else:
                world = load()
        except RecursionError:
            self.obs.append('res raised RecursionError')
            return
        except Exception as e:        # noqa
            self.obs.append('res raised ' + type(e).__name__)
            return
        if any(world is w for w in self.returned):
            self.obs.append('res same-world')
            return
        self.returned.append(world)
        self.obs.append('res ok')
        self.dump(world, handle)
        self.obs.append(f'pre {len(self.log)}')
        self.world = world
        if sc.reactions:
            n = 0
            try:
                world.dispatch_enabled = True
                while not world.dispatch_enabled and n < 3:
                    n += 1
                    world.dispatch_enabled = True
                self.obs.append('res-enable ok')
            except RecursionError:
                self.obs.append('res-enable hang')
            except Exception as e:    # noqa
                self.obs.append('res-enable raised ' + type(e).__name__)
            self.obs.append(f're-enabled {n}')
            for e in self.log:
                self.obs.append('cb ' + ' '.join(self.show_cb(world, handle, e)))
            self.hints.append(f'hint {self.load_no} ' + (','.join(e[0] for e in self.log) or '-'))
            k = len(self.obs)
            self.dump(world, handle, post=True)
            self.obs[k:] = ['post-' + o for o in self.obs[k:]]
            return
        if sc.mode != 'direct':
            try:
                world.dispatch_enabled = True
                self.obs.append('res-enable ok')
            except Exception as e:    # noqa
                self.obs.append('res-enable raised ' + type(e).__name__)
        cbs = [self.show_cb(world, handle, e) for e in self.log]
        for c in self.canon(cbs):
            self.obs.append('cb ' + ' '.join(c))

    def go(self):
        from desper.model import world as mw
        sc = self.sc
        for s in sc.rx:
            gs = []
            for rx in (mw.OBJECT_STRING_REGEX, mw.RESOURCE_STRING_REGEX, mw.HANDLE_STRING_REGEX):
                m = rx.match(s)
                gs.append('-' if m is None else 's' + enc(m.groups()[0]))
            self.obs.append('rx ' + ' '.join(gs))
        clear = getattr(desper.object_from_string, 'cache_clear', None)
        if clear:
            clear()
        saved = sys.modules.get(sc.module)
        tmp = tempfile.mkdtemp(prefix='c15-')
        try:
            self.build_universe()
            sys.modules[sc.module] = self.mod
            handle = None
            if sc.mode == 'file':
                fn = os.path.join(tmp, 'world.json')
                with open(fn, 'w') as f:
                    json.dump(self.description(False), f)
                handle = desper.WorldFromFileHandle(fn)
                self.build_tree(handle if sc.intree else None)
            elif sc.mode == 'dict':
                desc = self.description(True)
                handle = desper.WorldHandle()
                handle.transform_functions.append(
                    lambda h, w: desper.populate_world_from_dict(w, desc))
            if handle is not None:
                self.register(handle, 'HW')
            self.one_load(handle, lambda: handle())
            k = 2
            for st in sc.steps:
                if st[0] == 'clear':
                    self.handles[st[1]].clear()
                elif st[0] == 'mount':
                    root = self.current_root(handle)
                    obj = root if st[1] == '-' else self.walk(root, st[1])
                    parts = st[2].split('/')
                    parent = self.outer if len(parts) == 1 else self.walk(self.outer, '/'.join(parts[:-1]))
                    parent[parts[-1]] = obj
                elif st[0] == 'unmount':
                    self.outer.clear()
                elif st[0] == 'replace':
                    parts = st[1].split('/')
                    parent = self.current_root(handle)
                    for p in parts[:-1]:
                        parent = parent.maps[p]
                    value = self.handle_class(st[2])
                    self.handles[st[2]] = value
                    self.register(value, f'H{st[2]}')
                    parent[parts[-1]] = value
                elif st[0] == 'call':
                    self.obs.append(f'load {k} call')
                    self.one_load(handle, lambda: handle())
                    k += 1
                elif st[0] == 'reload':
                    self.obs.append(f'load {k} reload')
                    handle.clear()
                    self.one_load(handle, lambda: handle())
                    k += 1
                else:
                    self.obs.append(f'load {k} load2')
                    other = desper.WorldFromFileHandle(handle.filename)
                    self.register(other, f'HW{k}')
                    self.world_parent[f'{self.world_key}~{k}'] = other
                    self.one_load(other, lambda: other())
                    k += 1
            return self.obs, self.hints
        finally:
            shutil.rmtree(tmp, ignore_errors=True)
            if saved is None:
                sys.modules.pop(sc.module, None)
            else:
                sys.modules[sc.module] = saved
            if clear:
                clear()


def run_impl(lines):
    return Run(lines).go()
