"""Implementation side of the `tree` model: runs the real desper.model.tree code on a scenario.

Scenario lines (the Lean model `lean/DesperModel/Tree.lean` reads the same text):

    newmap m<k> [split=<c><sub|inst>] [eq=<label>|ueq=<label>] [falsy=1]
                                         m<k> = ResourceMap() - or an instance of a subclass whose key delimiter
                                         is <c> (class attribute of the subclass: sub, instance attribute: inst),
                                         whose instances compare equal / hash alike by label (eq), compare equal
                                         and are unhashable (ueq), are falsy (__bool__ False, __len__ 0)
    (newhandle takes eq= / ueq= / falsy= too.  The library must treat resources by identity.)
    In path tokens '/' separates the names and '~' stands for a '/' INSIDE a name (possible when the map's
    delimiter is not '/'); composite keys are rendered with the delimiter of the map the operation is called on.
    newhandle h<k> <valkind> [fail=i,j]  h<k> = a Handle whose load() counts and returns <valkind>; its i-th, j-th
                                         invocations raise instead (OSError, KeyError, AttributeError, ... - observed
                                         as `raised LoadError`, identified by identity of the exception object)
    op set m<k> :<path> x<j>             m<k>['a/b'] = <neither a ResourceMap nor a Handle>   (must be rejected)
    op setkey m<k> k<j> h<j>|m<j>        m<k>[<not a str>] = value                              (must be rejected)
    op set m<k> :<path> m<j>|h<j>        m<k]['a/b'] = value          (`:` alone is the empty key)
    op layer m<k>                        m<k>.handles.maps.insert(0, {})   (populator, on conflict)
    op clear m<k> | op hclear h<k> | op call h<k> | op cached h<k> | op stat h<k>
    op getitem m<k> :<path>              m<k>['a/b']
    op get m<k> :<path>                  m<k>.get('a/b', SENTINEL)
    op chain m<k> :<path>                m<k>['a']['b']   (one [] per component)
    op bind m<j> m<k> :<path>            m<j> = m<k>.get('a/b')   (if that is a map)
    op snap s<k> m<j>                    s<k> = m<j>.get_static_map()
    op sgetitem|sgetattr|sget s<k> :<path>      s['a']['b'] | s.a.b | s.get('a').get('b')
    op ssetattr|sdelattr s<k> :<path>    setattr/delattr on the sub-snapshot owning the last name
    op sdump s<k>                        probe the snapshot with get() over the scenario's alphabet
    op dump m<k>                         the tree below m<k> to depth 4: objects, .parent, .key, layers
    op links                             .parent / .key of every declared handle and map

Observations are named by scenario ids; implicitly created maps are named a0, a1, ... in the order
in which they are first printed (the model does the same).  Loaded values are never compared with
`==`: a value is identified with `is` against the objects the counting loaders handed out.
"""
from desper.model.tree import Handle, ResourceMap, StaticResourceMap

SENTINEL = object()


class HarnessError(Exception):
    """a failure of the harness itself (malformed scenario, broken environment assumption): exit 2"""

OPS = {'set', 'setkey', 'layer', 'clear', 'hclear', 'call', 'cached', 'stat', 'getitem', 'get', 'chain', 'bind', 'snap',
       'sgetitem', 'sgetattr', 'sget', 'ssetattr', 'sdelattr', 'sdump', 'dump', 'links', 'populate', 'splitext'}


class Evil:
    """A resource whose __eq__/__bool__/__hash__ raise: must never be inspected."""
    __slots__ = ()

    def __eq__(self, o):
        raise RuntimeError('__eq__ called on a resource')

    def __ne__(self, o):
        raise RuntimeError('__ne__ called on a resource')

    def __bool__(self):
        raise RuntimeError('__bool__ called on a resource')

    def __len__(self):
        raise RuntimeError('__len__ called on a resource')

    __hash__ = None


class AnyEq:
    """A resource that compares equal to everything (a wildcard matcher such as unittest.mock.ANY)."""

    def __eq__(self, o):
        return True

    def __ne__(self, o):
        return False

    __hash__ = None


class Twin:
    """Resources that are all equal to each other but never identical."""

    def __eq__(self, o):
        return isinstance(o, Twin)

    def __ne__(self, o):
        return not isinstance(o, Twin)

    def __hash__(self):
        return 7


class Tag:
    """Duck-typed equality: compares the `name` of whatever it is given (missing name = None)."""

    def __init__(self, name=None):
        self.name = name

    def __eq__(self, o):
        return self.name == getattr(o, 'name', None)

    def __ne__(self, o):
        return not self == o

    __hash__ = None


KINDS = {
    'none': lambda: None, 'zero': lambda: 0, 'empty': lambda: '', 'false': lambda: False,
    'tuple': lambda: (), 'list': lambda: [], 'dict': lambda: {}, 'obj': lambda: object(),
    'evil': lambda: Evil(), 'zerof': lambda: 0.0, 'bytes': lambda: b'',
    'anyeq': lambda: AnyEq(), 'twin': lambda: Twin(), 'tag': lambda: Tag(),
}
ODD_EQ_KINDS = ['evil', 'anyeq', 'twin', 'tag']
SINGLETON_KINDS = ['none', 'zero', 'empty', 'false', 'tuple', 'zerof', 'bytes']


LOADER_ERRORS = [OSError, KeyError, AttributeError, RuntimeError, LookupError]


def parse_opts(toks):
    return dict(t.split('=', 1) for t in toks if '=' in t)


def hooked(ns, opts, hooks):
    """`prop=1`: `parent` and `key` are properties whose setters run the scripted user code after storing"""
    if opts.get('prop') != '1' or hooks is None:
        return ns

    def prop(attr):
        slot = '_prop_' + attr

        def getter(self):
            return self.__dict__.get(slot)

        def setter(self, v):
            self.__dict__[slot] = v
            hooks(attr)
        return property(getter, setter)
    ns['parent'] = prop('parent')
    ns['key'] = prop('key')
    return ns


def value_semantics(ns, opts):
    """add scripted value equality / hashing / truthiness to a class namespace (`eq=L`: equal and hashing alike
    by label, `ueq=L`: equal by label and unhashable, `falsy=1`: __bool__ False and __len__ 0)"""
    label = opts.get('eq', opts.get('ueq'))
    if label is not None:
        ns['_label'] = label
        ns['__eq__'] = lambda self, o: getattr(o, '_label', None) == self._label
        ns['__ne__'] = lambda self, o: getattr(o, '_label', None) != self._label
        ns['__hash__'] = (lambda self: hash(self._label)) if 'eq' in opts else None
    if opts.get('falsy') == '1':
        ns['__bool__'] = lambda self: False
        ns['__len__'] = lambda self: 0
    return ns


def make_map(opts, hooks=None):
    """a ResourceMap, or an instance of a user subclass (key delimiter, value semantics, property setters)"""
    ns = hooked(value_semantics({}, opts), opts, hooks)
    split = opts.get('split')
    if split and split[1:] == 'sub':
        ns['split_char'] = split[0]
    cls = type('UserMap', (ResourceMap,), ns) if ns else ResourceMap
    m = cls()
    if split and split[1:] == 'inst':
        m.split_char = split[0]
    return m


def make_handle(kind, fails=(), raised=None, opts=None, hooks=None):
    """a Handle whose load() counts its invocations (`tries`), raises on the scripted ones (`fails`, 1-based;
    the exception objects are recorded in `raised`) and otherwise returns a <kind> value (`loaded`)"""
    make = KINDS[kind]

    class CountingHandle(Handle):
        def __init__(self):
            self.loaded = []
            self.tries = 0

        def load(self):
            self.tries += 1
            if self.tries in fails:
                e = LOADER_ERRORS[self.tries % len(LOADER_ERRORS)](f'load #{self.tries} failed')
                if raised is not None:
                    raised.append(e)
                raise e
            if hooks is not None:
                hooks('load')            # the loader's own code: it may use the resource tree
            v = make()
            self.loaded.append(v)
            return v
    ns = hooked(value_semantics({}, opts or {}), opts or {}, hooks)
    if ns:
        return type('UserHandle', (CountingHandle,), ns)()
    return CountingHandle()


def parse_fails(toks):
    for t in toks:
        if t.startswith('fail='):
            return tuple(int(x) for x in t[5:].split(',') if x)
    return ()


# values that are neither a ResourceMap nor a Handle, keys that are not strings
NON_RESOURCES = [lambda: None, lambda: 7, lambda: 'text', lambda: {}, lambda: object(),
                 lambda: ResourceMap().get_static_map(), lambda: Handle]
BAD_KEYS = [None, 5, b'a/b', ('a', 'b')]


def comps(tok):
    """the names of a path token ('~' inside a name is a '/')"""
    assert tok.startswith(':'), tok
    return [c.replace('~', '/') for c in tok[1:].split('/')]


def enc(name):
    return name.replace('/', '~') if isinstance(name, str) else repr(name)


def show_key(k):
    return 'None' if k is None else ':' + enc(k)


def show_path(p):
    return ':' + '/'.join(enc(c) for c in p) if p else '-'


def key_for(m, tok):
    """the composite key for the names of a path token, spelled with the delimiter of the map it is given to"""
    cs = comps(tok)
    d = m.split_char
    if any(d in c for c in cs):
        raise HarnessError(f'a name of {tok} contains the delimiter {d!r} of the map')
    return d.join(cs)


def reserved(k):
    return k in ('get', '_handle_names') or (k.startswith('__') and k.endswith('__'))


def alphabet_of(lines):
    s = set()
    for ln in lines:
        for t in ln.split():
            if t.startswith(':'):
                s.update(comps(t))
    return sorted(s, key=enc)


class Run:
    def __init__(self, lines):
        self.lines = lines
        self.obs = []
        self.menv = {}          # scenario name -> ResourceMap
        self.hs = {}            # k -> handle
        self.mdecl = []
        self.senv = {}
        self.names = {}         # id(obj) -> display name  (objects kept alive in self.keep)
        self.keep = []
        self.nanon = 0
        self.alphabet = alphabet_of(lines)
        self.loader_excs = []
        self.anon_objs = []
        self.silent = False
        self.reactions = {}       # (hook, object name, k) -> list of operations (token lists)
        self.fired = {}
        for ln in lines:
            t = ln.split()
            if t[:1] == ['react']:
                assert t[4] == ':', ln
                ops, cur = [], []
                for tok in t[5:] + [';']:
                    if tok == ';':
                        if cur:
                            ops.append(cur)
                        cur = []
                    else:
                        cur.append(tok)
                self.reactions[(t[1], t[2], int(t[3]))] = ops

    # ----- naming
    def name_m(self, m):
        if m is None:
            return 'None'
        n = self.names.get(id(m))
        if n is None and self.silent:
            return 'unnamed'          # inside a script nothing is printed, so nothing is named
        if n is None:
            if isinstance(m, ResourceMap):
                n = f'a{self.nanon}'
                self.nanon += 1
                self.anon_objs.append(m)
            else:
                n = 'foreign'
            self.names[id(m)] = n
            self.keep.append(m)
        return n

    def name_h(self, h):
        for k, o in self.hs.items():
            if o is h:
                return f'h{k}'
        return 'foreign'

    def show_val(self, v):
        """identify a loaded resource: handle and load number (the last load that returned it)"""
        for k, h in self.hs.items():
            for i in range(len(h.loaded) - 1, -1, -1):
                if h.loaded[i] is v:
                    return f'val h{k} {i + 1}'
        return 'val None' if v is None else 'val foreign'

    def emit_item(self, tag, f, is_sub):
        try:
            v = f()
        except Exception as e:       # noqa
            self.obs.append(f'{tag} raised {self.exc_name(e)}'.strip())
            return
        self.obs.append(f'{tag} {self.show_item(v)}'.strip())

    def show_item(self, v):
        if isinstance(v, ResourceMap):
            return 'map ' + self.name_m(v)
        if isinstance(v, StaticResourceMap):
            return 'smap'
        return self.show_val(v)

    # ----- dump
    def dump(self, depth, path, m):
        if depth == 0:
            return
        layers = m.handles.maps
        self.obs.append(f'map {show_path(path)} {self.name_m(m)} parent={self.name_m(m.parent)} '
                        f'key={show_key(m.key)} nlayers={len(layers)}')
        for li, layer in enumerate(layers):
            for k in sorted(layer, key=enc):       # the order of the scenario's spelling of the names
                h = layer[k]
                self.obs.append(f'hnd {show_path(path)} {li} {show_key(k)} {self.name_h(h)} '
                                f'parent={self.name_m(h.parent)} key={show_key(h.key)}')
        for k in sorted(m.maps, key=enc):
            self.dump(depth - 1, path + [k], m.maps[k])

    def sdump(self, depth, path, s):
        if depth == 0:
            return
        for k in self.alphabet:
            if reserved(k):
                continue
            try:
                v = s.get(k)
            except AttributeError:
                continue
            except Exception as e:       # noqa
                self.obs.append(f'snode {show_path(path + [k])} raised {self.exc_name(e)}')
                continue
            if isinstance(v, StaticResourceMap):
                self.obs.append(f'snode {show_path(path + [k])} smap')
                self.sdump(depth - 1, path + [k], v)
            elif isinstance(v, Handle):
                self.obs.append(f'snode {show_path(path + [k])} handle {self.name_h(v)}')
            else:
                self.obs.append(f'snode {show_path(path + [k])} foreign')

    # ----- chains (one access per component; indexing into a loaded resource is not desper's business)
    def chain(self, start, ks, access, is_node):
        cur = start
        for n, k in enumerate(ks):
            cur = access(cur, k)
            if n < len(ks) - 1 and not is_node(cur):
                return 'stuck'
        return self.show_item(cur)

    def emit_chain(self, tag, start, ks, access, is_node):
        try:
            self.obs.append(f'{tag} ' + self.chain(start, ks, access, is_node))
        except Exception as e:       # noqa
            self.obs.append(f'{tag} raised {self.exc_name(e)}')

    # ----- ops
    def op(self, t):
        kind = t[0]
        if kind == 'bind':
            if t[1] in self.menv:
                raise HarnessError('rebinding ' + t[1])
            if t[2] not in self.menv:
                self.obs.append('unbound')
                return
            try:
                v = self.menv[t[2]].get(key_for(self.menv[t[2]], t[3]))
            except Exception as e:       # noqa
                self.obs.append(f'bound raised {self.exc_name(e)}')
                return
            if isinstance(v, ResourceMap):
                self.obs.append('bound ' + self.name_m(v))
                self.menv[t[1]] = v
            else:
                self.obs.append('bound none')
        elif kind == 'setkey':
            m = self.menv.get(t[1])
            v = self.hs.get(int(t[3][1:])) if t[3][0] == 'h' else self.menv.get(t[3])
            if m is None or v is None:
                self.obs.append('unbound')
                return
            self.guard(lambda: m.__setitem__(BAD_KEYS[int(t[2][1:]) % len(BAD_KEYS)], v))
        elif kind == 'set' and t[3][0] == 'x':
            m = self.menv.get(t[1])
            if m is None:
                self.obs.append('unbound')
                return
            key = key_for(m, t[2])
            self.guard(lambda: m.__setitem__(key, NON_RESOURCES[int(t[3][1:]) % len(NON_RESOURCES)]()))
        elif kind == 'set':
            m = self.menv.get(t[1])
            v = self.hs.get(int(t[3][1:])) if t[3][0] == 'h' else self.menv.get(t[3])
            if m is None or v is None:
                self.obs.append('unbound')
                return
            key = key_for(m, t[2])
            self.guard(lambda: m.__setitem__(key, v))
        elif kind in ('layer', 'clear', 'dump'):
            m = self.menv.get(t[1])
            if m is None:
                self.obs.append('unbound')
            elif kind == 'layer':
                self.guard(lambda: m.handles.maps.insert(0, {}))
            elif kind == 'clear':
                self.guard(m.clear)
            else:
                self.dump(5, [], m)
                self.obs.append('end-dump')
        elif kind in ('call', 'hclear', 'cached', 'stat'):
            k = int(t[1][1:])
            h = self.hs[k]
            if kind == 'call':
                self.emit_item('', h, False)
            elif kind == 'hclear':
                self.guard(h.clear)
            elif kind == 'cached':
                self.obs.append(f'cached h{k} {self.read_cached(h)}')
            else:
                self.obs.append(f'stat h{k} loads={len(h.loaded)} tries={h.tries} cached={self.read_cached(h)}')
        elif kind == 'links':
            for k, h in self.hs.items():
                self.obs.append(f'link h{k} parent={self.name_m(h.parent)} key={show_key(h.key)}')
            for k in self.mdecl:
                m = self.menv[f'm{k}']
                self.obs.append(f'link m{k} parent={self.name_m(m.parent)} key={show_key(m.key)}')
            # the anonymous maps seen so far (those met just above included), in discovery order
            j = 0
            while j < len(self.anon_objs) and j < 64:
                a = self.anon_objs[j]
                self.obs.append(f'link a{j} parent={self.name_m(a.parent)} key={show_key(a.key)}')
                j += 1
            self.obs.append('end-links')
        elif kind == 'snap':
            m = self.menv.get(t[2])
            if m is None:
                self.obs.append('unbound')
                return
            try:
                self.senv[t[1]] = m.get_static_map()
                self.obs.append('sres ok')
            except Exception as e:   # noqa  (RecursionError on cyclic trees included)
                self.obs.append(f'sres raised {self.exc_name(e)}')
        elif kind == 'sdump':
            s = self.senv.get(t[1])
            if s is None:
                self.obs.append('sunbound')
            else:
                self.sdump(4, [], s)
                self.obs.append('end-sdump')
        elif kind in ('getitem', 'get', 'chain'):
            m = self.menv.get(t[1])
            if m is None:
                self.obs.append('unbound')
            elif kind == 'getitem':
                key = key_for(m, t[2])
                self.emit_item('item', lambda: m[key], False)
            elif kind == 'chain':
                self.emit_chain('item', m, comps(t[2]), lambda c, k: c[k],
                                lambda c: isinstance(c, ResourceMap))
            else:
                try:
                    v = m.get(key_for(m, t[2]), SENTINEL)
                except Exception as e:   # noqa
                    self.obs.append(f'got raised {self.exc_name(e)}')
                    return
                if v is SENTINEL:
                    self.obs.append('got default')
                elif isinstance(v, ResourceMap):
                    self.obs.append('got map ' + self.name_m(v))
                elif isinstance(v, Handle):
                    self.obs.append('got handle ' + self.name_h(v))
                else:
                    self.obs.append('got foreign')
        elif kind in ('sgetitem', 'sgetattr', 'sget', 'ssetattr', 'sdelattr'):
            s = self.senv.get(t[1])
            ks = comps(t[2])
            if s is None:
                self.obs.append('sunbound')
            elif any(reserved(k) for k in ks):
                self.obs.append('unmodelled')
            elif kind == 'sgetitem':
                self.emit_chain('sitem', s, ks, lambda c, k: c[k],
                                lambda c: isinstance(c, StaticResourceMap))
            elif kind == 'sgetattr':
                self.emit_chain('sitem', s, ks, getattr,
                                lambda c: isinstance(c, StaticResourceMap))
            elif kind == 'sget':
                cur = s
                try:
                    for n, k in enumerate(ks):
                        cur = cur.get(k)
                        if n < len(ks) - 1 and not isinstance(cur, StaticResourceMap):
                            # a Handle has no get(): the chain ends here
                            raise AttributeError(k)
                except Exception as e:       # noqa
                    self.obs.append(f'sgot raised {self.exc_name(e)}')
                    return
                if isinstance(cur, StaticResourceMap):
                    self.obs.append('sgot smap')
                elif isinstance(cur, Handle):
                    self.obs.append('sgot handle ' + self.name_h(cur))
                else:
                    self.obs.append('sgot foreign')
            else:
                cur = s
                try:
                    for k in ks[:-1]:
                        cur = cur.get(k)
                        if not isinstance(cur, StaticResourceMap):
                            raise AttributeError(k)
                except Exception:        # noqa
                    self.obs.append('sres nav-failed')
                    return
                if kind == 'ssetattr':
                    self.guard(lambda: setattr(cur, ks[-1], 0), 'sres')
                else:
                    self.guard(lambda: delattr(cur, ks[-1]), 'sres')
        else:
            raise ValueError(f'bad op {t}')

    def hooks_for(self, objname):
        """the scripted user code of one object: called by its property setters / its loader"""
        def fire(hook):
            k = self.fired.get((hook, objname), 0)
            self.fired[(hook, objname)] = k + 1
            ops = self.reactions.get((hook, objname, k))
            if ops:
                self.run_silently(ops)
        return fire

    def run_silently(self, ops):
        """a script: operations whose results are dropped and whose exceptions the script catches"""
        from harness.core import Timeout
        saved, self.obs = self.obs, []
        was, self.silent = self.silent, True
        try:
            for t in ops:
                try:
                    if t[0] == 'snap' and len(t) == 2:
                        self.menv[t[1]].get_static_map()
                    else:
                        self.op(t)
                except (Timeout, HarnessError):
                    raise
                except Exception:        # noqa
                    pass
        finally:
            self.obs = saved
            self.silent = was

    def safe_op(self, t):
        """an exception that escapes from desper during an operation is an observation, never a harness
        failure (harness errors proper - a malformed scenario - are raised before desper is entered)"""
        from harness.core import Timeout
        if t[0] not in OPS:
            raise HarnessError(f'bad op {t}')
        try:
            self.op(t)
        except (Timeout, HarnessError):
            raise
        except Exception as e:       # noqa
            self.obs.append(f'op-raised {t[0]} {self.exc_name(e)}')

    def exc_name(self, e):
        """class name of an exception of the implementation; the scripted loader exceptions are recognised
        by identity and all called LoadError (their class is the loader's business)"""
        if any(e is x for x in self.loader_excs):
            return 'LoadError'
        return type(e).__name__

    def read_cached(self, h):
        """the public `cached` property; an exception of the implementation is an observation"""
        try:
            c = h.cached
        except Exception as e:       # noqa
            return f'raised:{self.exc_name(e)}'
        return '1' if c is True else '0' if c is False else 'notbool'

    def guard(self, f, tag='res'):
        try:
            f()
            self.obs.append(f'{tag} ok')
        except Exception as e:       # noqa
            self.obs.append(f'{tag} raised {self.exc_name(e)}')

    def validate(self):
        # every handle an operation names is a declared one (a shrunk scenario that lost a declaration is
        # not a scenario; undeclared maps and snapshots are observed as `unbound`)
        import re
        declared = {ln.split()[1] for ln in self.lines if ln.split()[:1] == ['newhandle']}
        for ln in self.lines:
            t = ln.split()
            if t[:1] in (['op'], ['react']) and \
                    any(re.fullmatch(r'h\d+', x) and x not in declared for x in t[1:]):
                raise ValueError(f'undeclared handle in {ln!r}')

    def go(self):
        self.validate()
        for ln in self.lines:
            t = ln.split()
            if not t:
                continue
            if t[0] == 'newmap':
                k = int(t[1][1:])
                assert t[1] not in self.menv
                m = make_map(parse_opts(t[2:]), self.hooks_for(t[1]))
                self.menv[t[1]] = m
                self.mdecl.append(k)
                self.names[id(m)] = t[1]
                self.keep.append(m)
            elif t[0] == 'newhandle':
                k = int(t[1][1:])
                assert k not in self.hs
                self.hs[k] = make_handle(t[2], parse_fails(t[3:]), self.loader_excs, parse_opts(t[3:]),
                                         self.hooks_for(t[1]))
            elif t[0] == 'react':
                pass
            elif t[0] == 'op':
                self.safe_op(t[1:])
            else:
                raise ValueError(f'bad scenario line {ln!r}')
        return self.obs, []


def run_impl(lines):
    return Run(lines).go()
