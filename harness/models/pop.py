"""Implementation side of the `pop` model: runs the real DirectoryResourcePopulator on real directory
trees created under tempfile.mkdtemp() (removed in a `finally`).

Scenario lines (in addition to every line of the `tree` model, see harness/models/tree.py):

    fs dir :<path> | fs file :<path> | fs rm :<path>   the tree below the temporary root; `fs` lines BETWEEN the
                                              populations change it (new files / directories, removed subtrees)
    pop p<k> nest=<0|1> trim=<0|1> [root=<spelling>]     p<k> = DirectoryResourcePopulator(root, nest, trim)
        spellings of the one temporary root T: abs (T), abs_s (T/), abs_dot (T/.), rel (basename, cwd = parent),
        rel_s (basename/), dot_rel (./basename), rel_dot (basename/.), empty ('' with cwd = T), dot ('.'),
        dot_s ('./'); the Lean model works on the listing, so the spelling is normalised away there
    rule p<k> :<dir as written> fac=<n> exts=<.a,.b|-> args=<tok> [cont=<type>]   p<k>.add_rule(dir, F<n>, *args,
                  file_exts=<container>(...), **kwargs); container types: list tuple set frozenset dictkeys dict
                  gen (generator) iter (iterator) map (map object) reversed
    op populate p<k> m<j> nest=<0|1|N> trim=<0|1|N> root=<0|1|spelling>   p<k>(m<j>, [root,] nest_on_conflict=..,
                                              trim_extensions=..)   N: not given (falls back)
    op splitext :<name>                       os.path.splitext(name)

Observations:  made h<100000+j> fac=<n> path=:<file path relative to the temp root> args=<tok>   (one
per handle the rule's factory built, in creation order), `res ok|raised <Exception>`, and the tree
model's dump (keys, kinds, objects, .parent/.key, every layer of handles).

Hints = observations `glob <call> <rule> missing|notdir|dir <d:path;f:path;...>`: what the real
os.path.exists/isdir and glob.iglob answered, made relative to the root.  The model validates them
against the declared tree (ListingOk) before following them; run_impl also checks here that the real
glob output satisfies ListingOk (first = the rule directory, parents first, nothing twice, exactly
the declared subtree).
"""
import glob
import os
import os.path as pt
import shutil
import tempfile

import desper
from desper.model import DirectoryResourcePopulator
from desper.model.tree import Handle

from harness.models import tree as tree_model
from harness.models.tree import comps


class Uncopyable:
    """an argument object that refuses to be copied (a connection, a device, ...)"""

    def __deepcopy__(self, memo):
        raise TypeError('cannot be copied')

    def __copy__(self):
        raise TypeError('cannot be copied')

    def __reduce_ex__(self, protocol):
        raise TypeError('cannot be pickled')


def make_arg_object(tok):
    """L<n> a list, D<n> a dict, U<n> an object that cannot be copied, G<n> a generator, K<n> a lock"""
    import threading
    return {'L': lambda: [tok], 'D': lambda: {tok: 1}, 'U': Uncopyable,
            'G': lambda: (x for x in (1, 2)), 'K': threading.Lock}[tok[0]]()


def is_object_tok(t):
    return len(t) >= 2 and t[0] in 'LDUGK' and t[1:].isdigit()


def dec_args(tok, registry=None):
    """`a.b|k=v.j=w` -> (('a','b'), {'k':'v','j':'w'}) ; `-` = nothing.  Tokens L0, D1, U2, G3, K4 stand for
    OBJECTS (one per token and scenario, kept in `registry`): the factory must receive those very objects"""
    if tok == '-':
        return (), {}

    def val(t):
        if registry is not None and is_object_tok(t):
            if t not in registry:
                registry[t] = make_arg_object(t)
            return registry[t]
        return t
    pos, _, kw = tok.partition('|')
    args = tuple(val(t) for t in pos.split('.') if t)
    kwargs = {k: val(v) for k, v in (t.split('=', 1) for t in kw.split('.') if t)}
    return args, kwargs


def enc_args(args, kwargs, registry=None):
    def name(a):
        for t, o in (registry or {}).items():
            if o is a:
                return t
        for t, o in (registry or {}).items():
            if type(o) is type(a) and t[0] in 'LD' and o == a:
                return 'copyof:' + t         # equal, but not the object the rule was given
        return str(a) if isinstance(a, str) else 'foreign:' + type(a).__name__
    pos = '.'.join(name(a) for a in args)
    if kwargs:
        return pos + '|' + '.'.join(f'{k}={name(v)}' for k, v in kwargs.items())
    return pos or '-'


CONTAINERS = {
    'list': list, 'tuple': tuple, 'set': set, 'frozenset': frozenset,
    'dictkeys': lambda x: dict.fromkeys(x).keys(), 'dict': lambda x: dict.fromkeys(x, 1),
    'gen': lambda x: (e for e in x), 'iter': lambda x: iter(list(x)), 'map': lambda x: map(str, x),
    'reversed': lambda x: reversed(list(reversed(x))),
}


def container(kind, items):
    """the documented type of file_exts is Iterable[str]: any of these is a legitimate argument"""
    return CONTAINERS[kind](list(items))


def norm(path):
    return [c for c in path.split('/') if c not in ('', '.')]


class ListingError(tree_model.HarnessError):
    pass


def check_listing(rule_dir, entries, dirs, files):
    """ListingOk on the real glob output (entries: list of (components, isdir))."""
    if not entries or entries[0] != (rule_dir, True):
        raise ListingError(f'first glob result is not the rule directory: {entries[:1]}')
    seen_dirs = [rule_dir]
    seen = [rule_dir]
    for cs, isdir in entries[1:]:
        if not cs or cs[:-1] not in seen_dirs:
            raise ListingError(f'{cs} listed before its parent directory')
        if cs in seen:
            raise ListingError(f'{cs} listed twice')
        if cs[-1].startswith('.'):
            raise ListingError(f'hidden name listed: {cs}')
        seen.append(cs)
        if isdir:
            seen_dirs.append(cs)
    want = sorted([(d, True) for d in dirs if d[:len(rule_dir)] == rule_dir] +
                  [(f, False) for f in files if f[:len(rule_dir)] == rule_dir])
    if sorted(entries) != want:
        raise ListingError(f'glob output is not the declared subtree: {sorted(entries)} vs {want}')


class Run(tree_model.Run):
    def __init__(self, lines):
        super().__init__(lines)
        self.root = None
        self.dirs, self.files = [[]], []
        self.pops = {}
        self.made = 0
        self.calls = 0
        self.hints = []
        self.arg_objects = {}    # token -> the object handed to add_rule
        self.cur = None          # (call, populator) while a population runs

    # ---- the factories handed to add_rule
    def factory(self, fac):
        run = self

        class Made(Handle):
            def __init__(self, filename, *args, **kwargs):
                k = 100000 + run.made
                run.made += 1
                run.hs[k] = self
                self.loaded = []
                self.tries = 0
                rel = pt.relpath(pt.abspath(filename), run.root)
                run.obs.append(f'made h{k} fac={fac} path=:{rel} args={enc_args(args, kwargs, run.arg_objects)}')

            def load(self):
                self.tries += 1
                v = object()
                self.loaded.append(v)
                return v
        return Made

    def spelled(self, spell):
        """(root string, working directory) for one spelling of the temporary root"""
        T = self.root
        parent, base = pt.dirname(T), pt.basename(T)
        table = {
            'abs': (T, parent), 'abs_s': (T + '/', parent), 'abs_dot': (T + '/.', parent),
            'rel': (base, parent), 'rel_s': (base + '/', parent), 'dot_rel': ('./' + base, parent),
            'rel_dot': (base + '/.', parent), 'empty': ('', T), 'dot': ('.', T), 'dot_s': ('./', T),
        }
        if spell not in table:
            raise tree_model.HarnessError(f'unknown root spelling {spell!r}')
        return table[spell]

    def observe_fs(self, call, p):
        """what os.path / glob say for every rule of populator p, as hint lines"""
        for k, (rule_dir_written, _) in enumerate(p['rules']):
            full = pt.join(self.root, rule_dir_written)
            if not pt.exists(full):
                h = f'glob {call} {k} missing'
            elif not pt.isdir(full):
                h = f'glob {call} {k} notdir'
            else:
                entries = []
                for f in glob.iglob(pt.join(full, '**'), recursive=True):
                    cs = norm(pt.relpath(f, self.root))
                    entries.append((cs, pt.isdir(f)))
                check_listing(norm(rule_dir_written), entries, self.dirs, self.files)
                h = f'glob {call} {k} dir ' + ';'.join(
                    ('d:' if d else 'f:') + '/'.join(cs) for cs, d in entries)
            self.hints.append(h)
            self.obs.append(h)

    def op(self, t):
        if t[0] == 'splitext':
            a, b = pt.splitext(t[1][1:])
            self.obs.append(f'splitext :{a} :{b}')
        elif t[0] == 'populate':
            p = self.pops[t[1]]
            m = self.menv.get(t[2])
            if m is None:
                self.obs.append('unbound')
                return
            flags = dict(x.split('=') for x in t[3:])
            kw = {}
            if flags['nest'] != 'N':
                kw['nest_on_conflict'] = bool(int(flags['nest']))
            if flags['trim'] != 'N':
                kw['trim_extensions'] = bool(int(flags['trim']))
            spell = p['spell']
            if flags['root'] != '0':
                spell = 'abs' if flags['root'] == '1' else flags['root']
                kw['root'] = self.spelled(spell)[0]
            call = self.calls
            self.calls += 1
            self.observe_fs(call, p)
            # relative spellings are relative to the working directory at the time of the call
            old_cwd = os.getcwd()
            os.chdir(self.spelled(spell)[1])
            try:
                self.guard(lambda: p['obj'](m, **kw))
            finally:
                os.chdir(old_cwd)
        else:
            super().op(t)

    def go(self):
        self.root = tempfile.mkdtemp(prefix='desper-verif-')
        try:
            for ln in self.lines:
                t = ln.split()
                if not t or t[0] in ('glob', 'react'):
                    continue
                if t[0] == 'fs':
                    cs = norm(t[2][1:])
                    full = pt.join(self.root, *cs)
                    if t[1] == 'rm':
                        # the tree changes between populations: a file or a whole subtree disappears
                        if pt.isdir(full):
                            shutil.rmtree(full)
                        elif pt.exists(full):
                            os.remove(full)
                        self.dirs = [d for d in self.dirs if d[:len(cs)] != cs]
                        self.files = [f for f in self.files if f[:len(cs)] != cs]
                    elif t[1] == 'dir':
                        os.makedirs(full, exist_ok=True)
                        self.dirs.append(cs)
                    else:
                        with open(full, 'w'):
                            pass
                        self.files.append(cs)
                elif t[0] == 'pop':
                    d = dict(x.split('=') for x in t[2:])
                    spell = d.get('root', 'abs')
                    self.pops[t[1]] = {'obj': DirectoryResourcePopulator(
                        self.spelled(spell)[0], nest_on_conflict=bool(int(d['nest'])),
                        trim_extensions=bool(int(d['trim']))), 'rules': [], 'spell': spell}
                elif t[0] == 'rule':
                    d = dict(x.split('=', 1) for x in t[3:])
                    args, kwargs = dec_args(d['args'], self.arg_objects)
                    exts = [] if d['exts'] == '-' else d['exts'].split(',')
                    p = self.pops[t[1]]
                    try:
                        p['obj'].add_rule(t[2][1:], self.factory(int(d['fac'])), *args,
                                          file_exts=container(d.get('cont', 'list'), exts), **kwargs)
                    except Exception as e:       # noqa  (add_rule has no reason to fail: an observation)
                        self.obs.append(f'rule-raised {t[1]} {len(p["rules"])} {self.exc_name(e)}')
                    p['rules'].append((t[2][1:], exts))
                elif t[0] == 'newmap':
                    k = int(t[1][1:])
                    m = tree_model.make_map(tree_model.parse_opts(t[2:]))
                    self.menv[t[1]] = m
                    self.mdecl.append(k)
                    self.names[id(m)] = t[1]
                    self.keep.append(m)
                elif t[0] == 'newhandle':
                    self.hs[int(t[1][1:])] = tree_model.make_handle(t[2], tree_model.parse_fails(t[3:]),
                                                                     self.loader_excs, tree_model.parse_opts(t[3:]))
                elif t[0] == 'op':
                    self.safe_op(t[1:])
                else:
                    raise ValueError(f'bad scenario line {ln!r}')
        finally:
            shutil.rmtree(self.root, ignore_errors=True)
        return self.obs, self.hints


def run_impl(lines):
    return Run(lines).go()
