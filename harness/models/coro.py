"""Implementation side of the `coro` model: runs the real CoroutineProcessor on a scenario.

Scenario lines (lean/DesperModel/Coro.lean reads the same text):

    gen <g> : <step> | <step> ...          script of generator object g (ids 0,1,2.. in order)
        <step> = [<act> ; ...] yield <w>   |   [<act> ; ...] ret <v>   |   [<act> ; ...] raise <Exc>
                 (<Exc>: Quit / SwitchWorld are desper's own, anything else a builtin exception; the
                 exception leaves the body, hence process(); the harness catches it and goes on)
        <act>  = start <h> | kill <h> | state <h>        (exceptions are caught by the body)
        <w>, <v> = N (None) or an integer; waits and dt are in units of 1/8 s
    op start|kill|state|value <g>      (an id that names no script is a non-generator object)
    op process <dt>

Observations:
    step <g> <i>                       the body of step i of g starts executing
    act <g> <i> <act> <h> ok|raised <Name>|A|P|T
    res ok | res raised <Name> | res A|P|T | res value <v,..>   result of a top-level op
    states <A|P|T,..>                  processor.state of every generator, after every top-level op
    pstates <A|P|T,..>                 the same through the current promise (must agree; oracle only)
    retained <g,..>                    generators still alive after the program dropped every
                                       reference of its own and gc.collect() ran (end of scenario)
Several instances: a line that starts with `@k` belongs to instance k (default 0): its own
CoroutineProcessor, generators and operations; operations are executed in file order, so the
instances live side by side and are driven interleaved; the observations of instance k > 0 come back
marked `@k`.  Per-instance properties imply non-interference: nothing an instance does may show in
another one's observations.

World mode (a `world` line in the instance): the processor sits in a desper.World and is reached
through it - `op process` is world.process(dt), `op dstart g` / `op dstart0 g` start g through the
@desper.coroutine decorator (world= argument / default-loop form), `op replace` does
world.add_processor(CoroutineProcessor()), `op remove` world.remove_processor(CoroutineProcessor);
start / kill / state address the world's current CoroutineProcessor.

Numbers may carry a type letter (F Fraction, I int, B bool; none: float): see `Num`.

Hints (for the model): one `hint <g,..>` line per process op: the generators in the order their
bodies ran in that call (tie-break among equal deadlines in the wake-up heap).
"""
import gc
import weakref

from desper.logic.coroutines import CoroutineProcessor, CoroutineState

LETTER = {CoroutineState.TERMINATED: 'T', CoroutineState.PAUSED: 'P', CoroutineState.ACTIVE: 'A'}


class Num(int):
    """a number of the scenario text (units of 1/8 s) that remembers how it was written: a leading
    letter names the Python type the implementation is to be given - F fractions.Fraction, I int,
    B bool, none: float.  The oracle and the model only use the value."""
    tok = ''


def dec(t):
    if t == 'N':
        return None
    n = Num(int(t[1:]) if t[0] in 'FIB' else int(t))
    n.tok = t
    return n


UNIT = 8        # scenario numbers are multiples of 1/UNIT s; a `unit <n>` line makes that 2**-n s


def to_py(n):
    """the Python number for a scenario number: the same value k/UNIT in the requested type (exact)"""
    kind = getattr(n, 'tok', '')[:1]
    k = int(n)
    if kind == 'F':
        import fractions
        return fractions.Fraction(k, UNIT)
    if kind == 'I':
        assert k % UNIT == 0, n
        return k // UNIT
    if kind == 'B':
        assert k in (0, UNIT), n
        return k == UNIT
    assert abs(k) < 2 ** 53
    return k / float(UNIT)


def enc(v):
    return 'N' if v is None else str(v)


def split_tok(sep, toks):
    out, cur = [], []
    for t in toks:
        if t == sep:
            out.append(cur)
            cur = []
        else:
            cur.append(t)
    out.append(cur)
    return [x for x in out if x]


def parse_step(toks):
    parts = split_tok(';', toks)
    acts, last = parts[:-1], parts[-1]
    for a in acts:
        if len(a) != 2 or a[0] not in ('start', 'kill', 'state'):
            raise ValueError(f'bad action {a}')
    if len(last) != 2 or last[0] not in ('yield', 'ret', 'raise'):
        raise ValueError(f'bad step end {last}')
    if last[0] == 'raise':
        return [(a[0], int(a[1])) for a in acts], ('raise', last[1])
    return [(a[0], int(a[1])) for a in acts], (last[0], dec(last[1]))


def parse(lines):
    scripts, ops = [], []
    for ln in lines:
        if ln.split() == ['world'] or ln.split()[:1] == ['unit']:
            continue
        t = ln.split()
        if not t:
            continue
        if t[0] == 'gen':
            assert t[2] == ':' and int(t[1]) == len(scripts), ln
            scripts.append([parse_step(s) for s in split_tok('|', t[3:])])
        elif t[0] == 'op':
            ops.append(t[1:])
        elif t[0] == 'hint':
            pass
        else:
            raise ValueError(f'bad scenario line {ln!r}')
    return scripts, ops


def make_exception(name):
    """what quit_loop() / switch() / a plain bug inside a coroutine raise"""
    import builtins
    import desper
    if name == 'Quit':
        return desper.Quit()
    if name == 'SwitchWorld':
        return desper.SwitchWorld(None)
    return getattr(builtins, name)()


class NotAGenerator:
    """What the scenario passes where a generator object is expected."""


class Run:
    def __init__(self, lines):
        self.scripts, self.ops = parse(lines)
        self.obs = []
        self.world = None
        if any(ln.split() == ['world'] for ln in lines):
            import desper
            self.world = desper.World()
            self.world.add_processor(CoroutineProcessor())
            self._proc = None
        else:
            self._proc = CoroutineProcessor()
        self.gens = {g: self.body(g, sc) for g, sc in enumerate(self.scripts)}
        self.promises = {g: [] for g in self.gens}
        self.frame_steps = None
        self.frames = []
        self.wake_orders = []

    def peek_wake_order(self, dt_tok):
        """For the model's tie-break only (never an observation): the order in which heapq will hand
        out the records that are due in this call.  Among equal deadlines Python leaves it to the
        heap's history, and it matters even for a generator that never runs (one that is killed
        before its turn and restarted by a later body is dropped or kept depending on its place), so
        the execution log alone cannot tell.  Read-only look at the private heap; any failure
        (another representation) simply gives no information."""
        import heapq
        try:
            proc = self.proc
            heap = list(proc._wait_queue)
            if not heap:
                return []
            now = proc._timer + to_py(dec(dt_tok))
            ids = {id(o): g for g, o in self.gens.items()}
            out = []
            while heap and now >= heap[0].wait_time:
                gen = heapq.heappop(heap).generator
                if gen is not None and id(gen) in ids:
                    out.append(ids[id(gen)])
            return out
        except Exception:             # noqa
            return []

    @property
    def proc(self):
        """the processor the program talks to: in world mode the world's current one"""
        if self.world is not None:
            return self.world.get_processor(CoroutineProcessor)
        return self._proc

    def obj(self, h):
        return self.gens[h] if h in self.gens else NotAGenerator()

    def body(self, g, script):
        """A real generator object interpreting the script."""
        for i, (acts, (kind, val)) in enumerate(script):
            self.obs.append(f'step {g} {i}')
            if self.frame_steps is not None:
                self.frame_steps.append(g)
            for a, h in acts:
                self.obs.append(f'act {g} {i} {a} {h} {self.action(a, h)}')
            if kind == 'yield':
                yield None if val is None else to_py(val)
            elif kind == 'raise':
                raise make_exception(val)
            else:
                return val

    def decorated_start(self, h, explicit):
        """start generator h through @desper.coroutine: the decorated function hands out the
        generator object of the scenario"""
        import desper
        obj = self.obj(h)
        if explicit:
            def spawn(world=None):
                return obj
            return desper.coroutine(spawn)(world=self.world)

        def spawn0():
            return obj
        world = self.world

        class Here(desper.Handle):
            def load(self):
                return world
        old = desper.default_loop
        desper.default_loop = desper.SimpleLoop()
        try:
            desper.default_loop.switch(Here())
            return desper.coroutine(spawn0)()
        finally:
            desper.default_loop = old

    def action(self, a, h):
        try:
            if a == 'start':
                self.promises.setdefault(h, []).append(self.proc.start(self.obj(h)))
                return 'ok'
            if a in ('dstart', 'dstart0'):
                self.promises.setdefault(h, []).append(self.decorated_start(h, a == 'dstart'))
                return 'ok'
            if a == 'kill':
                # every other kill of a generator that has a promise of the current processor goes through
                # that promise (documented as the same call; the model knows one kind of kill)
                ps = [p for p in self.promises.get(h, []) if p.processor is self.proc]
                self.kills = getattr(self, 'kills', 0) + 1
                if ps and self.kills % 2 == 0:
                    ps[-1].kill()
                else:
                    self.proc.kill(self.obj(h))
                return 'ok'
            if a == 'state':
                return LETTER[self.proc.state(self.obj(h))]
            raise ValueError(a)
        except Exception as e:        # noqa
            from harness.core import Timeout
            if isinstance(e, Timeout):
                raise
            return 'raised ' + type(e).__name__

    def top(self, t):
        kind = t[0]
        if kind == 'process':
            self.frame_steps = []
            self.wake_orders.append(self.peek_wake_order(t[1]))
            try:
                dt = to_py(dec(t[1]))
                if self.world is not None:
                    self.world.process(dt)
                else:
                    self.proc.process(dt)
                out = 'ok'
            except Exception as e:    # noqa
                from harness.core import Timeout
                if isinstance(e, Timeout):
                    raise
                out = 'raised ' + type(e).__name__
            self.frames.append(self.frame_steps)
            self.frame_steps = None
        elif kind == 'value':
            ps = self.promises.get(int(t[1]), [])
            out = 'value ' + (','.join(enc(p.value) for p in ps) or '-')
        elif kind == 'replace':
            self.world.add_processor(CoroutineProcessor())
            out = 'ok'
        elif kind == 'remove':
            self.world.remove_processor(CoroutineProcessor)
            out = 'ok'
        else:
            out = self.action(kind, int(t[1]))
        self.obs.append('res ' + out)
        self.obs.append('states ' + (','.join(self.state_of(g) for g in self.gens) or '-'))
        self.obs.append('pstates ' + (','.join(self.pstate_of(g) for g in self.gens) or '-'))

    def state_of(self, g):
        proc = self.proc
        if proc is None:
            return 'T'                  # the world has no coroutine processor: nothing is running
        try:
            return LETTER[proc.state(self.gens[g])]
        except Exception as e:        # noqa
            return type(e).__name__

    def pstate_of(self, g):
        """state through the promise handed out last by the current processor (the generator's own
        state if there is none)"""
        ps = self.promises.get(g)
        if not ps or ps[-1].processor is not self.proc:
            return self.state_of(g)
        try:
            return LETTER[ps[-1].state]
        except Exception as e:        # noqa
            return type(e).__name__

    def finish(self):
        # runtime part of C09: what does the processor still hold on to?
        refs = {g: weakref.ref(o) for g, o in self.gens.items()}
        self.gens.clear()
        self.promises.clear()
        gc.collect()
        alive = [str(g) for g, r in refs.items() if r() is not None]
        self.obs.append('retained ' + (','.join(alive) or '-'))
        # a generator woken in one call may get its first turn in a later one: the tie-break of a
        # call also lists the bodies of the two calls after it
        hints = []
        for k in range(len(self.frames)):
            seq = self.wake_orders[k] + [g for f in self.frames[k:k + 3] for g in f]
            hints.append('hint ' + (','.join(map(str, seq)) or '-'))
        return self.obs, hints


def split_instances(lines):
    """[(k, line without its @k mark)] in file order"""
    out = []
    for ln in lines:
        t = ln.split()
        if t and t[0].startswith('@') and t[0][1:].isdigit():
            out.append((int(t[0][1:]), ' '.join(t[1:])))
        else:
            out.append((0, ln))
    return out


def mark(k, lines):
    return lines if k == 0 else [f'@{k} {ln}' for ln in lines]


def run_impl(lines):
    # objects that exist already are of no interest to the final gc.collect(): keep them out of it
    # (otherwise its cost grows with everything the check has accumulated so far)
    global UNIT
    units = [int(ln.split()[1]) for ln in lines if ln.split()[:1] == ['unit']]
    lines = [ln for ln in lines if ln.split()[:1] != ['unit']]
    UNIT = 2 ** units[0] if units else 8
    gc.freeze()
    try:
        marked = split_instances(lines)
        ids = [0] + sorted({k for k, _ in marked} - {0})
        runs = {k: Run([ln for j, ln in marked if j == k]) for k in ids}     # all alive side by side
        for k, ln in marked:
            t = ln.split()
            if t and t[0] == 'op':
                runs[k].top(t[1:])
        obs, hints = [], []
        for k in ids:
            o, h = runs[k].finish()
            obs += mark(k, o)
            hints += mark(k, h)
        return obs, hints
    finally:
        UNIT = 8
        gc.unfreeze()
