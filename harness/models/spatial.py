"""Implementation side of the `spatial` model: real Transform2D / Transform3D objects.

    transform 2|3 <position tok|-> <rotation tok|-> <scale tok|->      (constructor call)
    top <i> set position|rotation|scale <tok> | top <i> read <field> | top <i> <dispatcher op>

Tokens: vectors `p<a>_<b>[_<c>]` (Vec2/Vec3 of ints), 2D rotations: integers in units of 1/2 degree.
Observations are prefixed with `t<i> `: cb lines (argument re-encoded from the object the callback
received), `val <tok>` for reads, `res ...`.
"""
from harness.models import disp as D
import desper
import desper.math as dmath


def dec(tok, dim):
    # vectors: `p…` a Vec2/Vec3, `t…` a plain tuple, `l…` a list (the setters document "a vector or a tuple")
    if tok[0] in 'ptl':
        xs = [int(x) for x in tok[1:].split('_')]
        if tok[0] == 't':
            return tuple(xs)
        if tok[0] == 'l':
            return list(xs)
        return {2: dmath.Vec2, 3: dmath.Vec3}[len(xs)](*xs)
    return int(tok) / 2.0


def enc(v):
    if isinstance(v, (tuple, list)):
        kind = 'l' if isinstance(v, list) else 'p' if isinstance(v, (dmath.Vec2, dmath.Vec3, dmath.Vec4)) else 't'
        return kind + '_'.join(str(int(x)) if float(x).is_integer() else repr(x) for x in v)
    if isinstance(v, (int, float)):
        d = v * 2
        return str(int(d)) if float(d).is_integer() else 'f' + repr(v)
    return 'obj' + type(v).__name__


class Run(D.Run):
    def __init__(self, lines):
        self.body = []
        super().__init__(lines, make_dispatcher=lambda: None)
        self.ts = []
        self.cur = None

    def parse_extra(self, t):
        if t[0] in ('transform', 'top'):
            self.body.append(t)
            return True
        return False

    def enc(self, args, kwargs):
        if len(args) == 1 and not kwargs and self.cur is not None and self.setting is not None:
            # identity: the listener must get the very object a read of the property returns
            # (a postponed notification released during this assignment carries an older value: its
            # token differs from the stored one and is judged by the oracle; the marker is for an equal
            # COPY handed to the listener instead of the stored object)
            cur = getattr(self.ts[self.cur], self.setting)
            same = args[0] is cur or not isinstance(args[0], (tuple, list)) or enc(args[0]) != enc(cur)
            return enc(args[0]) + ('' if same else '!not-the-stored-value')
        if len(args) == 1 and not kwargs and isinstance(args[0], (tuple, list, float)):
            return enc(args[0])
        return D.enc_args(args, kwargs)

    def go(self):
        self.build()
        self.setting = None
        for t in self.body:
            if t[0] == 'transform':
                dim = int(t[1])
                cls = desper.Transform2D if dim == 2 else desper.Transform3D
                kw = {}
                for name, tok in zip(('position', 'rotation', 'scale'), t[2:5]):
                    if tok != '-':
                        v = dec(tok, dim)
                        kw[name] = v
                try:
                    self.ts.append(cls(**kw))
                except Exception as e:        # noqa
                    self.ts.append(cls())
                    self.obs.append('res raised ' + D.exc_name(e))
                continue
            i = int(t[1])
            self.cur, self.prefix, self.disp = i, f't{i} ', self.ts[i]
            rest = t[2:]
            if rest[0] == 'read':
                self.obs.append(f't{i} val {enc(getattr(self.ts[i], rest[1]))}')
            elif rest[0] == 'set':
                self.setting = rest[1]
                try:
                    setattr(self.ts[i], rest[1], dec(rest[2], 0))
                    out = 'ok'
                except Exception as e:        # noqa
                    out = 'raised ' + D.exc_name(e)
                self.setting = None
                self.obs.append(f't{i} res {out}')
            else:
                n = len(self.obs)
                self.top(rest)
                self.obs[n:] = [o if o.startswith('t') else f't{i} {o}' for o in self.obs[n:]]
        recv = [o.split()[2] for o in self.obs if o.split()[1:2] == ['cb'] and o.split()[2] != 'None']
        return self.obs, ([f'hint {",".join(recv)}'] if recv else [])


def run_impl(lines):
    return Run(lines).go()
