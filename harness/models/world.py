"""Implementation side of the `world` model: runs the real desper.World on a scenario.

    class <cid> kind=c|ctrl|p|upd bases=<..|-> names=<..|-> kw=<ev:meth,..|-> prio=<int>
    obj <oid> class=<cid>
    raise <oid> <method> <k> <Name>          the k-th call of that method raises
    ents <e,e,..>                            entity codes observed by `op snap` (code<1000: int, else str)
    op create <code|auto> <oid,..|->  | op add <e> <oid> | op remove <e> <cid> | op delete <e> 0|1
    op process <dt> | op clear | op addproc <oid> <prio|-> | op rmproc <cid> | op enable 0|1
    op dispatch <ev> <argtoken> | op snap

Observations: cb <oid> <method> e<entity>|_|<argtoken>|<dt> ; res ok|raised <Name> ; ret <value>;
snapshot lines (get/row/exists/has/entities/procs/gp/pw/ish/ctl/enabled).
"""
import gc
import weakref

import desper
from desper.events import event_handler
from harness.models.disp import Scripted, exc_name, dec_args, enc_args, split_list


_DEAD_ATTR = {}


def dead_container(w):
    """The container in which the world keeps the entities awaiting deletion, found by behaviour
    (which attribute gains a probe id on `delete_entity`), not by name: its iteration order is the
    order of the sweep, which the model needs as a hint.  None when it cannot be identified."""
    cls = type(w)
    if cls not in _DEAD_ATTR:
        name = None
        try:
            probe = desper.World()
            marker = ('__probe__', 7)
            before = {k: repr(v) for k, v in vars(probe).items()}
            probe.delete_entity(marker)
            for k, v in vars(probe).items():
                if before.get(k) != repr(v):
                    try:
                        if marker in v:
                            name = k
                            break
                    except TypeError:
                        pass
        except Exception:       # noqa
            name = None
        _DEAD_ATTR[cls] = name
    name = _DEAD_ATTR[cls]
    return None if name is None else getattr(w, name, None)


def ent_py(code):
    return code if code < 1000 else f's{code}'


def ent_code(e):
    if isinstance(e, str) and e.startswith('s'):
        return int(e[1:])
    return int(e)


DEFAULT = object()      # a caller's own default for get_component


class Run:
    def __init__(self, lines):
        self.obs = []
        self.decls = []
        self.objdecl = []
        self.raises = {}
        self.reacts = {}
        self.react_ops = {}
        self.traits = {}
        self.decoy_seed = None
        self.gone = {}          # forgotten objects: oid -> weak reference
        self.ops = []
        self.ents = []
        self.calls = {}
        self.hints = []
        self.deferred = []
        self.direct = False
        meths = {'process'}
        for ln in lines:
            t = ln.split()
            if not t:
                continue
            if t[0] == 'class':
                d = dict(x.split('=', 1) for x in t[2:])
                names = split_list(d['names'])
                kw = dict(p.split(':') for p in split_list(d['kw']))
                self.decls.append((int(t[1]), d['kind'], [int(b) for b in split_list(d['bases'])],
                                   names, kw, int(d['prio'])))
                meths.update(names)
                meths.update(kw.values())
            elif t[0] == 'obj':
                d = dict(x.split('=', 1) for x in t[2:])
                self.objdecl.append((int(t[1]), int(d['class'])))
            elif t[0] == 'raise':
                self.raises[(int(t[1]), t[2], int(t[3]))] = t[4]
            elif t[0] == 'trait':
                # trait <class> eq|unhash|falsy ...: Python-level traits of the instances of a class
                self.traits[int(t[1])] = set(t[2:])
            elif t[0] == 'decoy':
                self.decoy_seed = int(t[1])
            elif t[0] == 'react' and t[4] == 'do':
                # react <obj> <method> <k> do <op> ; <op> …: the k-th invocation makes these calls on the world
                from harness.models.disp import parse_ops
                self.react_ops[(int(t[1]), t[2], int(t[3]))] = parse_ops(t[5:])
            elif t[0] == 'react':
                # react <obj> <method> <k> delete <entity>: the k-th invocation calls world.delete_entity
                assert t[4] == 'delete'
                self.reacts[(int(t[1]), t[2], int(t[3]))] = int(t[5])
            elif t[0] == 'ents':
                self.ents = [int(x) for x in split_list(t[1])]
            elif t[0] == 'op':
                self.ops.append(t[1:])
            elif t[0] == 'hint':
                pass
            elif t[0] == 'mode':
                self.direct = t[1] == 'direct'
            else:
                raise ValueError(f'bad scenario line {ln!r}')
        self.meths = meths
        declared = {o for o, _ in self.objdecl}
        classes = {d[0] for d in self.decls}
        if any(c not in classes for _, c in self.objdecl) or \
                any(b not in classes for d in self.decls for b in d[2]):
            raise ValueError('object or class of an undeclared class')
        for ops in list(self.react_ops.values()) + [self.ops]:
            for t in ops:
                refs, crefs = [], []
                if t[0] == 'add':
                    refs = t[2:3]
                elif t[0] == 'create' and len(t) > 2:
                    refs = split_list(t[2])
                elif t[0] in ('addproc', 'forget'):
                    refs = t[1:2]
                elif t[0] == 'remove':
                    crefs = t[2:3]
                elif t[0] == 'rmproc':
                    crefs = t[1:2]
                elif t[0] == 'via':
                    refs = t[1:2] + (t[3:4] if t[2] in ('add', 'cset', 'pset') else [])
                    crefs = t[3:4] if t[2] not in ('add', 'cset', 'pset') else []
                if any(x.isdigit() and int(x) not in declared for x in refs) or \
                        any(x.isdigit() and int(x) not in classes for x in crefs):
                    raise ValueError(f'operation refers to an undeclared object or class: {t}')

    # ---------------------------------------------------------------- classes and objects
    def build(self):
        run = self

        def make(mname):
            def method(self, *args, **kwargs):
                run.on_call(self, mname, args, kwargs)
            method.__name__ = mname
            return method

        ns = {m: make(m) for m in self.meths if m not in ('process',)}
        self.Logged = type('Logged', (), dict(ns))

        def ctrl_on_add(self, entity, world):
            # a subclass overriding on_add makes the super call first (Controller's docstring), then
            # does its own work (which the scenario may script to raise)
            desper.Controller.on_add(self, entity, world)
            run.on_call(self, 'on_add', (entity, world), {})
        ctrl_ns = dict(ns)
        ctrl_ns['on_add'] = ctrl_on_add
        self.CtrlRoot = type('CtrlRoot', (desper.Controller,), ctrl_ns)

        def proc_process(self, dt=1):
            run.on_call(self, 'process', (dt,), {})
        # every processor class of the scenario also derives from a plain mixin (no Processor): a query by
        # it finds them through the same subclass walk
        self.ProcMixin = type('ProcMixin', (), {})
        self.ProcRoot = type('ProcRoot', (self.ProcMixin, desper.Processor), dict(ns, process=proc_process))

        def upd_process(self, dt=1):
            run.on_call(self, 'process', (dt,), {})
            desper.OnUpdateProcessor.process(self, dt)
        self.UpdRoot = type('UpdRoot', (self.ProcMixin, desper.OnUpdateProcessor), dict(ns, process=upd_process))

        self.classes = []
        self.kinds = []
        for cid, kind, bases, names, kw, prio in self.decls:
            assert cid == len(self.classes)
            root = {'c': self.Logged, 'ctrl': self.CtrlRoot, 'p': self.ProcRoot, 'upd': self.UpdRoot}[kind]
            bs = tuple(self.classes[b] for b in bases)
            if not any(issubclass(b, root) for b in bs):
                bs = (root,) + bs
            ns2 = {'priority': prio} if kind in ('p', 'upd') else {}
            tr = self.traits.get(cid, ())
            if 'eq' in tr or 'unhash' in tr:
                # value objects: all instances of all such classes are equal (and hash alike); the library must
                # tell them apart by identity
                ns2['_eq_group'] = True
                ns2['__eq__'] = lambda a, b: getattr(b, '_eq_group', False)
                ns2['__hash__'] = None if 'unhash' in tr else (lambda a: 7)
            if 'falsy' in tr:
                ns2['__bool__'] = lambda a: False
            plain_record = 'seq' in tr and kind == 'c' and not bases and not names and not kw and \
                not any(cid in d[2] for d in self.decls)
            if plain_record:
                # a component that is itself a sequence (a namedtuple-style record, no handler: tuples cannot
                # be referenced weakly): still ONE component
                bs = (tuple,) + bs
                ns2['__new__'] = lambda c: tuple.__new__(c, (7, 8))
            cls = type(f'K{cid}', bs, ns2)
            if not plain_record:
                cls = event_handler(*names, **kw)(cls)
            self.classes.append(cls)
            self.kinds.append(kind)
        import abc
        self.registered_abc = abc.ABCMeta('Registered', (), {})
        for cls, kind in zip(self.classes, self.kinds):
            if kind in ('c', 'ctrl'):
                self.registered_abc.register(cls)       # every component class: a *virtual* subclass only
        for t, (cls, kind) in enumerate(zip(self.classes, self.kinds)):
            if kind in ('c', 'ctrl'):
                setattr(self.CtrlRoot, f'cref_{t}', desper.ComponentReference(cls))
            else:
                setattr(self.CtrlRoot, f'pref_{t}', desper.ProcessorReference(cls))
        self.objs = {}
        for oid, cid in self.objdecl:
            o = self.classes[cid]()
            o._oid = oid
            self.objs[oid] = o

        self.dobjs = {}
        if self.decoy_seed is not None:
            for oid, cid in self.objdecl:
                o = self.classes[cid]()
                o._oid = oid
                o._decoy = True
                self.dobjs[oid] = o

        class W(desper.World):
            def dispatch(wself, event_name, *args, **kwargs):
                run.obs.append('dbeg')
                if event_name == 'on_single_dispatch':
                    run.obs.append('dnosort')       # one receiver (the world itself): nothing to canonicalise
                try:
                    super().dispatch(event_name, *args, **kwargs)
                finally:
                    run.obs.append('dend')
        self.w = W()
        # a second, independent world of the same class doing other things in the same process
        self.w2 = desper.World() if self.decoy_seed is not None else None

    def decoy_step(self, t):
        """The decoy world runs a perturbed copy of the previous main operation with its own objects, then
        queries itself; whatever it does or raises is its own business."""
        import random
        w, rng = self.w2, random.Random(self.decoy_seed * 7919 + len(self.obs))
        D = self.dobjs
        comp_ids = [o for o, c in self.objdecl if self.kinds[c] in ('c', 'ctrl')]
        proc_ids = [o for o, c in self.objdecl if self.kinds[c] in ('p', 'upd')]

        class Pick(dict):
            # half of the time another object of the same family than the one the main world used
            def __getitem__(_, i):
                pool = comp_ids if i in comp_ids else proc_ids
                return D[rng.choice(pool)] if pool and rng.random() < 0.5 else D[i]
        O = Pick()
        try:
            k = t[0]
            if k == 'create':
                comps = [O[int(x)] for x in split_list(t[2])]
                if t[1] == 'auto':
                    w.create_entity(*comps)
                else:
                    w.create_entity(*comps, entity_id=ent_py(int(t[1])))
            elif k == 'add':
                w.add_component(ent_py(int(t[1])), O[int(t[2])])
            elif k == 'remove':
                w.remove_component(ent_py(int(t[1])), self.classes[int(t[2])])
            elif k == 'delete':
                w.delete_entity(ent_py(int(t[1])), immediate=bool(rng.randint(0, 1)))
            elif k == 'process':
                w.process(int(t[1]) + 1)
            elif k == 'clear' and rng.random() < 0.3:
                w.clear()
            elif k == 'addproc':
                w.add_processor(O[int(t[1])], rng.choice([-4, -2, 0, 1, 3, 5]))
            elif k == 'rmproc' and rng.random() < 0.5:
                w.remove_processor(self.classes[int(t[1])])
            elif k == 'enable':
                w.dispatch_enabled = not bool(int(t[1]))
            elif k == 'dispatch':
                w.dispatch(t[1], 'decoy')
        except Exception:        # noqa
            pass
        try:
            for cls, kind in zip(self.classes, self.kinds):
                if kind in ('c', 'ctrl'):
                    w.get(cls)
                    for e in self.ents:
                        w.get_component(ent_py(e), cls)
                else:
                    w.get_processor(cls)
            list(w.entities), list(w.processors)
        except Exception:        # noqa
            pass

    def on_call(self, recv, mname, args, kwargs):
        if getattr(recv, '_decoy', False):
            return
        oid = recv._oid
        if len(args) == 2 and args[1] is self.w and not kwargs:
            a = f'e{ent_code(args[0])}'
        elif not args and not kwargs:
            a = '_'
        elif mname == 'process' and len(args) == 1:
            a = str(args[0])
        else:
            a = enc_args(args, kwargs)
        self.obs.append(f'cb {oid} {mname} {a}')
        k = self.calls.get((oid, mname), 0)
        self.calls[(oid, mname)] = k + 1
        x = self.reacts.get((oid, mname, k))
        if x is not None:
            self.deferred.append(x)
            self.w.delete_entity(ent_py(x))
        if (oid, mname, k) in self.react_ops:
            self.obs.append('dnosort')      # nested calls: the order of what follows is part of the behaviour
        me = str(ent_code(args[0])) if len(args) == 2 and args[1] is self.w and not kwargs else '0'
        for op in self.react_ops.get((oid, mname, k), ()):
            # a call back into the world from inside the callback; whatever it raises leaves the callback
            # (entity 0 in the script: "the entity this callback was told about")
            if op[0] in ('add', 'remove', 'delete') and op[1] == '0':
                op = [op[0], me] + list(op[2:])
            self.exec_op(op)
        exc = self.raises.get((oid, mname, k))
        if exc:
            raise Scripted(exc)

    # ---------------------------------------------------------------- operations
    def exec_op(self, t):
        w = self.w
        k = t[0]
        if k == 'create':
            comps = [self.objs[int(x)] for x in split_list(t[2])]
            if t[1] == 'auto':
                return str(ent_code(w.create_entity(*comps)))
            return str(ent_code(w.create_entity(*comps, entity_id=ent_py(int(t[1])))))
        if k == 'add':
            w.add_component(ent_py(int(t[1])), self.objs[int(t[2])])
        elif k == 'remove':
            r = w.remove_component(ent_py(int(t[1])), self.classes[int(t[2])])
            return 'None' if r is None else str(r._oid)
        elif k == 'delete':
            if not int(t[2]):
                self.deferred.append(int(t[1]))
            w.delete_entity(ent_py(int(t[1])), immediate=bool(int(t[2])))
        elif k == 'process':
            dead = dead_container(w)
            if dead is not None:
                h = 'hint sweep ' + (','.join(str(ent_code(e)) for e in dead) or '-')
                self.hints.append(h)
                self.obs.append(h)
            else:
                # sweep order unknown: scenarios in which it could matter cannot be compared
                pending = [e for e in self.deferred if not w.entity_exists(ent_py(e))]
                if len(set(pending)) > 1:
                    self.obs.append('SKIP sweep order of several entities awaiting deletion is not observable')
                self.deferred = []
            w.process(int(t[1]))
        elif k == 'clear':
            w.clear()
        elif k == 'addproc':
            if t[2] == '-':
                w.add_processor(self.objs[int(t[1])])
            else:
                w.add_processor(self.objs[int(t[1])], int(t[2]))
        elif k == 'rmproc':
            r = w.remove_processor(self.classes[int(t[1])])
            return 'None' if r is None else str(r._oid)
        elif k == 'enable':
            w.dispatch_enabled = bool(int(t[1]))
        elif k == 'dispatch':
            args, kwargs = dec_args(t[2])
            w.dispatch(t[1], *args, **kwargs)
        elif k == 'via':
            return self.via(self.objs[int(t[1])], t[2], t[3:])
        elif k == 'forget':
            # the program drops its own reference to the object
            o = int(t[1])
            if o in self.objs:
                self.gone[o] = weakref.ref(self.objs.pop(o))
        else:
            raise ValueError(t)
        return '-'

    def via(self, k, kind, a):
        """A shorthand through controller k, or (mode direct) the World call it stands for."""
        oid = lambda c: 'None' if c is None else str(c._oid)      # noqa
        C = lambda i: self.classes[int(i)]                        # noqa
        O = lambda i: self.objs[int(i)]                           # noqa
        if self.direct:
            if k.world is None:
                raise AttributeError('controller without world')
            w, e = k.world, k.entity
            if kind in ('add', 'cset'):
                w.add_component(e, O(a[0]))
            elif kind == 'remove':
                return oid(w.remove_component(e, C(a[0])))
            elif kind == 'cdel':
                w.remove_component(e, C(a[0]))
            elif kind == 'has':
                return str(w.has_component(e, C(a[0])))
            elif kind in ('get', 'cget'):
                return oid(w.get_component(e, C(a[0])))
            elif kind == 'comps':
                return ','.join(map(str, sorted(c._oid for c in w.get_components(e)))) or '-'
            elif kind == 'delete':
                w.delete_entity(e)
            elif kind == 'pget':
                return oid(w.get_processor(C(a[0])))
            elif kind == 'pset':
                w.add_processor(O(a[0]))
            elif kind == 'pdel':
                w.remove_processor(C(a[0]))
            return '-'
        if kind == 'add':
            k.add_component(O(a[0])) if int(a[0]) % 2 else desper.add_component(k, O(a[0]))
        elif kind == 'remove':
            return oid(k.remove_component(C(a[0])) if int(a[0]) % 2 else desper.remove_component(k, C(a[0])))
        elif kind == 'has':
            return str(k.has_component(C(a[0])) if int(a[0]) % 2 else desper.has_component(k, C(a[0])))
        elif kind == 'get':
            return oid(k.get_component(C(a[0])) if int(a[0]) % 2 else desper.get_component(k, C(a[0])))
        elif kind == 'comps':
            return ','.join(map(str, sorted(c._oid for c in k.get_components()))) or '-'
        elif kind == 'delete':
            k.delete()
        elif kind == 'cget':
            return oid(getattr(k, f'cref_{a[0]}'))
        elif kind == 'cset':
            setattr(k, f'cref_{self.classes.index(type(O(a[0])))}', O(a[0]))
        elif kind == 'cdel':
            delattr(k, f'cref_{a[0]}')
        elif kind == 'pget':
            return oid(getattr(k, f'pref_{a[0]}'))
        elif kind == 'pset':
            setattr(k, f'pref_{self.classes.index(type(O(a[0])))}', O(a[0]))
        elif kind == 'pdel':
            delattr(k, f'pref_{a[0]}')
        else:
            raise ValueError(kind)
        return '-'

    def snapshot(self):
        w = self.w
        out = []
        ctys = [i for i, k in enumerate(self.kinds) if k in ('c', 'ctrl')]
        ptys = [i for i, k in enumerate(self.kinds) if k in ('p', 'upd')]

        def q(fn):
            # a query that raises is an observation (`!<exception>`), never a harness failure
            try:
                return fn()
            except Exception as ex:     # noqa
                return f'!{type(ex).__name__}'

        def get_line(t):
            res = w.get(self.classes[t])
            pairs = sorted(ent_code(e) * 100000 + c._oid for e, c in res)
            # the caller owns what a query returns: using it as a work list must not disturb the world
            if isinstance(res, list):
                res.clear()
                res.append(('junk', None))
            return ','.join(f'{p // 100000}:{p % 100000}' for p in pairs) or '-'

        def has_line(pe, t):
            c = w.get_component(pe, self.classes[t])
            d = w.get_component(pe, self.classes[t], DEFAULT)
            return (f'{int(w.has_component(pe, self.classes[t]))} {"None" if c is None else c._oid} '
                    f'{"D" if d is DEFAULT else getattr(d, "_oid", "?")}')

        def gp_line(t):
            p = w.get_processor(self.classes[t])
            return "None" if p is None else str(p._oid)

        for t in ctys:
            out.append(f'get {t} ' + q(lambda: get_line(t)))
        for e in self.ents:
            pe = ent_py(e)
            out.append(f'row {e} ' + q(lambda: ','.join(map(str, sorted(c._oid for c in w.get_components(pe)))) or '-'))
            out.append(f'exists {e} ' + q(lambda: str(int(w.entity_exists(pe)))))
            for t in ctys:
                out.append(f'has {e} {t} ' + q(lambda: has_line(pe, t)))
        def getall_line():
            pairs = sorted(ent_code(e) * 100000 + c._oid for e, c in w.get(object))
            return ','.join(f'{p // 100000}:{p % 100000}' for p in pairs) or '-'
        out.append('getall ' + q(getall_line))

        def proto_line(pe):
            # a query type that is no base class of anything (a runtime-checkable Protocol): the three
            # kinds of query must still tell one story
            # (also: ABCs with a subclass hook, and an ABC some component class was only *registered* with -
            # neither makes a class a subclass for the walk over __subclasses__ that all queries share)
            import collections.abc
            return ' '.join(f'{int(w.has_component(pe, P))} {int(w.get_component(pe, P) is not None)} '
                            f'{int(any(x == pe for x, _ in w.get(P)))}'
                            for P in (desper.EventHandler, collections.abc.Hashable, collections.abc.Sized,
                                      self.registered_abc))
        for e in self.ents:
            out.append(f'hasx {e} ' + q(lambda: proto_line(ent_py(e))))
        out.append('entities ' + q(lambda: ','.join(map(str, sorted(ent_code(e) for e in w.entities))) or '-'))
        def procs_line():
            res = w.processors
            line = ','.join(str(p._oid) for p in res) or '-'
            if isinstance(res, list):
                res.clear()
            return line
        out.append('procs ' + q(procs_line))
        for t in ptys:
            out.append(f'gp {t} ' + q(lambda: gp_line(t)))

        def gpx_line():
            p = w.get_processor(self.ProcMixin)
            return 'None' if p is None else str(p._oid)
        out.append('gpx ' + q(gpx_line))
        out.append('pw ' + (','.join(str(o) for o in sorted(
            oid for oid, ob in self.objs.items() if desper.Processor in type(ob).__mro__ and ob.world is w)) or '-'))
        if self.gone:
            gc.collect()

        def deref(oid):
            return self.objs[oid] if oid in self.objs else self.gone[oid]()
        for oid, cid in self.objdecl:
            if hasattr(self.classes[cid], '__events__'):
                ob = deref(oid)
                out.append(f'ish {oid} ' + ('0' if ob is None else q(lambda: str(int(w.is_handler(ob))))))
                ob = None
        for oid, cid in self.objdecl:
            if desper.Controller in self.classes[cid].__mro__:
                ob = deref(oid)
                if ob is None:
                    out.append(f'ctl {oid} collected')
                else:
                    ok = ob.world is w or ob.world is None
                    out.append(f'ctl {oid} {"None" if ob.entity is None else ent_code(ob.entity)}'
                               + ('' if ok else ' wrong-world'))
                ob = None
        for oid in sorted(self.gone):
            out.append(f'alive {oid} {int(self.gone[oid]() is not None)}')
        out.append(f'enabled {int(w.dispatch_enabled)}')
        return out

    def go(self):
        from harness.core import Timeout
        self.build()
        prev = None
        for t in self.ops:
            if t[0] == 'snap':
                self.obs += self.snapshot()
                continue
            if self.w2 is not None:
                if prev is not None:
                    self.decoy_step(prev)
                prev = t
            ret = '-'
            try:
                ret = self.exec_op(t)
                out = 'ok'
            except Timeout:
                raise
            except RecursionError:
                out = 'hang'
            except Exception as e:        # noqa
                out = 'raised ' + exc_name(e)
            self.obs.append('res ' + out)
            self.obs.append('ret ' + ret)
        # an OnUpdateProcessor taken out of this world and put into another one relays the frames of the world
        # it is in now - to that world's listeners, once, and no longer to this one's (runner-level probe at
        # the end of the history; the model knows one world)
        if not self.direct and self.w is not None:
            ups = [p for p in self.w.processors if desper.OnUpdateProcessor in type(p).__mro__]
            saved, self.obs = self.obs, []
            try:
                for p in ups[:2]:
                    got = {'new': [], 'old': []}

                    def listener(key):
                        ns = {'__events__': {'on_update': 'on_update'},
                              'on_update': lambda s, dt, *a: got[key].append(dt)}
                        return type('Listener', (), ns)()
                    ln, lo = listener('new'), listener('old')
                    w3 = desper.World()
                    try:
                        w3.add_handler(ln)
                        self.w.add_handler(lo)
                        self.w.remove_processor(type(p))
                        w3.add_processor(p)
                        w3.process(5)
                        saved.append(f'migrate {p._oid} {len(got["new"])} {len(got["old"])}')
                    except Exception:       # noqa  (scripted callbacks of the scenario may raise here too)
                        saved.append(f'migrate {p._oid} skipped')
                    finally:
                        self.w.remove_handler(lo)
            finally:
                self.obs = saved
        # the program lets go of the world itself: a controller that is attached still knows its world
        ctrls = [(oid, ob) for oid, ob in self.objs.items() if ob is not None
                 and desper.Controller in type(ob).__mro__ and getattr(ob, 'entity', None) is not None
                 and ob.world is self.w]
        if ctrls and not self.direct:
            self.w = None
            gc.collect()
            for oid, ob in ctrls:
                try:
                    alive = ob.world is not None and ob.world.entity_exists(ob.entity) in (True, False)
                except Exception:       # noqa
                    alive = False
                self.obs.append(f'ctlworld {oid} {int(alive)}')
        return canon(self.obs), self.hints


def canon(obs):
    """Sort the callbacks of one dispatch by receiver (set iteration order) and drop the markers."""
    out, stack = [], []
    for o in obs:
        if o == 'dbeg':
            stack.append([])
        elif o == 'dend':
            blk = stack.pop()
            keep = 'dnosort' in blk
            blk = [l for l in blk if l != 'dnosort']
            if not keep and all(l.startswith('cb ') for l in blk):
                blk = sorted(blk, key=lambda l: int(l.split()[1]))
            (stack[-1] if stack else out).extend(blk)
            if keep and stack:
                stack[-1].append('dnosort')
        else:
            (stack[-1] if stack else out).append(o)
    while stack:
        out.extend(stack.pop(0))
    return [l for l in out if l != 'dnosort']


def run_impl(lines):
    return Run(lines).go()
