"""Executable statement of the coroutine properties (C08, C09) — the *oracle*.

An abstract interpreter written from the property text, independent of desper and of the Lean
model.  It knows nothing of deques, heaps, sentinels, shared timers or kill marks; per coroutine it
keeps

    mode        None (not in the system: never started, finished, killed) | 'run' | 'wait'
    remaining   the wait still to elapse (the yielded n minus the dt accumulated since the yield)
    pc, done    the generator object's own progress (survives kill / start)
    promises    the promises handed out for it (the last one is current)
    linger      how long a killed coroutine may still be referenced: "released no later than the
                frame in which it would next have run"

A process(dt) call: every waiting coroutine's remaining wait shrinks by dt; those that reach <= 0
become runnable *in this call*; then every coroutine that is runnable at that point must be
advanced exactly one step in this call unless it is killed before its turn.  The property fixes
the order only among coroutines that stayed runnable since the previous call, and does not say
whether a coroutine started during the call runs in it; for these the oracle follows the
implementation (its `step` lines), validating each choice: the coroutine must be eligible, must
not have run in this call, must be at the step where it stopped, and must not overtake a
coroutine that preceded it in the previous call while both stayed runnable.  The first invalid
choice is recorded as a reason and the oracle carries on in its own order, so the required stream
then differs from the observed one at that line.

A body may leave with an exception (quit_loop() / switch() inside a coroutine, or a bug).  The
exception must come out of process(); the texts say nothing else about that call, so the coroutines
that were still owed a step in it are excused *for that call* (it did not complete).  From then on
the texts apply in full: in the very next call every runnable coroutine is owed exactly one step,
in the order kept so far; the coroutine that raised is over — it reads TERMINATED and is released
as soon as the aborted call has returned, and its promise stays empty.  (Until commit 79d5dfb the
code skipped coroutines in the call after an aborted one: D31, corpus/C08/raise_mid_order.scn; that
is reported as `skipped-after-raise`, an ordinary violation.)
"""
from harness.models.coro import parse, enc, split_instances, dec


class Spec:
    def __init__(self, lines, obs):
        self.scripts, self.ops = parse(lines)
        # the processor may live in a World: started through the decorator, replaced, removed
        self.has_proc = True
        n = len(self.scripts)
        self.n = n
        self.mode = [None] * n
        self.remaining = [0] * n
        self.pc = [0] * n
        self.done = [False] * n
        self.promises = [[] for _ in range(n)]      # lists of [value]
        self.linger = {}                            # g -> ['frames', k] | ['wait', remaining]
        self.prev_order = []
        self.out = []
        self.reasons = {}                           # index in self.out -> reason
        self.after_abort = False                    # the previous process call was aborted by a body
        # frame-local
        self.in_frame = False
        self.must, self.may, self.ran, self.fresh, self.stayed = set(), set(), set(), set(), []
        # the implementation's stream, cut into one chunk per top-level op
        self.chunks, cur = [], []
        for o in obs:
            cur.append(o)
            if o.startswith('res '):
                self.chunks.append(cur)
                cur = []
        self.tails = []                             # lines between a res and the next op's lines
        self.obs = obs

    # ------------------------------------------------------------------ API of the processor
    def is_gen(self, h):
        return 0 <= h < self.n

    def state(self, h):
        if not self.is_gen(h):
            return 'raised TypeError'
        return {None: 'T', 'run': 'A', 'wait': 'P'}[self.mode[h]]

    def start(self, h):
        if not self.is_gen(h):
            return 'raised TypeError'
        if self.mode[h] is not None:
            return 'raised ValueError'          # "starting a running generator ... changes nothing"
        self.mode[h] = 'run'                    # "ACTIVE from start"
        self.linger.pop(h, None)
        self.promises[h].append([None])
        if self.in_frame:
            self.may.add(h)
            self.fresh.add(h)                   # a new start: its place in the order is open
        return 'ok'

    def kill(self, h, running=None):
        if not self.is_gen(h):
            return 'raised TypeError'
        if self.mode[h] is None:
            return 'raised ValueError'          # "killing one that is not running"
        # TERMINATED as soon as kill is called; it may stay referenced until it would next have run
        if h == running:
            self.linger[h] = ['self']           # decided by how its current step ends
        elif self.mode[h] == 'wait':
            self.linger[h] = ['wait', self.remaining[h]]
        elif self.in_frame and h not in self.ran and h in self.must:
            self.linger[h] = ['frames', 1]      # its turn would come in this very call
        elif self.in_frame:
            self.linger[h] = ['frames', 2]      # it already ran in this call, or was started during
                                                # it (its turn may come in the next call only)
        else:
            self.linger[h] = ['frames', 1]
        self.mode[h] = None
        self.must.discard(h)
        self.may.discard(h)
        if h in self.prev_order:
            self.prev_order.remove(h)
        return 'ok'

    def new_processor(self, present):
        """The world's CoroutineProcessor is replaced by a fresh one (or removed).  Whatever the old
        one was running is no longer in *the world's* processor: a coroutine started from now on -
        directly or through the decorator - lives in the new one, and world.process drives that one
        only.  The generator objects and the promises handed out so far are the program's."""
        for g in range(self.n):
            self.mode[g] = None
        self.linger.clear()
        self.prev_order = []
        self.after_abort = False
        self.has_proc = present

    # ------------------------------------------------------------------ running bodies
    def eligible(self, g):
        return self.mode[g] == 'run' and g not in self.ran and (g in self.must or g in self.may)

    def why_not(self, g):
        if not self.is_gen(g):
            return 'unknown-generator'
        if g in self.ran:
            return 'ran-twice'
        if self.mode[g] == 'wait':
            return 'woke-early'
        if self.mode[g] is None:
            return 'ran-while-terminated'
        return 'not-runnable'

    def finish(self, g, value, ran_code):
        self.mode[g] = None
        self.done[g] = True
        self.linger.pop(g, None)                # finished: released at once
        self.must.discard(g)
        self.may.discard(g)
        if ran_code and self.promises[g]:
            self.promises[g][-1][0] = value     # "its promise then holds the returned value"

    def run_step(self, g, impl_acts):
        """Advance g by one step.  impl_acts: the implementation's act lines of this step (used
        only to resolve what the property leaves open, see act_state)."""
        i = self.pc[g]
        self.ran.add(g)
        self.must.discard(g)
        self.may.discard(g)
        acts, (kind, val) = self.scripts[g][i]
        self.pc[g] = i + 1
        self.out.append(f'step {g} {i}')
        for k, (a, h) in enumerate(acts):
            self.silent_finish(a, h, impl_acts[k] if k < len(impl_acts) else None)
            if a == 'start':
                r = self.start(h)
            elif a == 'kill':
                r = self.kill(h, running=g)
            else:
                r = self.state(h)
            self.out.append(f'act {g} {i} {a} {h} {r}')
        killed_self = self.linger.get(g) == ['self']
        if kind == 'raise':
            # the coroutine is over: TERMINATED, released at once, nothing stored in its promise
            self.finish(g, None, False)
            return val
        if kind == 'ret':
            self.finish(g, val, True)
        elif val is not None and val > 0:
            if killed_self:
                self.linger[g] = ['wait', val]
            elif self.mode[g] == 'run':
                self.mode[g] = 'wait'           # "until it yields a positive wait, PAUSED until ..."
                self.remaining[g] = val
        else:
            if killed_self:
                self.linger[g] = ['frames', 2]
            elif self.mode[g] == 'run':
                self.stayed.append(g)

    def silent_finish(self, a, h, impl_line):
        """An exhausted generator that was started again finishes in its turn without running any
        code, so the moment is invisible in the execution log; when a body then acts on it, either
        answer (before / after its turn) is accepted: the implementation's answer decides."""
        if not (self.is_gen(h) and self.in_frame and self.eligible(h)
                and not self.runs_code(h) and impl_line is not None):
            return
        after_turn = {'state': ' T', 'kill': ' raised ValueError', 'start': ' ok'}[a]
        if impl_line.endswith(after_turn):
            self.ran.add(h)
            self.finish(h, None, False)

    def process(self, dt, chunk, after):
        steps = []                                  # [(g, i, [act lines])]
        for o in chunk:
            t = o.split()
            if t[0] == 'step':
                steps.append((int(t[1]), int(t[2]), []))
            elif t[0] == 'act' and steps:
                steps[-1][2].append(o)
        self.in_frame = True
        self.ran, self.may, self.fresh, self.stayed = set(), set(), set(), []
        # waits elapse
        for g in range(self.n):
            if self.mode[g] == 'wait':
                self.remaining[g] -= dt
                if self.remaining[g] <= 0:
                    self.mode[g] = 'run'            # wakes in the first call by which dt reached n
        for g, l in list(self.linger.items()):
            if l[0] == 'wait':
                l[1] -= dt
                if l[1] <= 0:
                    self.linger[g] = ['frames', 1]
        self.must = {g for g in range(self.n) if self.mode[g] == 'run'}
        order = list(self.prev_order)
        exc = None
        for g, i, acts in steps:
            ok = self.is_gen(g) and self.eligible(g) and not self.done[g] \
                and self.pc[g] < len(self.scripts[g])
            reason = None
            if exc is not None:
                reason = 'ran-after-raise'          # the exception must leave process() at once
            elif not ok:
                reason = self.why_not(g)
            elif i != self.pc[g]:
                reason = 'wrong-step-index'
            elif g in order and any(h in self.must and h not in self.ran and self.runs_code(h)
                                    for h in order[:order.index(g)]):
                reason = 'order-changed'
            if reason:
                self.reasons[len(self.out)] = reason
                break
            exc = self.run_step(g, acts)
        impl_states = next((o.split()[1].split(',') for o in after if o.startswith('states ')), None)

        def impl_says_gone(g):
            return bool(impl_states) and g < len(impl_states) and impl_states[g] == 'T'
        # whoever is still owed a step (none, when the implementation is right)
        pending = [g for g in order if g in self.must] + sorted(self.must - set(order))
        for g in pending:
            if not (g in self.must and self.mode[g] == 'run' and g not in self.ran):
                continue
            if exc is not None:
                # the call was aborted: excused for this call (an exhausted generator may have had
                # its silent last turn before the exception: the implementation tells)
                if not self.runs_code(g) and impl_says_gone(g):
                    self.ran.add(g)
                    self.finish(g, None, False)
                continue
            if self.runs_code(g):
                self.reasons.setdefault(len(self.out),
                                        'skipped-after-raise' if self.after_abort else 'missing-step')
                self.run_step(g, [])
            else:
                self.ran.add(g)
                self.finish(g, None, False)         # exhausted generator: finishes silently
        # exhausted generators started during this call: follow the implementation
        for g in sorted(self.may):
            if self.mode[g] == 'run' and not self.runs_code(g) and impl_says_gone(g):
                self.finish(g, None, False)
        if exc is not None:
            # not a completed frame: order and release allowances stand as they were
            self.after_abort = True
            self.prev_order = [g for g in order if self.mode[g] == 'run' and g not in self.fresh]
        else:
            self.after_abort = False
            self.prev_order = [g for g in self.stayed if self.mode[g] == 'run' and g not in self.fresh]
            for g, l in list(self.linger.items()):
                if l[0] == 'frames':
                    l[1] -= 1
                    if l[1] <= 0:
                        del self.linger[g]
        self.in_frame = False
        self.must, self.may = set(), set()
        return 'ok' if exc is None else 'raised ' + exc

    def runs_code(self, g):
        return not self.done[g] and self.pc[g] < len(self.scripts[g])

    # ------------------------------------------------------------------ the whole scenario
    def run(self):
        for k, t in enumerate(self.ops):
            chunk = self.chunks[k] if k < len(self.chunks) else []
            nxt = self.chunks[k + 1] if k + 1 < len(self.chunks) else \
                self.obs[sum(len(c) for c in self.chunks):]
            kind = t[0]
            if kind == 'process':
                # world.process() of a world without a coroutine processor runs no coroutine
                r = self.process(int(dec(t[1])), chunk, nxt) if self.has_proc else 'ok'
            elif kind in ('replace', 'remove'):
                self.new_processor(kind == 'replace')
                r = 'ok'
            elif kind in ('dstart', 'dstart0'):
                # the decorator starts the coroutine in the world's CURRENT coroutine processor
                r = self.start(int(t[1])) if self.has_proc else 'raised AssertionError'
            elif not self.has_proc and kind != 'value':
                r = 'raised AttributeError'
            elif kind == 'start':
                r = self.start(int(t[1]))
            elif kind == 'kill':
                r = self.kill(int(t[1]))
            elif kind == 'state':
                r = self.state(int(t[1]))
            elif kind == 'value':
                g = int(t[1])
                ps = self.promises[g] if self.is_gen(g) else []
                r = 'value ' + (','.join(enc(p[0]) for p in ps) or '-')
            else:
                raise ValueError(t)
            self.out.append('res ' + r)
            st = ','.join(self.state(g) for g in range(self.n)) or '-'
            self.out.append('states ' + st)
            self.out.append('pstates ' + st)
        # released: everything in the system is of course referenced; a killed coroutine may be
        # until the frame in which it would next have run; nothing else
        must = {g for g in range(self.n) if self.mode[g] is not None}
        may = set(self.linger)
        got = next((o for o in self.obs if o.startswith('retained ')), None)
        if got is not None:
            have = {int(x) for x in got.split()[1].split(',') if x != '-'}
            if must <= have <= (must | may):
                self.out.append(got)
                return self.out
        self.out.append('retained ' + (','.join(map(str, sorted(must))) or '-'))
        return self.out


def expected(lines, obs):
    sp = Spec(lines, obs)
    return sp.run(), sp.reasons


def split_obs(obs):
    """observations per instance (marks removed), in the order of the stream"""
    per = {}
    for k, o in split_instances(obs):
        per.setdefault(k, []).append(o)
    return per


def compare(pid, lines, obs, project):
    """Every instance (`@k`) is judged on its own, exactly like a scenario with one processor:
    whatever the other instances do must not show in its observations."""
    if obs == ['hang']:
        return [{'sig': f'{pid}:hang', 'what': 'the implementation did not return'}]
    marked = split_instances(lines)
    ids = [0] + sorted({k for k, _ in marked} - {0})
    per_obs = split_obs(obs)
    out = []
    for k in ids:
        vs = compare_one(pid, [ln for j, ln in marked if j == k], per_obs.get(k, []), project)
        for v in vs:
            if len(ids) > 1:
                v = dict(v, what=f'instance {k} (of {len(ids)} processors living side by side): ' + v['what'])
            out.append(v)
        if out:
            break
    return out


def compare_one(pid, lines, obs, project):
    """First disagreement between the required and the observed stream -> [violation]."""
    exp, reasons = expected(lines, obs)
    found = []
    keep_e = [(k, o) for k, o in enumerate(exp) if project([o])]
    e = [o for _, o in keep_e]
    a = project(obs)
    if e == a:
        return found
    k = next((i for i, (x, y) in enumerate(zip(e, a)) if x != y), min(len(e), len(a)))
    want = e[k] if k < len(e) else '<end>'
    got = a[k] if k < len(a) else '<end>'
    reason = reasons.get(keep_e[k][0]) if k < len(keep_e) else None
    wk, gk = want.split()[0], got.split()[0]
    if reason:
        kind = reason
    elif gk == 'step' and wk != 'step':
        kind = 'unexpected-step'
    elif wk == 'step' and gk != 'step':
        kind = 'missing-step'
    elif wk == 'res' and got.startswith('res raised') and not want.startswith('res raised'):
        kind = 'raised-' + got.split()[2]
    elif wk == 'retained':
        kind = 'not-released'
    else:
        kind = 'wrong-' + wk
    return found + [{'sig': f'{pid}:{kind}', 'what': f'observation #{k}: required `{want}`, '
                     f'implementation gave `{got}`'}]
