"""Executable statement of the loop properties (C13, C14) — the *oracle*.

An abstract interpreter written from the two property texts, independent of desper and of the
Lean model.  It knows nothing of dispatcher queues or `dispatch_enabled`; its vocabulary is the
properties' own:

  * a handle *yields* a world instance (a fresh one when it holds none: that is a load);
  * a world is *live* while the loop runs it; events sent to a live world are delivered at once,
    events sent to any other world are *held* until that world is *entered*, and are then
    delivered once, in the order they were sent, as long as the world stays live;
  * a freshly loaded world holds its load-time callbacks;
  * a request through `switch(h, cc, cn)` picks the instance T that is going to run (a fresh one
    when `cn`, or when `cc` and h is the handle being left), delivers on_switch_out(F, T) in the
    world F being left, makes F hold its events, lets T hold on_switch_in(F, T) *after* what T
    already holds, and abandons the frame; with `cc` the handle being left yields a fresh
    instance afterwards;
  * a raised `SwitchWorld(h, cc, cn)` abandons the frame and enters what h yields (after
    forgetting the cached instances the flags name); no events;  the property says nothing about
    the events of a world left this way (it stays live here, as in the code);
  * every iteration reads the clock once and calls process(dt) of the current world once, dt = 0
    for the first iteration of a start, else the difference to the previous reading;
  * Quit ends `start` normally, anything else propagates; running is false after either;
  * `quit_loop` sends on_quit to the given or current world first.

`expected(lines)` produces the observation stream the properties require, `compare` classifies the
first disagreement with a clause-specific signature.
"""
from harness.models.loop import parse


class Quit(Exception):
    pass


class Other(Exception):
    pass


class ClockExhausted(Exception):
    pass


class SwitchRequest(Exception):
    def __init__(self, h, cc, cn, world=None):
        self.h, self.cc, self.cn, self.world = h, cc, cn, world


class Hang(Exception):
    pass


class W:
    def __init__(self, name):
        self.name = name
        self.live = False
        self.held = []
        self.dead = set()


class Spec:
    def __init__(self, lines):
        self.decls, self.reacts, self.ops = parse(lines)
        self.out = []
        self.tags = []            # (index into out, tag) : context for classifying a mismatch
        self.cached = {}
        self.nloads = {}
        self.current = None
        self.current_handle = None
        self.running = False
        self.n = 0
        self.depth = 0
        self.clock = 0

    # ---- handles
    def yields(self, h):
        if self.cached.get(h) is None:
            k = self.nloads[h] = self.nloads.get(h, 0) + 1
            w = W(f'{h}#{k}')
            w.h = h
            w.held = [(f'c{c}', str(tok)) for c, tok in self.decls[h]['load']]
            w.held.append(('on_world_load', f'{h},{w.name}'))
            self.out.append(f'load {w.name}')
            self.cached[h] = w
        return self.cached[h]

    # ---- events
    def send(self, w, ev, args):
        if w.live:
            self.deliver(w, ev, args)
        else:
            w.held.append((ev, args))

    def deliver(self, w, ev, args):
        self.out.append(f'ev {w.name} {ev} {args}')
        n = self.n
        self.n += 1
        self.depth += 1
        if self.depth > 150:
            raise Hang()
        try:
            self.act(self.reacts.get(n, ['none']))
        finally:
            self.depth -= 1

    def enter(self, w):
        w.live = True
        while w.live and w.held:
            ev, args = w.held.pop(0)
            self.deliver(w, ev, args)

    # ---- user code
    def act(self, a):
        k = a[0]
        if k == 'none':
            return
        if k == 'rquit':
            raise Quit()
        if k == 'rother':
            raise Other()
        if k == 'rswitch':
            raise SwitchRequest(int(a[1]), bool(int(a[2])), bool(int(a[3])))
        if k == 'quit':
            if self.current is not None:
                self.send(self.current, 'on_quit', '_')
            raise Quit()
        if k == 'quitto':
            self.send(self.yields(int(a[1])), 'on_quit', '_')
            raise Quit()
        if k == 'switch':
            h, cc, cn = int(a[1]), bool(int(a[2])), bool(int(a[3]))
            frm = self.current
            restart = cc and h == self.current_handle
            # the handle being left no longer holds the world that runs (it was re-pointed by a
            # clearing switch() whose on_switch_out callback raised or switched itself)
            orphaned = restart and self.cached.get(h) is not frm
            self.tags.append((len(self.out), 'orphaned' if orphaned else 'switch'))
            if cn or restart:
                self.cached[h] = None
            to = self.yields(h)
            if frm is not None:
                self.send(frm, 'on_switch_out', f'{frm.name},{to.name}')
                frm.live = False
            to.live = False
            to.held.append(('on_switch_in', f'{frm.name if frm else "None"},{to.name}'))
            raise SwitchRequest(h, cc and not restart, False, world=to)
        raise ValueError(a)

    # ---- the loop
    def loop_switch(self, rq):
        if rq.cc and self.current_handle is not None:
            self.cached[self.current_handle] = None
        if rq.cn:
            self.cached[rq.h] = None
        self.current_handle = rq.h
        self.current = self.yields(rq.h) if rq.world is None else rq.world
        if rq.world is not None:
            self.cached[rq.h] = rq.world
        self.enter(self.current)

    def serve(self, rq):
        for _ in range(200):
            try:
                self.loop_switch(rq)
                return
            except SwitchRequest as nxt:
                rq = nxt
        raise Hang()

    def pact(self, a):
        """what a processor does: user code, or a direct (non-raising) call of the loop's own API —
        the texts say nothing special about those: `loop.switch(...)` makes the handle's world the
        current one and enters it at once (no events of its own, the frame goes on, the world left
        stays live as after a raised SwitchWorld), the next iteration processes the current world;
        a newly assigned time function is the one read from then on."""
        k = a[0]
        if k == 'lswitch':
            self.loop_switch(SwitchRequest(int(a[1]), bool(int(a[2])), bool(int(a[3]))))
        elif k == 'setclock':
            self.clock = int(a[1])
        elif k == 'peek':
            self.out.append(f'peek {self.current.name if self.current else "None"}')
        else:
            self.act(a)

    def frame(self, readings, acts, first):
        reading = readings[self.clock]
        dt = 0 if first else reading - self.prev
        self.prev = reading
        w = self.current
        if w is None:
            raise AttributeError()
        self.out.append(f'frame {w.name} {dt}')
        for p, kind in enumerate(self.decls[w.h]['procs']):
            self.out.append(f'proc {w.name} {p} {dt}')
            a = acts[p] if p < len(acts) else ['none']
            if kind == 'p':
                self.pact(a)
            elif kind == 'u':
                self.send(w, 'on_update', str(dt))
            elif p not in w.dead:
                try:
                    self.pact(a)
                except Hang:
                    raise
                except Exception:
                    w.dead.add(p)
                    raise

    def start(self, frames):
        self.running = True
        first = True
        try:
            for reading, alt, acts in frames:
                try:
                    self.frame((reading, alt), acts, first)
                except SwitchRequest as rq:
                    self.serve(rq)
                first = False
            raise ClockExhausted()
        except Quit:
            pass
        finally:
            self.running = False

    def where(self):
        return (f'current={self.current.name if self.current else "None"} '
                f'handle={"None" if self.current_handle is None else self.current_handle}')

    def run(self):
        for op in self.ops:
            try:
                if op[0] == 'load':
                    self.yields(op[1])
                elif op[0] == 'switch':
                    self.loop_switch(SwitchRequest(op[1], op[2], op[3]))
                else:
                    self.start(op[1])
                out = 'ok'
            except Hang:
                out = 'hang'
            except SwitchRequest:
                out = 'raised SwitchWorld'
            except Exception as e:         # noqa
                out = 'raised ' + type(e).__name__
            if op[0] == 'start':
                self.out.append(f'ret {out} running={int(self.running)} {self.where()}')
            else:
                self.out.append(f'res {out} {self.where()}')
        return self.out


def expected(lines):
    s = Spec(lines)
    return s.run(), s.tags


def clause(want, got):
    w, g = want.split(), got.split()
    if got in ('hang', '<end>') and want == '<end>':
        return 'hang'
    if got == 'hang':
        return 'hang'
    kinds = (w[0], g[0])
    if g[0] in ('ret', 'res') and 'raised SwitchWorld' in got and 'raised SwitchWorld' not in want:
        return 'switch-escapes'
    if 'load' in kinds:
        return 'loads'
    if 'ev' in kinds:
        name = w[2] if w[0] == 'ev' else g[2]
        return {'on_switch_in': 'switch-in', 'on_switch_out': 'switch-out', 'on_quit': 'on-quit',
                'on_update': 'update-delivery'}.get(name, 'held-events')
    if w[0] in ('frame', 'proc') and g[0] in ('frame', 'proc'):
        if w[0] != g[0] or w[1] != g[1]:
            return 'process-target' if w[1] != g[1] else 'frame-sequence'
        if w[0] == 'proc' and w[2] != g[2]:
            return 'frame-sequence'
        return 'dt'
    if w[0] == 'ret' and g[0] == 'ret':
        wf, gf = want.split(' running=')[0], got.split(' running=')[0]
        if wf != gf:
            return 'outcome'
        if [x for x in w if x.startswith('running=')] != [x for x in g if x.startswith('running=')]:
            return 'running'
        return 'current'
    if 'ret' in kinds or 'frame' in kinds or 'proc' in kinds:
        return 'frame-sequence'
    return 'switch-result'


def compare(pid, lines, act, project):
    """First disagreement between required and observed (projected) observations -> [violation]."""
    exp, tags = expected(lines)
    # position of the first disagreement in the unprojected expected stream, for the context tag
    e, a = project(exp), project(act)
    if e == a:
        return []
    k = next((i for i, (x, y) in enumerate(zip(e, a)) if x != y), min(len(e), len(a)))
    want = e[k] if k < len(e) else '<end>'
    got = a[k] if k < len(a) else '<end>'
    # map k back to an index of exp: count projected lines
    idx, seen = len(exp), 0
    for j, ln in enumerate(exp):
        if project([ln]):
            if seen == k:
                idx = j
                break
            seen += 1
    ctx = [t for (j, t) in tags if j <= idx]
    cl = 'orphaned-restart' if 'orphaned' in ctx else clause(want, got)
    return [{'sig': f'{pid}:{cl}',
             'what': f'observation #{k}: required `{want}`, implementation gave `{got}`'}]


# --------------------------------------------------------------------------- C14: trace predicate

def _fields(tokens):
    return dict(t.split('=', 1) for t in tokens if '=' in t)


def c14_predicate(lines, obs):
    """The text of C14 as a predicate over the implementation's own observation stream.

    Which world is the loop's *current* world is read from the implementation itself (the `tick`
    lines record `loop.current_world` when the clock is read, the `do` lines when user code is about
    to quit / raise / switch) — which instance a switch must enter is C13's business, not C14's.
      * the clock is read through the time function the loop has *now* (`time-function`);
      * every clock reading of a start is followed by exactly one process() call, on the world that
        is current at that moment (`once-per-iteration`, `process-target`), with dt = 0 for the
        first reading of the start and the difference to the previous reading afterwards (`dt`);
        every processor called in that frame gets the same dt, in order, each at most once;
      * quit_loop delivers on_quit to the given/current world first (at once when that world
        dispatches, not at all now when it holds its events) (`on-quit`);
      * a start ended by Quit returns normally, one ended by another exception lets it propagate
        (`outcome`); running is false afterwards (`running`); after Quit the current world and handle
        are what they were when Quit was raised (`current`).
    """
    def bad(clause, k, what):
        return [{'sig': f'C14:{clause}', 'what': f'observation #{k} `{obs[k] if k < len(obs) else "<end>"}`: {what}'}]

    if any(o == 'hang' for o in obs):
        return bad('hang', obs.index('hang'), 'the scenario did not terminate')
    in_start = False
    prev_reading = None      # previous reading of this start
    tick = None              # (index, reading, current) of the iteration in progress, None outside
    frame = None             # (inst, dt, last proc index) of the process() call of this iteration
    last_do = None           # (index, kind, fields) of the last `do` since the last tick
    for k, o in enumerate(obs):
        t = o.split()
        tag = t[0]
        if tag == 'start':
            in_start, prev_reading, tick, frame, last_do = True, None, None, None, None
        elif tag == 'tick':
            if tick is not None and tick[2] != 'None' and frame is None:
                return bad('once-per-iteration', k, f'reading {tick[1]} was consumed without a process() call')
            if t[1] == 'end':
                tick, frame, last_do = (k, None, 'end'), None, None
                continue
            f = _fields(t)
            if f.get('fn') != f.get('installed'):
                return bad('time-function', k, f'the clock was read through time function {f.get("fn")} while '
                           f'loop.time_function is time function {f.get("installed")}')
            if tick is not None and tick[1] is not None:
                prev_reading = tick[1]
            tick, frame, last_do = (k, int(t[1]), f['current']), None, None
        elif tag == 'frame':
            if not in_start or tick is None or tick[1] is None:
                return bad('once-per-iteration', k, 'process() called without a clock reading')
            if frame is not None:
                return bad('once-per-iteration', k, 'second process() call for one clock reading')
            if t[1] != tick[2]:
                return bad('process-target', k, f'process() of {t[1]} called while the current world is {tick[2]}')
            want = 0 if prev_reading is None else tick[1] - prev_reading
            if t[2] != str(want):
                return bad('dt', k, f'dt must be {want} (reading {tick[1]}, previous {prev_reading})')
            frame = (t[1], t[2], -1)
        elif tag == 'proc':
            if frame is None:
                return bad('once-per-iteration', k, 'processor called outside a process() call')
            if t[1] != frame[0] or t[3] != frame[1]:
                return bad('dt', k, f'processor of {t[1]} got dt {t[3]}; the frame is {frame[0]} with dt {frame[1]}')
            if int(t[2]) <= frame[2]:
                return bad('once-per-iteration', k, 'processor called twice or out of order in one frame')
            frame = (frame[0], frame[1], int(t[2]))
        elif tag == 'do':
            f = _fields(t)
            last_do = (k, t[1], f)
            if t[1] == 'quit' and f.get('tgt', 'None') != 'None':
                nxt = obs[k + 1] if k + 1 < len(obs) else '<end>'
                delivered = nxt == f'ev {f["tgt"]} on_quit _'
                if f['en'] == '1' and not delivered:
                    return bad('on-quit', k + 1, f'quit_loop must deliver on_quit in {f["tgt"]} first')
                if f['en'] == '0' and delivered:
                    return bad('on-quit', k + 1, f'{f["tgt"]} holds its events; on_quit must be held')
        elif tag == 'ret':
            f = _fields(t)
            outcome = o.split(' running=')[0][4:]
            if f['running'] != '0':
                return bad('running', k, 'running must be false after start() returned or raised')
            if last_do is not None and last_do[1] in ('rquit', 'quit'):
                if outcome != 'ok':
                    return bad('outcome', k, 'Quit must make start() return normally')
                if (f['current'], f['handle']) != (last_do[2]['current'], last_do[2]['handle']):
                    return bad('current', k, 'Quit must leave the current world and handle unchanged '
                               f'({last_do[2]["current"]}, handle {last_do[2]["handle"]})')
            elif last_do is not None and last_do[1] == 'rother':
                if outcome != 'raised Other':
                    return bad('outcome', k, 'an exception other than Quit must propagate to the caller')
            elif last_do is None and tick is not None and tick[2] == 'end':
                if outcome != 'raised ClockExhausted':
                    return bad('outcome', k, 'the exception of the time function must propagate')
            in_start, tick, frame, last_do = False, None, None, None
        elif tag == 'res':
            last_do = None
    return []
