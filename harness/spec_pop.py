"""Executable statement of C16 (directory population) — the *oracle*.

Written from the property text, independent of desper and of the Lean model.  The expected content
of the map is computed directly from the directory listing and the rules:

  * the *claims* of a population are the regular files under a rule's directory whose extension the
    rule accepts, rule by rule, in the order in which the file system lists them; each claims the
    key `relative path, '/'-joined` (extension dropped when trimming) for a handle built by the
    rule's factory from (file path, extra arguments);
  * claims are applied with C11's abstract map (`spec_tree`): intermediate names become sub-maps,
    the latest assignment wins; a key already taken by a handle: nest_on_conflict pushes the new
    handle on top of the older one (which stays retrievable beneath), otherwise the new one
    replaces it;
  * directories that are not on the way to an accepted file *may* be sub-maps (they correspond to a
    directory under a rule's directory) but need not be: such maps are accepted and adopted;
  * a key that both a directory and a (trimmed) file name claim cannot satisfy the property for
    both; the latest assignment wins (C11): whatever the implementation has at such a key is
    accepted and adopted;
  * nothing else may appear; a rule path that is a regular file: ValueError (nothing of that rule
    or a later one is added); a missing one: skipped.

Handles are compared per name as *stacks* (visible handle first, then the shadowed ones beneath),
not per ChainMap layer index.
"""
import os.path as pt

from harness import spec_tree
from harness.spec_tree import AMap, AHandle, comps, key_field


def norm(path):
    return [c for c in path.split('/') if c not in ('', '.')]


class Spec(spec_tree.Spec):
    def __init__(self, lines, obs):
        super().__init__(lines, obs, 'C16')
        self.pops = {}
        self.calls = 0
        self.optional = {}        # id(root AMap) -> set of key tuples that may be (empty) sub-maps
        self.claimed = {}         # handle label -> (fac, path, args)
        self.clashing = {}        # id(root AMap) -> keys claimed both by a directory and by a (trimmed) file
        self.last_pop = ''

    # ---- abstract population
    def stacks(self, m):
        """name -> handles from the visible one downwards"""
        out = {}
        for s in m.scopes:
            for k, h in s.items():
                out.setdefault(k, []).append(h)
        return out

    def place(self, root, key, h, nest):
        cur = root
        for k in key[:-1]:
            if k not in cur.subs:
                for s in cur.scopes:
                    s.pop(k, None)
                cur.subs[k] = AMap(implicit=True)
            cur = cur.subs[k]
        last = key[-1]
        cur.subs.pop(last, None)
        holder = next((s for s in cur.scopes if last in s), None)
        if holder is None:
            cur.scopes[0][last] = h
        elif nest:
            # the older handle stays retrievable beneath the new one
            if holder is cur.scopes[0]:
                cur.scopes.insert(0, {})
            cur.scopes[0][last] = h
        else:
            # the new one replaces it
            del holder[last]
            cur.scopes[0][last] = h
        h.inserted += 1

    def populate(self, ln, t):
        p = self.pops[t[1]]
        if t[2] not in self.menv:
            return self.expect('unbound', 'C16:stream', ln)
        root = self.menv[t[2]]
        flags = dict(x.split('=') for x in t[3:])
        nest = p['nest'] if flags['nest'] == 'N' else flags['nest'] == '1'
        trim = p['trim'] if flags['trim'] == 'N' else flags['trim'] == '1'
        call = self.calls
        self.calls += 1
        self.last_pop = ln
        self.last_mut = ' '.join(t)
        # the file system as the implementation saw it
        fs = []
        for k in range(len(p['rules'])):
            g = self.next().split()
            if g[:3] != ['glob', str(call), str(k)]:
                self.fail('C16:stream', f'expected the file-system observation of rule {k}, got {g}')
            fs.append(g[3:])
        opt = self.optional.setdefault(id(root), set())
        clash = self.clashing.setdefault(id(root), set())
        file_keys = set()
        want_exc = None
        for (rule_dir, fac, exts, args), g in zip(p['rules'], fs):
            if g[0] == 'missing':
                continue
            if g[0] == 'notdir':
                want_exc = 'ValueError'
                break
            # the directories from the root down to the rule directory are on the way to its files
            rd = norm(rule_dir)
            for n in range(1, len(rd)):
                opt.add(tuple(rd[:n]))
            for e in g[1].split(';'):
                kind, path = e[0], norm(e[2:])
                key = path or ['.']
                if kind == 'd':
                    opt.add(tuple(key))
                    continue
                name = path[-1]
                if exts and pt.splitext(name)[1] not in exts:
                    continue
                if trim:
                    key = key[:-1] + [pt.splitext(key[-1])[0]]
                file_keys.add(tuple(key))
                # the handle the rule's factory must have built for this file
                got = self.next()
                want = f'fac={fac} path=:{"/".join(path)} args={args}'
                if got.startswith('res raised'):
                    self.fail('C16:population-raised', f'{ln}: the population must go on with the file '
                              f'{"/".join(path)} of rule {rule_dir!r}, implementation gave `{got}`')
                if not got.startswith('made ') or got.split(' ', 2)[2] != want:
                    sig = 'C16:wrong-factory-arguments' if got.startswith('made ') and \
                        got.split()[3:4] == [f'path=:{"/".join(path)}'] else 'C16:files-and-handles-differ'
                    self.fail(sig, f'{ln}: the next handle must be built as `{want}` '
                              f'(file {"/".join(path)} of rule {rule_dir!r}), implementation gave `{got}`')
                label = got.split()[1]
                h = AHandle(label)
                self.hs[label] = h
                self.claimed[label] = want
                self.place(root, key, h, nest)
        # a key that a directory and a (trimmed) file name both claim: the property cannot hold for both,
        # the latest assignment wins (C11) in whatever order the file system lists them
        clash |= file_keys & opt
        got = self.next()
        if got.startswith('made '):
            self.fail('C16:files-and-handles-differ', f'{ln}: a handle was built for something that is not an '
                      f'accepted file of a rule: `{got}`')
        want = 'res ok' if want_exc is None else f'res raised {want_exc}'
        if got != want:
            sig = 'C16:not-a-directory-error' if want_exc else 'C16:population-raised'
            self.fail(sig, f'{ln}: required `{want}`, implementation gave `{got}`')

    # ---- comparison of the whole reachable content
    def check_dump(self, root, rootname):
        block = self.read_block('end-dump')
        imaps, ihnd = {}, {}
        for o in block:
            t = o.split()
            path = tuple(comps(t[1])) if t[1] != '-' else ()
            if t[0] == 'map':
                imaps[path] = t[2]
            else:
                ihnd.setdefault(path, {}).setdefault(int(t[2]), {})[t[3][1:]] = t[4]
        ctx = f'content of {rootname} after `{self.last_mut}`'
        opt = self.optional.get(id(root), set())
        amaps = {}

        def walk(m, path):
            if len(path) > spec_tree.MAX_DEPTH:
                return
            amaps[path] = m
            for k in sorted(m.subs):
                walk(m.subs[k], path + (k,))
        walk(root, ())

        def build(path):
            m = AMap(implicit=True)
            self.same_map(m, imaps[path])
            for li in sorted(ihnd.get(path, {})):
                while len(m.scopes) <= li:
                    m.scopes.append({})
                for k, h in ihnd[path][li].items():
                    m.scopes[li][k] = self.hs.setdefault(h, AHandle(h))
            for q in imaps:
                if len(q) == len(path) + 1 and q[:-1] == path:
                    m.subs[q[-1]] = build(q)
            return m
        # clashing keys: take what the implementation has there
        for key in sorted(self.clashing.get(id(root), ()), key=len):
            parent = amaps.get(key[:-1])
            if parent is None or key[:-1] not in imaps:
                continue
            k = key[-1]
            parent.subs.pop(k, None)
            for sc in parent.scopes:
                sc.pop(k, None)
            if key in imaps:
                parent.subs[k] = build(key)
            stack = [ihnd[key[:-1]][li][k] for li in sorted(ihnd.get(key[:-1], {})) if k in ihnd[key[:-1]][li]]
            for i, h in enumerate(stack):
                while len(parent.scopes) <= i:
                    parent.scopes.append({})
                parent.scopes[i][k] = self.hs.setdefault(h, AHandle(h))
            amaps.clear()
            walk(root, ())
        for path in sorted(set(imaps) | set(amaps), key=lambda p: (len(p), p)):
            p = '/'.join(path) or '<root>'
            if path not in imaps:
                self.fail('C16:directory-not-a-map', f'{ctx}: `{p}` must be a sub-map (it is a directory on the '
                          f'way to a file a rule accepts, or was a sub-map before), the implementation has none')
            if path not in amaps:
                parent = amaps.get(path[:-1])
                if path in opt and parent is not None:
                    # a listed directory: may be a sub-map (the latest assignment wins over a handle
                    # of the same name - a trimmed file name clashing with a directory name)
                    for sc in parent.scopes:
                        sc.pop(path[-1], None)
                    parent.subs[path[-1]] = AMap(implicit=True)
                    amaps[path] = parent.subs[path[-1]]
                    self.same_map(amaps[path], imaps[path])
                    continue
                self.fail('C16:nothing-else', f'{ctx}: the sub-map `{p}` corresponds to no directory under a '
                          f"rule's directory and was not there before")
        for path in sorted(amaps):
            m = amaps[path]
            p = '/'.join(path) or '<root>'
            want = {k: [h.label for h in hs] for k, hs in self.stacks(m).items()}
            got = {}
            for li in sorted(ihnd.get(path, {})):
                for k, h in ihnd[path][li].items():
                    got.setdefault(k, []).append(h)
            if want == got:
                continue
            for k in sorted(set(want) | set(got)):
                w, g = want.get(k, []), got.get(k, [])
                if w == g:
                    continue
                where = f'{p}/{k}' if path else k
                if not g:
                    sig = 'C16:file-unreachable'
                elif not w:
                    sig = 'C16:nothing-else'
                elif w[0] != g[0]:
                    sig = 'C16:file-unreachable'
                elif len(g) < len(w):
                    sig = 'C16:conflict-older-handle-lost'
                else:
                    sig = 'C16:conflict-older-handle-kept'
                desc = lambda hs: [f'{h} ({self.claimed.get(h, "pre-existing")})' for h in hs]   # noqa
                self.fail(sig, f'{ctx}: under the key `{where}` the handles (visible one first, then the '
                          f'shadowed ones) must be {desc(w)}, the implementation has {desc(g)}')

    def check_links(self):
        self.read_block('end-links')

    def line(self, ln):
        t = ln.split()
        if not t or t[0] in ('fs', 'glob'):
            return
        if t[0] == 'pop':
            d = dict(x.split('=') for x in t[2:])        # the spelling of the root does not matter
            self.pops[t[1]] = {'nest': d['nest'] == '1', 'trim': d['trim'] == '1', 'rules': []}
        elif t[0] == 'rule':
            if self.pos < len(self.obs) and self.obs[self.pos].startswith('rule-raised'):
                self.fail('C16:add-rule-raised', f'{ln}: adding a rule must not fail (the extra arguments are handed '
                          f'on to the factory as they are): `{self.next()}`')
            d = dict(x.split('=', 1) for x in t[3:])
            exts = [] if d['exts'] == '-' else d['exts'].split(',')
            self.pops[t[1]]['rules'].append((t[2][1:], d['fac'], exts, d['args']))
        elif t[:2] == ['op', 'populate']:
            self.populate(ln, t[1:])
        elif t[:2] == ['op', 'splitext']:
            self.next()
        else:
            super().line(ln)


def oracle(lines, obs):
    return Spec(lines, obs).run()
