"""Executable statement of property C18 — the *oracle* (textbook definitions).

Written from the property text, independent of desper and of the Lean files: vectors are plain
tuples of `fractions.Fraction`, matrices are row-major grids ("the grids the values are written
in").  `oracle(lines, obs)` judges one observation stream of harness/models/math.py:

  * `r <fn> ...`   (exact rational run)  -> compared for EQUALITY with the textbook value
                                            (or with a defining predicate, e.g. A·R = R·A = I);
  * `rf <fn> ...`  (float run, a *test*) -> compared with the textbook value computed from the
                                            exact value of the float inputs, relative tolerance
                                            1e-9 (inputs of magnitude 1e-3 .. 1e3);
  * `re <fn> ...`  (EXACT-DOMAIN run: genuine ints - also beyond 2**53 - and Fractions with non-dyadic
                   denominators went in, nothing was converted) -> every entry must EQUAL the textbook
                   value, and an entry that depends on the arguments must not come back as a float
                   (`~v`): "exactly over the rationals" - a float there means the exact inputs were
                   rounded, whether or not this particular value survived the rounding.  Entries that
                   are the same for all arguments (the 0 / 1 of a translation matrix, the default
                   matrix) may be float literals.  Signature `C18:<fn>:inexact`
                   (`C18:default-matrix-identity:inexact` for the products with the default matrix).
  * `rx ...` lines (stand-in interpretation) and functions the property does not name are not judged.

A violation is {'sig': 'C18:<fn>', 'what': text with the concrete call and the mismatch}.
"""
import math
from fractions import Fraction as F

TOL = 1e-9


class Raised(Exception):
    def __init__(self, name):
        self.name = name


# --------------------------------------------------------------------------- textbook definitions

def identity(n):
    return [[F(int(i == j)) for j in range(n)] for i in range(n)]


def grid(flat, n):
    return [list(flat[i * n:(i + 1) * n]) for i in range(n)]


def flat(g):
    return [x for row in g for x in row]


def matmul(A, B):
    """row by column"""
    n = len(A)
    return [[sum((A[i][k] * B[k][j] for k in range(n)), F(0)) for j in range(n)] for i in range(n)]


def rowvec_times(v, A):
    """the vector, written as a row, times the matrix: (A @ v) in desper's notation, the only
    reading under which (A @ B) @ v == B @ (A @ v) and from_translation(t) moves points by t"""
    n = len(A)
    return [sum((v[i] * A[i][j] for i in range(n)), F(0)) for j in range(n)]


def det(A):
    """Laplace expansion along the first row"""
    n = len(A)
    if n == 1:
        return A[0][0]
    total = F(0)
    for j in range(n):
        minor = [row[:j] + row[j + 1:] for row in A[1:]]
        total += (-1) ** j * A[0][j] * det(minor)
    return total


def translation(v):
    T = identity(4)
    T[3][0], T[3][1], T[3][2] = v
    return T


def clamp(x, lo, hi):
    return max(min(x, hi), lo)


def split(args, sizes):
    out, off = [], 0
    for s in sizes:
        out.append(args[off:off + s])
        off += s
    assert off == len(args), (sizes, len(args))
    return out


def vec_exact(n, op, a):
    """Expected value (kind, values) of an exact vector operation, None if not judged here."""
    k = f'v{n}'
    if op == 'new0':
        return k, [F(0)] * n
    if op.startswith('prop_'):
        return 's', [a['xyzw'.index(op[5:])]]
    if op in ('add', 'sub', 'mul', 'truediv', 'radd', 'dot', 'cross'):
        u, v = split(a, [n, n])
        if op in ('add', 'radd'):
            return k, [x + y for x, y in zip(u, v)]
        if op == 'sub':
            return k, [x - y for x, y in zip(u, v)]
        if op == 'mul':
            return k, [x * y for x, y in zip(u, v)]
        if op == 'truediv':
            if any(y == 0 for y in v):
                raise Raised('ZeroDivisionError')
            return k, [x / y for x, y in zip(u, v)]
        if op == 'dot':
            return 's', [sum((x * y for x, y in zip(u, v)), F(0))]
        if op == 'cross':
            return k, [u[1] * v[2] - u[2] * v[1], u[2] * v[0] - u[0] * v[2], u[0] * v[1] - u[1] * v[0]]
    if op == 'neg':
        return k, [-x for x in a]
    if op == 'radd0':
        return k, list(a)
    if op == 'sum3':
        u, v, w = split(a, [n, n, n])
        return k, [x + y + z for x, y, z in zip(u, v, w)]
    if op == 'lerp':
        u, v, (t,) = split(a, [n, n, 1])
        return k, [x + t * (y - x) for x, y in zip(u, v)]
    if op == 'scale':
        u, (s,) = split(a, [n, 1])
        return k, [x * s for x in u]
    if op == 'clamp':
        u, (lo,), (hi,) = split(a, [n, 1, 1])
        return k, [clamp(x, lo, hi) for x in u]
    return None


def mat_exact(n, op, a):
    k, nn = f'm{n}', n * n
    if op == 'new0':
        return k, flat(identity(n))
    if op in ('add', 'sub'):
        A, B = split(a, [nn, nn])
        return k, [x + y if op == 'add' else x - y for x, y in zip(A, B)]
    if op == 'pos':
        return k, list(a)
    if op == 'neg':
        return k, [-x for x in a]
    if op == 'matmul':
        A, B = split(a, [nn, nn])
        return k, flat(matmul(grid(A, n), grid(B, n)))
    if op == 'matvec':
        A, v = split(a, [nn, n])
        return f'v{n}', rowvec_times(v, grid(A, n))
    if op in ('identity_left', 'identity_right'):     # the default matrix is the identity: 1 * A = A * 1 = A
        return k, list(a)
    if op == 'identity_vec':
        return f'v{n}', list(a)
    if n == 4:
        if op == 'transpose':
            A = grid(a, 4)
            return k, [A[j][i] for i in range(4) for j in range(4)]
        if op == 'from_translation':
            return k, flat(translation(a))
        if op == 'from_scale':
            D = identity(4)
            D[0][0], D[1][1], D[2][2] = a
            return k, flat(D)
        if op == 'translate':
            A, v = split(a, [16, 3])
            return k, flat(matmul(grid(A, 4), translation(v)))
    return None


def check_invert(a, kind, vals, warn):
    if kind != 'm4':
        return f'result kind {kind}'
    A, R = grid(a, 4), grid(vals, 4)
    d = det(A)
    if d == 0:
        if vals != list(a):
            return f'singular matrix (det 0) not returned unchanged: {show(vals)}'
        if not warn:
            return 'singular matrix returned without a warning'
        return None
    if warn:
        return f'warning for a non-singular matrix (det {d})'
    I = identity(4)
    if matmul(A, R) != I:
        return f'A @ ~A is not the identity (det {d}); ~A = {show(vals)}'
    if matmul(R, A) != I:
        return f'~A @ A is not the identity (det {d}); ~A = {show(vals)}'
    return None


def check_ortho(a, kind, vals):
    left, right, bottom, top, near, far = a
    if kind != 'm4':
        return f'result kind {kind}'
    P = grid(vals, 4)
    for i in range(4):
        for j in range(4):
            if i != j and i != 3 and P[i][j] != 0:
                return f'entry ({i},{j}) = {P[i][j]} of an axis-aligned projection is not 0'
    if [P[i][3] for i in range(4)] != [0, 0, 0, 1]:
        return f'last column {[str(P[i][3]) for i in range(4)]} is not (0,0,0,1)'
    lo = rowvec_times([left, bottom, -near, F(1)], P)
    hi = rowvec_times([right, top, -far, F(1)], P)
    if lo != [-1, -1, -1, 1]:
        return f'corner (left,bottom,-near) is mapped to {show(lo)}, not to (-1,-1,-1,1)'
    if hi != [1, 1, 1, 1]:
        return f'corner (right,top,-far) is mapped to {show(hi)}, not to (1,1,1,1)'
    return None


def show(vals):
    return '(' + ', '.join(str(v) for v in vals) + ')'


def judge_exact(fn, a, ob):
    """ob: tokens after `r <fn>`.  Returns None or the mismatch text."""
    raised = ob[1] if ob and ob[0] == 'raised' else None
    warn = bool(ob) and ob[-1] == 'warn'
    kind = None if raised else ob[0]
    vals = None
    if not raised:
        try:
            vals = [F(x) for x in (ob[1:-1] if warn else ob[1:])]
        except ValueError:
            return f'non-rational result {ob}'
    if fn == 'Mat4.invert':
        return f'raised {raised}' if raised else check_invert(a, kind, vals, warn)
    if fn == 'Mat4.orthogonal_projection':
        left, right, bottom, top, near, far = a
        if left == right or bottom == top or near == far:
            return None if raised == 'ZeroDivisionError' else \
                f'degenerate box: expected ZeroDivisionError, got {" ".join(ob)}'
        return f'raised {raised}' if raised else check_ortho(a, kind, vals)
    if fn == 'clamp':
        exp = ('s', [clamp(a[0], a[1], a[2])])
    else:
        cls, _, op = fn.partition('.')
        try:
            if cls.startswith('Vec'):
                exp = vec_exact(int(cls[3]), op, a)
            elif cls.startswith('Mat'):
                exp = mat_exact(int(cls[3]), op, a)
            else:
                exp = None
        except Raised as e:
            return None if raised == e.name else f'expected {e.name}, got {" ".join(ob)}'
    if exp is None:
        return None                      # not named by the property
    if raised:
        return f'raised {raised}, expected {show(exp[1])}'
    if warn:
        return 'unexpected warning'
    if kind != exp[0]:
        return f'result kind {kind}, expected {exp[0]}'
    if vals != exp[1]:
        i = next(i for i, (x, y) in enumerate(zip(vals, exp[1])) if x != y) if len(vals) == len(exp[1]) else -1
        return f'got {show(vals)}, textbook value {show(exp[1])} (first difference at entry {i})'
    return None


# --------------------------------------------------------------------------- exact-domain run

def textbook_entries(fn, a):
    """Textbook value of every entry (list), or None when the function is judged by a predicate."""
    if fn == 'clamp':
        return [clamp(a[0], a[1], a[2])]
    cls, _, op = fn.partition('.')
    if cls.startswith('Vec'):
        exp = vec_exact(int(cls[3]), op, a)
    elif cls.startswith('Mat'):
        exp = mat_exact(int(cls[3]), op, a)
    else:
        exp = None
    return None if exp is None else exp[1]


def constant_entries(fn, a):
    """Positions whose textbook value is the same whatever the arguments are (found by evaluating
    the textbook at the given and at three shifted argument lists)."""
    if fn == 'Mat4.orthogonal_projection':
        return {i for i in range(16) if i not in (0, 5, 10, 12, 13, 14)}
    if fn == 'Mat4.invert':
        return set()
    try:
        base = textbook_entries(fn, a)
        if base is None:
            return set()
        const = set(range(len(base)))
        for k, (p, q) in enumerate(((7, 3), (-5, 11), (13, 17))):
            other = textbook_entries(fn, [x + F(p + 2 * i, q + k) for i, x in enumerate(a)])
            const = {i for i in const if other[i] == base[i]}
        return const
    except (Raised, ZeroDivisionError):
        return set()


def judge_exact_domain(fn, a, ob):
    """ob: tokens after `re <fn>`; `~v` marks an entry that came back as a float."""
    clean = [x[1:] if x.startswith('~') else x for x in ob]
    if any(x in ('nan', 'inf', '-inf') for x in clean):
        return f'non-finite entry in {" ".join(ob)}'
    msg = judge_exact(fn, a, clean)
    if msg:
        return msg
    if not ob or ob[0] == 'raised' or not is_named(fn, a):
        return None
    floats = [i for i, x in enumerate(x for x in ob[1:] if x != 'warn') if x.startswith('~')]
    if not floats:
        return None
    bad = [i for i in floats if i not in constant_entries(fn, a)]
    if not bad:
        return None
    vals = [x for x in ob[1:] if x != 'warn']
    return ('entries %s came back as floats (%s) although every argument is an exact int / Fraction: '
            'the arguments were rounded on the way (a float literal such as 1.0 took part); exact '
            'arguments must give exact results' % (bad, ', '.join(vals[i] for i in bad[:4])))


def is_named(fn, a):
    """Does the textbook above have an opinion about the function?"""
    if fn in ('Mat4.invert', 'Mat4.orthogonal_projection'):
        return True
    try:
        return textbook_entries(fn, a) is not None
    except (Raised, ZeroDivisionError):
        return True


# --------------------------------------------------------------------------- float tests

def close(x, y, scale):
    return abs(x - y) <= TOL * max(scale, abs(y))


def judge_float(fn, a, ob):
    """a: float inputs; ob: tokens after `rf <fn>`."""
    if not ob:
        return None                      # the model's echo
    cls, _, op = fn.partition('.')
    if not cls.startswith('Vec') or op not in ('abs', 'mag', 'distance', 'heading', 'from_polar',
                                               'normalize', 'from_magnitude', 'from_heading',
                                               'rotate', 'limit'):
        return None
    if ob[0] == 'raised':
        return f'raised {ob[1]}'
    n = int(cls[3])
    try:
        r = [float(x) for x in ob[1:] if x != 'warn']
    except ValueError:
        return f'non-numeric result {ob}'
    if any(not math.isfinite(x) for x in r):
        return f'non-finite result {r}'
    ex = [F(x) for x in a]

    def norm(v):                         # textbook length, from the exact value of the inputs
        return math.sqrt(float(sum((x * x for x in v), F(0))))

    def vec_close(got, exp, what):
        sc = max([abs(e) for e in exp] + [0.0])
        if len(got) != len(exp):
            return f'{what}: {len(got)} components'
        for g, e in zip(got, exp):
            if not close(g, e, sc):
                return f'{what}: got {got}, textbook value {exp} (rel. tol {TOL})'
        return None

    if op in ('abs', 'mag'):
        return vec_close(r, [norm(ex)], 'length')
    if op == 'distance':
        u, v = ex[:n], ex[n:]
        return vec_close(r, [norm([y - x for x, y in zip(u, v)])], 'distance')
    if op == 'heading':
        L = norm(ex)
        if L == 0:
            return None if r == [0.0] else f'heading of the zero vector is {r}'
        if not -math.pi <= r[0] <= math.pi:
            return f'heading {r[0]} outside [-pi, pi]'
        return vec_close([L * math.cos(r[0]), L * math.sin(r[0])], [a[0], a[1]],
                         'vector rebuilt from magnitude and heading')
    if op == 'from_polar':
        m, t = a
        return vec_close(r, [m * math.cos(t), m * math.sin(t)], 'from_polar')
    v = ex[:n]
    L = norm(v)
    vf = a[:n]
    if op == 'normalize':
        if L == 0:
            return None if r == vf else f'normalize of the zero vector is {r}'
        m = vec_close(r, [x / L for x in vf], 'normalize')
        if m:
            return m
        return None if close(norm([F(x) for x in r]), 1.0, 1.0) else f'length {norm([F(x) for x in r])} is not 1'
    if op == 'from_magnitude':
        m = a[n]
        if L == 0:
            return None if all(x == 0 for x in r) else f'from_magnitude of the zero vector is {r}'
        e = vec_close(r, [x * m / L for x in vf], 'from_magnitude')
        if e:
            return e
        return None if close(norm([F(x) for x in r]), abs(m), abs(m)) else \
            f'length {norm([F(x) for x in r])} is not |{m}|'
    if op == 'from_heading':
        h = a[n]
        return vec_close(r, [L * math.cos(h), L * math.sin(h)], 'from_heading')
    if op == 'rotate':
        t = a[n]
        x, y = vf
        return vec_close(r, [x * math.cos(t) - y * math.sin(t), x * math.sin(t) + y * math.cos(t)],
                         'rotate (textbook rotation matrix)')
    if op == 'limit':
        m = a[n]
        if m < 0:
            return None                  # the property speaks of a maximum length m >= 0
        S, m2 = sum((x * x for x in v), F(0)), F(m) * F(m)
        Lr = norm([F(x) for x in r])
        if Lr > m * (1 + TOL):
            return (f'limit({m}) returned a vector of length {Lr} > {m} '
                    f'(input {vf}, length {L}; result {r})')
        if float(S) <= float(m2) * (1 - 2 * TOL):
            return None if r == vf else f'vector of length {L} <= {m} was changed to {r}'
        if r == vf:
            return None                  # unchanged and (checked above) not longer than m
        return vec_close(r, [x * m / L for x in vf], 'limit (same direction, length m)')
    return None


# --------------------------------------------------------------------------- swizzling

def judge_swizzle(cls, attrs, a, ob):
    n = int(cls[3])
    attrs = '' if attrs == '-' else attrs
    letters = 'xyzw'[:n]
    ok = 2 <= len(attrs) <= 4 and all(c in letters for c in attrs)
    if not ok:
        return None if ob[:2] == ['raised', 'AttributeError'] else \
            f'expected AttributeError, got {" ".join(ob)}'
    exp = [a['xyzw'.index(c)] for c in attrs]
    if ob[0] != f'v{len(attrs)}':
        return f'expected a Vec{len(attrs)}, got {" ".join(ob)}'
    try:
        vals = [F(x) for x in ob[1:]]
    except ValueError:
        return f'non-rational result {ob}'
    return None if vals == exp else f'got {show(vals)}, textbook value {show(exp)}'


# --------------------------------------------------------------------------- entry point

def num(tok):
    """`!v`: a user number object worth v - the textbook sees the number"""
    return F(tok[1:] if tok.startswith('!') else tok)


def oracle(lines, obs):
    out = []
    lines = [ln for ln in lines if ln.split()]
    if len(obs) != len(lines):
        if obs and obs[0] in ('hang', 'bad-op'):
            return [{'sig': 'C18:protocol', 'what': f'run ended with {obs[0]}'}]
        return [{'sig': 'C18:protocol', 'what': f'{len(lines)} calls but {len(obs)} observations'}]
    store = {}          # operand objects of the scenario: id -> current values (a list edited in place)
    for ln, ob in zip(lines, obs):
        t, o = ln.split(), ob.split()
        msg = None
        try:
            if t[0] == 'obj':
                store[t[1]] = [num(x) for x in t[2:]]
                continue
            if t[0] == 'set':
                if t[1] in store and int(t[2]) < len(store[t[1]]):
                    store[t[1]][int(t[2])] = num(t[3])
                continue
            if t[0] == 'call' and o[0] == 'r':
                if any(x.startswith('@') and x[1:] not in store for x in t[2:]):
                    continue                                   # dangling reference (a shrunk scenario)
                # the value of `A op B` depends on the values the operands have NOW, whatever object
                # carries them and whatever was computed before
                a = [v for x in t[2:] for v in (store[x[1:]] if x.startswith('@') else [num(x)])]
                msg = judge_exact(t[1], a, o[2:])
                sig = t[1]
                if msg and any(x.startswith('@') for x in t[2:]):
                    msg += '  [operands %s are list objects edited in place earlier in the scenario]' % \
                        ', '.join(x for x in t[2:] if x.startswith('@'))
            elif t[0] == 'callf' and o[0] == 'rf':
                msg = judge_float(t[1], [float(x) for x in t[2:]], o[2:])
                sig = t[1]
            elif t[0] == 'swz' and o[:2] == ['r', 'swz']:
                msg = judge_swizzle(t[1], t[2], [F(x) for x in t[3:]], o[4:])
                sig = f'{t[1]}.swizzle'
            elif t[0] == 'calle' and o[0] == 're':
                msg = judge_exact_domain(t[1], [F(x) for x in t[2:]], o[2:])
                # "with the default matrix as identity" is one clause of the property
                sig = ('default-matrix-identity' if '.identity_' in t[1] else t[1]) + ':inexact'
            elif t[0] == 'callx' and o[0] == 'rx':
                continue
            else:
                msg, sig = f'unexpected observation {ob!r}', 'protocol'
        except (ValueError, IndexError, AssertionError) as e:
            msg, sig = f'malformed line/observation ({type(e).__name__}: {e}): {ob!r}', 'protocol'
        if msg:
            out.append({'sig': f'C18:{sig}', 'what': f'`{ln}`: {msg}'})
    return out
