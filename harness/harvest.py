"""Turn every stored seeded change into a regression scenario of its target check's corpus.

    python3 harness/harvest.py [workers]

For each /verif/seeded/<id>/ : apply the patch in a scratch worktree of /repo HEAD, run the target check
with VERIF_SEED = 0, 1, 2, … until it reports a violation, take the scenario of the replay file (the
shrunk failing input, or the first diverging scenario when no failing input was found), make sure the
UNCHANGED tree passes it (`./check <pid> --replay`), and store it as corpus/<pid>/seed-<id>.scn.  Corpus
scenarios run first on every run, so a change of this kind is reported whatever the random seed.
Scenarios of secondary streams (another model than the plug-in's main one) are not harvested.
"""
import concurrent.futures
import importlib
import json
import os
import pathlib
import re
import subprocess
import sys
import threading

VERIF = pathlib.Path(__file__).resolve().parent.parent
sys.path.insert(0, str(VERIF))


def sh(cmd, cwd=None, env=None, timeout=3600):
    p = subprocess.run(cmd, shell=True, cwd=cwd, env=env, stdout=subprocess.PIPE, stderr=subprocess.STDOUT,
                       text=True, timeout=timeout)
    return p.returncode, p.stdout


def harvest(seed_id, wt):
    d = VERIF / 'seeded' / seed_id
    meta = json.loads((d / 'meta.json').read_text())
    pid = meta['property']
    out_file = VERIF / 'corpus' / pid / f'seed-{seed_id}.scn'
    if list((VERIF / 'corpus' / pid).rglob(f'seed-{seed_id}.scn')):
        return seed_id, 'exists'
    src = (VERIF / 'harness' / 'props' / f'{pid}.py').read_text()
    mm = re.search(r"^MODEL = '(\w+)'", src, flags=re.M)
    main_model = mm.group(1) if mm else 'world'
    sh('git checkout -q -- . && git clean -qfd', cwd=wt)
    rc, out = sh(f'git apply {d / "patch.diff"}', cwd=wt)
    if rc != 0:
        return seed_id, 'patch does not apply'
    try:
        for seed in range(4):
            ev = f'/tmp/harvest-ev/{seed_id}'
            env = dict(os.environ, DESPER_REPO=wt, VERIF_SEED=str(seed), VERIF_EVIDENCE_DIR=ev,
                       VERIF_SHRINK_BUDGET='150', VERIF_NO_COVERAGE='1')
            rc, out = sh(f'./check {pid} --tier quick', cwd=VERIF, env=env)
            viol = [ln for ln in out.splitlines() if ln.startswith('VIOLATION')]
            if rc != 1 or not viol:
                continue
            replay = viol[0].split('replay=')[1].split()[0]
            payload = json.loads(pathlib.Path(replay).read_text())
            scen = payload.get('scenario')
            sub = {('C10', 'world'): 'world', ('C19', 'logic'): 'proto'}.get((pid, payload.get('model')))
            if scen and pid == 'C02' and any(ln.startswith('op forget') for ln in scen):
                sub = 'forget'
            if payload.get('model') != main_model and sub is None:
                continue
            if sub:
                out_file = VERIF / 'corpus' / pid / sub / f'seed-{seed_id}.scn'
            kind = 'failing input'
            if not scen:
                firsts = [b['first']['scenario'] for b in payload.get('broken', []) if b.get('kind') == 'correspondence'
                          and b.get('first', {}).get('scenario') and not b.get('stream')]
                if not firsts:
                    continue
                scen, kind = firsts[0], 'diverging scenario'
            tmp = pathlib.Path(f'/tmp/harvest-ev/{seed_id}.scn')
            tmp.write_text('\n'.join(scen) + '\n')
            rc2, out2 = sh(f'./check {pid} --replay {tmp}', cwd=VERIF,
                           env=dict(os.environ, VERIF_EVIDENCE_DIR=ev))
            if rc2 != 0:
                return seed_id, f'scenario fails on the unchanged tree?! {out2[-300:]}'
            what = (payload.get('sig') or '') + ' ' + (payload.get('what') or '')
            out_file.parent.mkdir(parents=True, exist_ok=True)
            out_file.write_text(f'# regression scenario for the seeded change {seed_id} ({kind}, seed {seed}): '
                                f'{what.strip()[:300]}\n' + '\n'.join(scen) + '\n')
            return seed_id, f'harvested ({kind}, seed {seed})'
        return seed_id, 'not caught with a main-stream scenario for seeds 0-3'
    finally:
        sh('git checkout -q -- . && git clean -qfd', cwd=wt)


def main():
    workers = int(sys.argv[1]) if len(sys.argv) > 1 else 6
    ids = sorted(p.name for p in (VERIF / 'seeded').iterdir() if (p / 'meta.json').exists())
    mathy = [i for i in ids if 'math.py' in (VERIF / 'seeded' / i / 'patch.diff').read_text()]
    rest = [i for i in ids if i not in mathy]
    wts = []
    for k in range(workers):
        wt = f'/tmp/harvwt{k}'
        sh(f'git -C /repo worktree remove --force {wt}')
        rc, out = sh(f'git -C /repo worktree add -q --detach {wt} HEAD')
        assert rc == 0, out
        wts.append(wt)
    free, lock = list(wts), threading.Lock()

    def run(seed_id):
        with lock:
            wt = free.pop()
        try:
            r = harvest(seed_id, wt)
        except Exception as e:      # noqa
            r = (seed_id, 'error ' + repr(e)[:200])
        finally:
            with lock:
                free.append(wt)
        print(*r, flush=True)
        return r
    try:
        with concurrent.futures.ThreadPoolExecutor(max_workers=workers) as ex:
            list(ex.map(run, rest))
        for sid in mathy:
            run(sid)
        sh('./check C18 --tier quick', cwd=VERIF, env=dict(os.environ, VERIF_EVIDENCE_DIR='/tmp/seed-evidence'))
    finally:
        for wt in wts:
            sh(f'git -C /repo worktree remove --force {wt}')


if __name__ == '__main__':
    main()
