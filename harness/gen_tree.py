"""Seeded scenario generators for the `tree` model (C11, C12, C17)."""
from harness.models.tree import SINGLETON_KINDS, ODD_EQ_KINDS

# (names of Handle / ResourceMap attributes are ordinary resource names too)
IDENT = ['a', 'b', 'c', 'x', 'y', 'res1', '_p', 'class', 'load', 'clear', 'parent', 'key', 'maps', 'cached']
OTHER = ['', 'a.b', '1x', 'x-y', '@', 'a b'.replace(' ', '+')]
MANGLED = ['__x', '__a1']          # identifiers that Python mangles inside a class body
FRESH_KINDS = ['list', 'dict', 'obj'] + ODD_EQ_KINDS


class Gen:
    def __init__(self, rng, names=None, nmaps=None, nhandles=None, alias_p=0.12, odd_p=0.5, fail_p=0.15,
                 eq_p=0.3, split_p=0.25, setter_p=0.0, loader_p=0.0):
        self.rng = rng
        self.lines = []
        if names is None:
            k = rng.choice([2, 3, 3, 3, 4])
            pool = IDENT if rng.random() < 0.5 else IDENT + OTHER
            names = rng.sample(pool, k)
        self.names = names
        self.nmaps = nmaps if nmaps is not None else rng.randint(1, 4)
        self.nhandles = nhandles if nhandles is not None else rng.randint(1, 7)
        self.alias_p = alias_p
        self.maps = [f'm{i}' for i in range(self.nmaps)]
        self.handles = [f'h{i}' for i in range(self.nhandles)]
        self.unused_h = list(self.handles)
        self.unused_m = self.maps[1:]
        self.bound = []
        self.snaps = []
        self.paths = []           # keys that were assigned at some time (to aim queries at)
        self.fails = {}
        singles = rng.sample(SINGLETON_KINDS, len(SINGLETON_KINDS))
        # user subclasses with value semantics: distinct objects that compare equal (and hash alike, or are
        # unhashable), falsy objects - the library must go by identity
        self.eq_mode = rng.random() < eq_p
        self.no_alias = self.eq_mode and rng.random() < 0.5      # then every value is stored at most once
        if self.no_alias:
            self.alias_p = 0.0
        # a key delimiter other than '/' (subclass attribute or instance attribute), and then names containing '/'
        self.split = (rng.choice('|;'), rng.choice(['sub', 'inst'])) if rng.random() < split_p else None
        self.slash_names = rng.sample(['t~g.png', 'a~b', '~x'], rng.randint(1, 2)) if self.split else []
        # user subclasses whose `parent` / `key` are properties: the setters run scripted code that uses the tree
        # again; loaders that use the tree while they load
        self.setters = rng.random() < setter_p and not self.split
        self.loaders = rng.random() < loader_p and not self.split
        self.prop = set()
        if self.setters:
            cand = self.handles + self.maps[1:]
            self.prop = set(rng.sample(cand, min(len(cand), rng.randint(1, 3))))
        for m in self.maps:
            opts = ''
            if self.split:
                opts += f' split={self.split[0]}{self.split[1]}'
            opts += self.value_opts(maps=True)
            if m in self.prop:
                opts += ' prop=1'
            self.lines.append(f'newmap {m}{opts}')
        # at least one loaded value with odd equality (== True for everything, raising __eq__/__bool__,
        # equal-but-not-identical twins, duck-typed equality) in most scenarios
        odd = rng.randrange(len(self.handles)) if self.handles and rng.random() < odd_p else -1
        self.odd = self.handles[odd] if odd >= 0 else None
        for i, h in enumerate(self.handles):
            if i == odd:
                kind = rng.choice(ODD_EQ_KINDS)
            elif singles and rng.random() < 0.5:
                kind = singles.pop()
            else:
                kind = rng.choice(FRESH_KINDS)
            # loaders that raise on scripted invocations (the 1st, the 1st and 2nd, the 2nd, ...)
            fail = ''
            if rng.random() < fail_p or (i == odd and rng.random() < 2 * fail_p):
                fail = ' fail=' + rng.choice(['1', '1', '1,2', '2', '1,3', '2,3', '3'])
            self.fails[h] = fail
            prop = ' prop=1' if h in self.prop else ''
            self.lines.append(f'newhandle {h} {kind}{fail}{self.value_opts()}{prop}')
        self.script_user_code()

    def script_user_code(self):
        """`react` lines: what the k-th run of a property setter / of a loader does (operations of the same kind
        as the top-level ones, executed silently).  Handles reserved for scripts (`spares`) are never used by
        top-level assignments, so a script's assignment is no aliasing."""
        rng = self.rng
        if not (self.setters or self.loaders):
            return
        n0 = len(self.handles)
        self.spares = [f'h{n0 + i}' for i in range(rng.randint(1, 4))]
        for h in self.spares:
            self.lines.append(f'newhandle {h} {rng.choice(["list", "obj", "dict"])}')
        spares = list(self.spares)
        dirs = ['unloaded', 'notes']

        def read(root):
            k = rng.choice(['get', 'getitem', 'chain'])
            return f'{k} {root} {self.tok([rng.choice(self.names) for _ in range(rng.randint(1, 3))])}'

        def script(own, loader):
            ops = []
            for _ in range(rng.randint(1, 3)):
                root = self.maps[0] if rng.random() < 0.7 else rng.choice(self.maps)
                r = rng.random()
                if r < 0.35 and spares:
                    # file a note in a sub-map of the map (created on the way if need be)
                    ops.append(f'set {root} {self.tok([rng.choice(dirs), rng.choice(self.names)])} {spares.pop()}')
                elif r < 0.42 and spares:
                    ops.append(f'set {root} {self.tok([rng.choice(self.names)])} {spares.pop()}')
                elif r < 0.65:
                    ops.append(read(root))
                elif r < 0.72:
                    ops.append(f'clear {rng.choice(self.maps)}')
                elif r < 0.80:
                    ops.append(f'snap {root}')
                elif loader and r < 0.93:
                    ops.append(f'hclear {own if rng.random() < 0.6 else rng.choice(self.handles)}')
                elif loader:
                    others = [h for h in self.handles if h != own]
                    if others:
                        ops.append(f'call {rng.choice(others)}')
                else:
                    ops.append(read(root))
            return ' ; '.join(ops)
        self.focus = None
        if self.setters and spares and rng.random() < 0.6:
            # the classic: an object that, when it is detached (second assignment of `parent`: the first one was
            # the attachment), files a note in a sub-map of the map it is being removed from
            self.focus = sorted(self.prop)[0]
            self.lines.append(f'react parent {self.focus} 1 : set {self.maps[0]} '
                              f'{self.tok([rng.choice(dirs), rng.choice(self.names)])} {spares.pop()}')
        if self.setters:
            for x in sorted(self.prop):
                for hook in ('parent', 'key'):
                    for k in range(3):
                        if x == self.focus and hook == 'parent' and k == 1:
                            continue
                        if rng.random() < (0.6 if hook == 'parent' else 0.25):
                            sc = script(x, False)
                            if sc:
                                self.lines.append(f'react {hook} {x} {k} : {sc}')
        if self.loaders:
            for h in rng.sample(self.handles, min(len(self.handles), rng.randint(1, 3))):
                for k in range(2):
                    if rng.random() < 0.7:
                        sc = script(h, True)
                        if sc:
                            self.lines.append(f'react load {h} {k} : {sc}')

    def value_opts(self, maps=False):
        rng = self.rng
        if not self.eq_mode:
            return ' falsy=1' if rng.random() < 0.05 else ''
        r = rng.random()
        out = ''
        # ResourceMap.clear() tests `child.parent == self`: with value-equal MAPS and a child stored in two of
        # them (aliasing, outside Fresh) it detaches a child of the other map - reported as a witness; maps get
        # value equality only in scenarios without aliasing
        if maps and not self.no_alias:
            r = 1.0
        if r < (0.35 if maps else 0.6):
            out += ' eq=A'
        elif r < (0.5 if maps else 0.85):
            out += ' ueq=A'
        if rng.random() < 0.3:
            out += ' falsy=1'
        return out

    def emit(self, s):
        self.lines.append('op ' + s)

    # ---- ingredients
    def path(self, maxlen=4):
        p = self.path0(maxlen)
        # a name containing '/' is only used directly under a declared map (which has the other delimiter);
        # maps that __setitem__ creates on the way are plain ResourceMaps with the '/' delimiter
        if self.slash_names and self.rng.random() < 0.4:
            p = [self.rng.choice(self.slash_names)] + p[1:]
        return p

    def path0(self, maxlen=4):
        rng = self.rng
        if self.paths and rng.random() < 0.6:
            p = list(rng.choice(self.paths))
            r = rng.random()
            if r < 0.25 and len(p) > 1:
                p = p[:rng.randint(1, len(p) - 1)]
            elif r < 0.45 and len(p) < maxlen:
                p = p + [rng.choice(self.names)]
            elif r < 0.55:
                p[rng.randrange(len(p))] = rng.choice(self.names)
            return p
        n = rng.choice([1, 1, 1, 2, 2, 3, 4])
        return [rng.choice(self.names) for _ in range(min(n, maxlen))]

    def tok(self, p):
        return ':' + '/'.join(p)

    def root(self):
        rng = self.rng
        if self.bound and rng.random() < 0.2:
            return rng.choice(self.bound)
        return self.maps[0] if rng.random() < 0.6 else rng.choice(self.maps)

    def value(self, map_p=0.25):
        rng = self.rng
        if self.no_alias:
            if self.unused_m and rng.random() < map_p:
                return self.unused_m.pop(rng.randrange(len(self.unused_m)))
            return self.unused_h.pop(rng.randrange(len(self.unused_h))) if self.unused_h else None
        if rng.random() < map_p:
            if self.unused_m and rng.random() > self.alias_p:
                return self.unused_m.pop(rng.randrange(len(self.unused_m)))
            if rng.random() < 0.5:
                return rng.choice(self.maps + self.bound)
        if self.unused_h and rng.random() > self.alias_p:
            return self.unused_h.pop(rng.randrange(len(self.unused_h)))
        return rng.choice(self.handles)

    # ---- operations
    def op_set(self, root=None, p=None, v=None):
        root = root or self.root()
        p = p or self.path()
        v = v or self.value()
        if v is None:
            return
        self.paths.append(p)
        self.emit(f'set {root} {self.tok(p)} {v}')

    def op_reject(self):
        """an assignment that must be refused: a value that is neither a map nor a handle (under a key whose
        prefix is a handle, under a fresh deep key, under an existing key), or a key that is not a string"""
        rng = self.rng
        root = self.root()
        if rng.random() < 0.2:
            self.emit(f'setkey {root} k{rng.randint(0, 3)} {rng.choice(self.handles + self.maps)}')
            return
        r = rng.random()
        if self.paths and r < 0.45:
            p = list(rng.choice(self.paths)) + [rng.choice(self.names) for _ in range(rng.randint(1, 2))]
        elif self.paths and r < 0.65:
            p = list(rng.choice(self.paths))
        else:
            p = [rng.choice(self.names) for _ in range(rng.randint(2, 4))]
        self.emit(f'set {root} {self.tok(p[:4])} x{rng.randint(0, 6)}')

    def op_layer(self):
        self.emit(f'layer {self.root()}')

    def op_clear(self):
        self.emit(f'clear {self.root()}')

    def op_bind(self):
        if self.split:
            return          # a map reached through get() may be a plain one: its delimiter is '/'
        name = f'm{self.nmaps + len(self.bound)}'
        # the binding succeeds only if the path names a map; either way the name is used up
        self.emit(f'bind {name} {self.root()} {self.tok(self.path(3))}')
        self.bound.append(name)

    def op_query(self, kinds=('get', 'getitem', 'chain')):
        k = self.rng.choice(kinds)
        self.emit(f'{k} {self.root()} {self.tok(self.path())}')

    def op_equiv(self):
        """the three spellings of one path, side by side"""
        root, p = self.root(), self.tok(self.path())
        for k in self.rng.sample(['get', 'getitem', 'chain'], 3):
            self.emit(f'{k} {root} {p}')

    def op_handle(self, kinds=('call', 'hclear', 'cached', 'stat')):
        self.emit(f'{self.rng.choice(kinds)} {self.rng.choice(self.handles)}')

    def op_snap(self, root=None):
        name = f's{len(self.snaps)}'
        self.emit(f'snap {name} {root or self.root()}')
        self.snaps.append(name)
        return name

    def op_static(self, kinds=('sgetitem', 'sgetattr', 'sget', 'ssetattr', 'sdelattr', 'sdump')):
        if not self.snaps:
            return self.op_snap()
        k = self.rng.choice(kinds)
        s = self.rng.choice(self.snaps)
        if k == 'sdump':
            self.emit(f'sdump {s}')
        else:
            self.emit(f'{k} {s} {self.tok(self.path())}')

    def observe(self):
        for m in self.maps[:2]:
            self.emit(f'dump {m}')
        self.emit('links')

    def stats(self):
        for h in self.handles:
            self.emit(f'stat {h}')


def gen_c11(rng, fresh_only=False):
    g = Gen(rng, alias_p=0.0 if fresh_only else 0.12, setter_p=0.2, loader_p=0.05)
    focus = getattr(g, 'focus', None)
    if focus is not None:
        # the object with the scripted setter is a direct child of the map that will be cleared
        (g.unused_h if focus in g.unused_h else g.unused_m if focus in g.unused_m else []).remove(focus) \
            if (focus in g.unused_h or focus in g.unused_m) else None
        g.op_set(root=g.maps[0], p=[rng.choice(g.names)], v=focus)
        g.observe()
    for _ in range(rng.randint(1, 22)):
        r = rng.random()
        if r < 0.07:
            # refused in the middle of the history; the tree is observed afterwards
            g.op_reject()
            g.observe()
            if g.paths:
                g.emit(f'get {g.maps[0]} {g.tok(rng.choice(g.paths))}')
        elif r < 0.42:
            g.op_set()
            g.observe()
        elif r < 0.50:
            g.op_layer()
            # the populator pushes a scope in order to shadow: aim the next assignment at a known key
            if g.paths and rng.random() < 0.7:
                g.op_set(v=g.value(map_p=0.3))
            g.observe()
        elif r < 0.58:
            g.op_clear()
            g.observe()
        elif r < 0.62:
            g.op_bind()
        elif r < 0.80:
            g.op_equiv()
        elif r < 0.95:
            g.op_query()
        else:
            g.op_handle(('hclear', 'call'))
    if focus is not None and rng.random() < 0.8:
        g.emit(f'clear {g.maps[0]}')
    g.observe()
    return g.lines


def gen_c12(rng):
    g = Gen(rng, nhandles=rng.randint(1, 6), alias_p=0.1, odd_p=0.85, fail_p=0.3, loader_p=0.3, setter_p=0.03)
    for _ in range(rng.randint(1, 6)):
        g.op_set(v=g.value(map_p=0.1))
    if rng.random() < 0.4:
        g.op_layer()
        g.op_set()
    # the handle with the odd value sits at a known key, below the root of the first snapshot
    odd_path = None
    if g.odd is not None and g.odd in g.unused_h:
        g.unused_h.remove(g.odd)
        odd_path = g.path(3)
        g.op_set(root=g.maps[0], p=odd_path, v=g.odd)
    for _ in range(rng.randint(0, 2)):
        g.op_snap()
    if odd_path is not None:
        snap = g.op_snap(g.maps[0])

        def all_paths():
            acc = [f'call {g.odd}', f'getitem {g.maps[0]} {g.tok(odd_path)}', f'chain {g.maps[0]} {g.tok(odd_path)}',
                   f'sgetitem {snap} {g.tok(odd_path)}', f'sgetattr {snap} {g.tok(odd_path)}']
            rng.shuffle(acc)
            g.emit(f'cached {g.odd}')
            for a in acc:
                g.emit(a)
                if rng.random() < 0.4:
                    g.emit(f'stat {g.odd}')
            g.emit(f'cached {g.odd}')
            g.emit(f'stat {g.odd}')
        all_paths()
        g.emit(f'hclear {g.odd}')
        all_paths()
    for _ in range(rng.randint(3, 30)):
        r = rng.random()
        if r < 0.22:
            g.op_handle(('call',))
        elif r < 0.40:
            g.op_handle(('hclear',))
        elif r < 0.50:
            g.op_handle(('cached', 'stat'))
        elif r < 0.72:
            g.op_query(('getitem', 'chain'))
        elif r < 0.92 and g.snaps:
            g.op_static(('sgetitem', 'sgetattr'))
        elif r < 0.95:
            g.op_set(v=g.value(map_p=0.1))
        elif r < 0.97:
            g.op_snap()
        else:
            g.op_clear()
        if rng.random() < 0.3:
            g.stats()
    g.stats()
    for h in g.handles:
        g.emit(f'cached {h}')
    return g.lines


def gen_c17(rng):
    k = rng.choice([2, 3, 3, 4])
    r = rng.random()
    pool = IDENT if r < 0.35 else IDENT + OTHER if r < 0.8 else IDENT + OTHER + MANGLED
    g = Gen(rng, names=rng.sample(pool, k), alias_p=0.05, odd_p=0.7, loader_p=0.25)
    for _ in range(rng.randint(1, 9)):
        r = rng.random()
        if r < 0.8:
            g.op_set()
        elif r < 0.95:
            g.op_layer()
            g.op_set()
        else:
            g.op_clear()
    g.op_snap(g.maps[0])
    g.emit('sdump s0')
    for _ in range(rng.randint(3, 22)):
        r = rng.random()
        if r < 0.45:
            # the same path through the snapshot and through the map
            p = g.tok(g.path())
            s = rng.choice(g.snaps)
            g.emit(f'{rng.choice(["sgetitem", "sgetattr"])} {s} {p}')
            if rng.random() < 0.5:
                g.emit(f'chain {g.maps[0]} {p}')
            if rng.random() < 0.5:
                g.emit(f'sget {s} {p}')
        elif r < 0.60:
            g.op_static(('sget',))
        elif r < 0.78:
            g.op_static(('ssetattr', 'sdelattr'))
            g.emit(f'sdump {rng.choice(g.snaps)}')
        elif r < 0.84:
            g.op_handle(('hclear', 'call', 'stat'))
        elif r < 0.92:
            # the map moves on, the snapshot does not
            if rng.random() < 0.7:
                g.op_set()
            else:
                g.op_clear()
            g.emit(f'sdump {rng.choice(g.snaps)}')
        else:
            g.op_snap()
            g.emit(f'sdump {g.snaps[-1]}')
    g.emit(f'sdump {rng.choice(g.snaps)}')
    g.stats()
    return g.lines


def exhaustive_c11():
    """every history of length <= 3 over a tiny universe, the whole tree observed after each step"""
    import itertools
    keys = [':a', ':b', ':a/a', ':a/b', ':b/a']
    vals = ['h0', 'h1', 'm1']
    steps = [f'set m0 {k} {v}' for k in keys for v in vals] + ['layer m0', 'clear m0', 'set m1 :a h1']
    head = ['newmap m0', 'newmap m1', 'newhandle h0 none', 'newhandle h1 list']
    for n in (1, 2, 3):
        for seq in itertools.product(steps, repeat=n):
            lines = list(head)
            for st in seq:
                lines.append('op ' + st)
                lines.append('op dump m0')
            lines += ['op links', 'op get m0 :a/a', 'op getitem m0 :a/a', 'op chain m0 :a/a', 'op get m0 :a']
            yield lines
