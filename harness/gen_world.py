"""Seeded scenario generator for the `world` model (C01, C02, C05, C06, C07, C19)."""

EVS = ['e0', 'e1']
ARGS = ['_', '1', '0.N', 'sa.2', '1|k=2']
ENTS = [1, 2, 3, 4, 5, 1001, 1002]


def gen_classes(rng, n_comp=(1, 6), n_proc=(0, 4), handlers=0.5, ctrl=0.15, diamonds=True, upd=0.2):
    """Component and processor class DAGs (whatever Python's C3 accepts)."""
    lines, kinds, maps, pyc, bases_of = [], [], [], [], []
    nc = rng.randint(*n_comp)
    npr = rng.randint(*n_proc)
    plan = ['c'] * nc + [('upd' if rng.random() < upd else 'p') for _ in range(npr)]
    for cid, fam0 in enumerate(plan):
        fam = 'c' if fam0 == 'c' else 'p'
        same = [k for k in range(cid) if (kinds[k] in ('c', 'ctrl') if fam == 'c' else kinds[k] == fam0)]
        bases = []
        if same and rng.random() < 0.65:
            bases = rng.sample(same, min(len(same), rng.choice([1, 1, 1, 2, 2, 3] if diamonds else [1])))
        # at most one base lineage may carry __events__ (DESIGN §2); keep bases in an order C3 accepts
        hb = [b for b in bases if maps[b] is not None]
        bases = [b for b in bases if maps[b] is None] + hb[:1]
        rng.shuffle(bases)
        while True:
            try:
                type(f'K{cid}', tuple(pyc[b] for b in bases), {})
                break
            except TypeError:
                bases = bases[:-1]
        kind = fam
        if fam == 'c':
            # a Controller subclass keeps Controller.on_add reachable: only controller bases
            if any(kinds[b] == 'ctrl' for b in bases):
                bases = [b for b in bases if kinds[b] == 'ctrl']
                kind = 'ctrl'
            elif not bases and rng.random() < ctrl:
                kind = 'ctrl'
        else:
            kind = fam0
        cls = type(f'K{cid}', tuple(pyc[b] for b in bases), {})
        inh = next((maps[b] for b in bases if maps[b] is not None), None)
        if inh is None and kind == 'ctrl':
            inh = {'on_add': 'on_add'}
        names, kw = [], {}
        if rng.random() < handlers:
            pool = ['on_add', 'on_remove'] + EVS + (['on_update'] if rng.random() < 0.5 else [])
            names = rng.sample(pool, rng.randint(0, 3))
            for ev in rng.sample(pool, rng.randint(0, 2)):
                if not (kind == 'ctrl' and ev == 'on_add'):
                    kw[ev] = rng.choice(['m0', 'm1'])
        m = inh
        if names or kw:
            m = dict(inh or {})
            m.update({x: x for x in names})
            m.update(kw)
        prio = rng.randint(-2, 2) if fam == 'p' else 0
        lines.append('class %d kind=%s bases=%s names=%s kw=%s prio=%d' % (
            cid, kind, ','.join(map(str, bases)) or '-', ','.join(names) or '-',
            ','.join(f'{k}:{v}' for k, v in kw.items()) or '-', prio))
        kinds.append(kind)
        maps.append(m)
        pyc.append(cls)
        bases_of.append(bases)
    return lines, kinds, maps


def gen_scenario(rng, ops_range=(1, 25), w=None, raises=0.0, dup_in_create=0.0, clear_disabled=True,
                 raise_plain=False, reacts=0.0, forget=0.0, traits=0.0, decoy=0.0, reenter=0.0,
                 **ckw):
    w = {**dict(create=4, add=5, remove=4, delete=3, process=2, clear=0.5, addproc=2, rmproc=1, enable=1.5,
                dispatch=1.5), **(w or {})}
    lines, kinds, maps = gen_classes(rng, **ckw)
    ctys = [i for i, k in enumerate(kinds) if k in ('c', 'ctrl')]
    ptys = [i for i, k in enumerate(kinds) if k in ('p', 'upd')]
    if traits and rng.random() < traits:
        # plain (non-handler) classes whose instances are value objects: all equal, hash alike or are
        # unhashable, or are falsy — the world must go by identity and by `is None`
        for t, m in enumerate(maps):
            # handler classes included: a dataclass component that listens to events is a value object too
            if rng.random() < 0.6:
                tr = rng.sample(['eq', 'falsy'], rng.randint(1, 2)) if kinds[t] in ('p', 'upd') else \
                    rng.sample(['eq', 'unhash', 'falsy'], rng.randint(1, 2))
                if 'unhash' in tr and 'eq' in tr:
                    tr.remove('eq')
                if kinds[t] == 'c' and rng.random() < 0.3:
                    tr.append('seq')        # (taken up by the runner for classes without declared bases)
                lines.append(f'trait {t} ' + ' '.join(tr))
    if decoy and rng.random() < decoy:
        lines.append(f'decoy {rng.randint(0, 999)}')
    objs, free = {}, []
    oid = 0
    for t in ctys:
        for _ in range(rng.randint(1, 3)):
            objs[oid] = t
            oid += 1
    for t in ptys:
        for _ in range(rng.randint(1, 2)):
            objs[oid] = t
            oid += 1
    if raise_plain and rng.random() < 0.75:
        # keep a single on_update listener object, so that a failure scripted into its on_update callback
        # does not depend on the (unmodelled) order in which a set of listeners is visited
        ups = [o for o, t in objs.items() if maps[t] and 'on_update' in maps[t]]
        if ups:
            keep = rng.choice(ups)
            objs = {o: t for o, t in objs.items() if o == keep or o not in ups}
    for o, t in objs.items():
        lines.append(f'obj {o} class={t}')
    comp_objs = [o for o, t in objs.items() if t in ctys]
    proc_objs = [o for o, t in objs.items() if t in ptys]
    if raises and rng.random() < raises:
        plain = EVS + ['on_update']
        listeners = {ev: [o for o in objs if maps[objs[o]] and ev in maps[objs[o]]] for ev in plain}

        def order_safe(o, meth):
            # Python's set order of several listeners of one plain event is not modelled (listeners are
            # passive): a scripted failure inside such a delivery would make that order observable, so a
            # method reached through a plain event may raise only when its object is the event's sole listener
            m = maps[objs[o]] or {}
            return all(listeners[ev] == [o] for ev in plain if m.get(ev) == meth)
        upd_safe = [o for o in listeners['on_update'] if order_safe(o, maps[objs[o]]['on_update'])]
        if raise_plain and upd_safe and rng.random() < 0.7:
            o = rng.choice(upd_safe)
            lines.append(f'raise {o} {maps[objs[o]]["on_update"]} {rng.randint(0, 2)} {rng.choice(["E0", "Quit"])}')
        for _ in range(rng.randint(1, 2)):
            o = rng.choice(list(objs))
            m = maps[objs[o]]
            meths = (['process'] if objs[o] in ptys else []) + (
                [m[e] for e in ('on_add', 'on_remove') + ((('on_update',) + tuple(EVS)) if raise_plain else ())
                 if m and e in m])
            meths = [x for x in meths if order_safe(o, x)]
            if meths:
                lines.append(f'raise {o} {rng.choice(meths)} {rng.randint(0, 2 if raise_plain else 1)} '
                             f'{rng.choice(["E0", "Quit"])}')
    if reacts and rng.random() < reacts:
        # callbacks that call world.delete_entity(e) themselves (deferred deletion from inside on_remove,
        # on_add, a processor or a plain event callback)
        for _ in range(rng.randint(1, 3)):
            o = rng.choice(list(objs))
            m = maps[objs[o]] or {}
            pool = ([m['on_remove']] * 3 if 'on_remove' in m else []) + [v for v in m.values()] + (
                ['process'] if objs[o] in ptys else [])
            if pool:
                lines.append(f'react {o} {rng.choice(pool)} {rng.randint(0, 1)} delete {rng.choice(ENTS)}')
    if reenter and rng.random() < reenter:
        # callbacks that call back into the SAME world: add / remove / delete / create / remove_processor
        # (mode B also add_processor, then only from lifecycle callbacks: a processor added from inside
        # process() would be inserted into the very list the frame is iterating)
        plain = EVS + ['on_update']
        listeners = {ev: [o for o in objs if maps[objs[o]] and ev in maps[objs[o]]] for ev in plain}
        mode_b = rng.random() < 0.3
        cobjs = [o for o, t in objs.items() if t in ctys]
        pobjs = [o for o, t in objs.items() if t in ptys]
        for _ in range(rng.randint(1, 3)):
            o = rng.choice(list(objs))
            m = maps[objs[o]] or {}
            life = [m[e] for e in ('on_remove', 'on_remove', 'on_add') if e in m]
            plain_targets = {m[ev] for ev in plain if ev in m}
            pool = [x for x in life if mode_b is False or x not in plain_targets]
            if not mode_b:
                pool += ['process'] if objs[o] in ptys else []
                pool += [m[ev] for ev in plain if ev in m and listeners[ev] == [o]]
            pool = [x for x in pool if all(listeners[ev] == [o] for ev in plain if m.get(ev) == x)]
            if not pool:
                continue
            acts = []
            meth = rng.choice(pool)
            # half of the nested calls are about the very entity the callback is told about (written 0)
            ent = lambda: '0' if meth != 'process' and rng.random() < 0.5 else str(rng.choice(ENTS))   # noqa
            for _ in range(rng.randint(1, 2)):
                k = rng.choice(['add', 'add', 'remove', 'remove', 'delete', 'delete', 'create', 'rmproc'] +
                               (['addproc', 'addproc'] if mode_b else []))
                if meth == 'process' and rng.random() < 0.5 and objs[o] in ptys:
                    k = 'rmproc-self'
                if k == 'add' and cobjs:
                    acts.append(f'add {ent()} {rng.choice(cobjs)}')
                elif k == 'remove' and ctys:
                    acts.append(f'remove {ent()} {rng.choice(ctys)}')
                elif k == 'delete':
                    acts.append(f'delete {ent()} {rng.randint(0, 1)}')
                elif k == 'rmproc-self':
                    acts.append(f'rmproc {objs[o]}')
                elif k == 'create' and cobjs:
                    acts.append(f'create auto {rng.choice(cobjs)}')
                elif k == 'rmproc' and ptys:
                    acts.append(f'rmproc {rng.choice(ptys)}')
                elif k == 'addproc' and pobjs:
                    acts.append(f'addproc {rng.choice(pobjs)} -')
            if acts:
                lines.append(f'react {o} {meth} {rng.choice([0, 0, 0, 1])} do ' + ' ; '.join(acts))
    lines.append('ents ' + ','.join(map(str, ENTS)))
    attached = {}       # obj -> entity (generator-side approximation, to respect OneOwner)
    live = set()
    enabled = True
    kindsw = [k for k in w for _ in range(int(w[k] * 2))]
    ops = []
    for _ in range(rng.randint(*ops_range)):
        if reenter and rng.random() < 0.12:
            # nested calls made while postponed callbacks are being released
            enabled = not enabled
            ops += [f'enable {int(enabled)}', 'snap']
        if forget and rng.random() < forget and (comp_objs or proc_objs):
            o = rng.choice(comp_objs + proc_objs)
            ops.append(f'forget {o}')
            comp_objs = [x for x in comp_objs if x != o]
            proc_objs = [x for x in proc_objs if x != o]
        k = rng.choice(kindsw)
        freec = [o for o in comp_objs if o not in attached]
        if k == 'create':
            cs = []
            used = set()
            for o in rng.sample(freec, min(len(freec), rng.randint(0, 3))):
                if objs[o] in used and rng.random() >= dup_in_create:
                    continue
                used.add(objs[o])
                cs.append(o)
            ident = 'auto' if rng.random() < 0.6 else str(rng.choice(ENTS))
            ops.append(f'create {ident} {",".join(map(str, cs)) or "-"}')
            for o in cs:
                attached[o] = True
        elif k == 'add' and freec:
            o = rng.choice(freec)
            ops.append(f'add {rng.choice(ENTS)} {o}')
            attached[o] = True
        elif k == 'remove' and ctys:
            ops.append(f'remove {rng.choice(ENTS)} {rng.choice(ctys)}')
            attached = {}      # lose track: objects may be free again (re-attachment is generated)
        elif k == 'delete':
            ops.append(f'delete {rng.choice(ENTS)} {int(rng.random() < 0.35)}')
        elif k == 'process':
            ops.append(f'process {rng.randint(0, 9)}')
            attached = {}
        elif k == 'clear':
            if clear_disabled or enabled:
                ops.append('clear')
                attached = {}
                enabled = True
        elif k == 'addproc' and proc_objs:
            p = rng.choice(proc_objs)
            ops.append(f'addproc {p} {rng.choice(["-", "-", "0", "-1", "2", "1", "-3"])}')
        elif k == 'rmproc' and ptys:
            ops.append(f'rmproc {rng.choice(ptys)}')
        elif k == 'enable':
            enabled = bool(rng.randint(0, 1))
            ops.append(f'enable {int(enabled)}')
        elif k == 'dispatch':
            ops.append(f'dispatch {rng.choice(EVS + ["on_update"])} {rng.choice(ARGS)}')
        else:
            continue
        ops.append('snap')
    ops += ['enable 1', 'snap']
    return lines + ['op ' + o for o in ops]


def gen_reentrant_targeted(rng):
    """Small structured histories around callbacks that call back into the world about the very things
    the operation in progress is working on: the entity being stripped or swept, the component being
    replaced, a sibling of it, the same component type on another entity, the processors of the frame."""
    A, B, C, P, Q = 0, 1, 2, 3, 4
    lines = [
        f'class {A} kind=c bases=- names=on_remove,on_add kw=- prio=0',
        f'class {B} kind=c bases=- names={rng.choice(["on_remove", "-", "on_remove,on_add"])} kw=- prio=0',
        f'class {C} kind=c bases={rng.choice(["-", str(A)])} names=- kw=- prio=0',
        f'class {P} kind=p bases=- names={rng.choice(["-", "on_remove"])} kw=- prio={rng.randint(-1, 1)}',
        f'class {Q} kind={rng.choice(["p", "upd"])} bases=- names={rng.choice(["-", "on_add,on_remove"])} kw=- '
        f'prio={rng.randint(-1, 2)}',
    ]
    objs = {0: A, 1: A, 2: A, 3: B, 4: B, 5: C, 6: P, 7: Q, 8: Q}
    lines += [f'obj {o} class={t}' for o, t in objs.items()]
    shape = rng.choice(['replace', 'replace', 'strip', 'strip', 'procs', 'procs'])
    who, meth = 0, 'on_remove'
    if shape == 'replace':
        act = rng.choice(['add 0 3', 'add 0 2', 'add 2 2', 'add 3 2', 'remove 0 1', 'delete 0 1', 'create auto 2',
                          'add 0 5', 'delete 0 0'])
        ops = [rng.choice(['create auto 0', 'create auto 0,3', 'create 2 0']), 'snap']
        if rng.random() < 0.4:
            ops += ['create auto 5', 'snap']
        e = 2 if ops[0].startswith('create 2') else 1
        ops += [f'add {e} 1', 'snap', rng.choice([f'remove {e} 0', f'delete {e} 1', 'process 1', f'add {e} 0']), 'snap']
    elif shape == 'strip':
        act = rng.choice(['remove 0 1', 'add 0 4', 'delete 0 1', 'add 0 1', 'remove 0 2', 'add 2 1', 'delete 0 0',
                          'create auto 1', 'delete 2 0', 'delete 2 0', 'delete 2 1'])
        ops = [rng.choice(['create auto 0,3,5', 'create auto 3,0', 'create auto 0,3']), 'snap']
        if rng.random() < 0.6:
            # a second entity the callback may mark for deletion while the first one is being stripped / swept
            ops += ['create auto 4', 'snap']
        ops += rng.choice([['delete 1 1'], ['delete 1 0', 'process 1'], ['clear'], ['remove 1 0', 'snap', 'delete 1 1'],
                           ['delete 1 0', 'snap', 'clear'], ['delete 1 0', 'delete 2 0', 'snap', 'process 1']])
        ops += ['snap', 'process 2', 'snap', 'process 3', 'snap']
    else:
        if rng.random() < 0.5:
            act = rng.choice([f'rmproc {P}', f'rmproc {Q}', 'addproc 8 -', f'rmproc {Q} ; addproc 8 -'])
            ops = ['addproc 6 -', 'addproc 7 -', 'snap', 'create auto 0', 'snap',
                   rng.choice(['delete 1 0', 'remove 1 0', 'delete 1 1']), 'snap', 'process 1', 'snap', 'process 2',
                   'snap']
        else:
            who, meth = 6, 'process'
            act = rng.choice([f'rmproc {P}', f'rmproc {Q}', f'rmproc {P} ; rmproc {Q}', 'delete 1 0', 'add 1 1'])
            ops = ['addproc 6 -', 'addproc 7 -', 'snap', 'create auto 0', 'snap', 'process 1', 'snap', 'process 2',
                   'snap', 'process 3', 'snap']
    lines.append(f'react {who} {meth} {rng.choice([0, 0, 1])} do {act}')
    if rng.random() < 0.3:
        lines.append(f'react {rng.choice([1, 3])} on_remove 0 do {rng.choice(["add 0 4", "remove 0 0", "delete 2 0"])}')
    lines.append('ents ' + ','.join(map(str, ENTS)))
    return lines + ['op ' + o for o in ops + ['enable 1', 'snap']]
