#!/usr/bin/env python3
"""Tracing translator  desper/math.py  ->  Lean 4   (property C18, DESIGN.md §3.2).

The real functions of ``desper.math`` (imported from ``$DESPER_REPO``, default /repo) are executed
on symbolic scalars (`Sym`): every arithmetic operator builds an expression node, every
truth test (`if d:`, `det == 0`, `> max * max`, the comparisons inside `min`/`max`, `assert`)
asks the tracer for a decision; the function is re-run once per decision vector and the runs are
folded into an `if c then .. else ..` tree.  `desper.math._math` is replaced, while tracing, by a
shim whose sqrt/sin/cos/tan/atan2/radians/pi build nodes, `_warnings` by a recorder.

Two files are written (only when their text changes, so that lake does not rebuild):

  lean/DesperProofs/Generated/MathGen.lean   definitions generic over a field K (ℝ where
                                             sqrt/sin/cos/atan2 occur), for the theorems
  lean/DesperModel/MathExec.lean             the same definitions over core `Rat` + the line
                                             protocol `runScenario`, linked into the driver

What is trusted here (and validated by execution on every check run, see props/C18.py):
  * Python's + - * / ** and unary - on numbers are the field operations; `x ** n` (n a literal
    natural number) is the n-th power; int / float literals denote their exact rational value in
    the Lean definitions - but a FLOAT literal stays a distinct node: Python rounds every exact
    operand it meets, so for each result entry the translator derives (`pytypes`) whether Python
    returns a float for exact (int / Fraction) arguments, emits it as `<fn>.floats`, lists the
    argument-dependent float entries of exact functions as `float_contaminated`, and the check
    compares the prediction with the types the real functions return (`calle` lines);
  * the truth value of a number is `x ≠ 0`; < <= > >= == != are the order / equality relations;
  * `/` by zero raises ZeroDivisionError (recorded per path as the `status` of a call; in the
    generic definitions `x / 0 = 0` as in any Lean field — theorems carry explicit hypotheses);
  * every translated function is PURE - checked, not assumed: harness/math_purity.py audits the
    source of every function that ran during the trace (module-level / class-level state written by
    some function, attributes written on arguments, memoising decorators, closures); an impure
    function breaks the translation obligation of every API entry that reaches it;
  * a failed `assert` is a precondition (pruned from the value, kept in the executable status);
  * the shim: math.sqrt ↦ Real.sqrt, sin/cos/tan ↦ Real.sin/cos/tan, atan2 y x ↦ Complex.arg(x+iy),
    radians x ↦ x·(π/180), pi ↦ Real.pi.
"""
from __future__ import annotations

import hashlib
import math
import os
import pathlib
import sys
from fractions import Fraction

VERIF = pathlib.Path(__file__).resolve().parent.parent
if str(VERIF) not in sys.path:
    sys.path.insert(0, str(VERIF))

from harness import math_api, math_purity  # noqa: E402
from harness.math_api import API, KIND_LEN, fields  # noqa: E402

GEN_PATH = VERIF / 'lean' / 'DesperProofs' / 'Generated' / 'MathGen.lean'
EXEC_PATH = VERIF / 'lean' / 'DesperModel' / 'MathExec.lean'
MAX_LEAVES = 256
FLAT_ABOVE = 4        # more paths than this: emit per-component conditionals instead of one tree


class Untranslatable(Exception):
    """The code left the fragment the translator understands."""


# --------------------------------------------------------------------------- expression nodes

class Node:
    __slots__ = ('op', 'args', 'id')

    def __init__(self, op, args, id_):
        self.op, self.args, self.id = op, args, id_

    def __repr__(self):
        return f'<{self.op} {self.args}>'


_INTERN = {}


def mk(op, *args):
    key = (op,) + tuple(('#', a.id) if isinstance(a, Node) else a for a in args)
    n = _INTERN.get(key)
    if n is None:
        n = Node(op, args, len(_INTERN))
        _INTERN[key] = n
    return n


def const(v, isfloat=False):
    """A literal.  Float literals (1.0, 0.0, 2.0 ...) denote their exact rational value in the Lean
    definitions but stay distinguishable: Python turns every exact operand they meet into a float
    (see `pytypes`)."""
    return mk('const', Fraction(v), bool(isfloat))


def coerce(o):
    """Node of a Python operand, or None when it is not a number."""
    if isinstance(o, Sym):
        return o.n
    if isinstance(o, (int, Fraction)):
        return const(o)
    if isinstance(o, float):
        if not math.isfinite(o):
            raise Untranslatable(f'non-finite float literal {o!r}')
        return const(Fraction(o), True)
    return None


class Tracer:
    def __init__(self, prefix):
        self.prefix = prefix
        self.events = []      # ('div', node) | ('dec', cond-node, bool) | ('warn',)
        self.ndec = 0

    def decide(self, cond):
        i = self.ndec
        v = self.prefix[i] if i < len(self.prefix) else True
        self.ndec += 1
        self.events.append(('dec', cond, v))
        return v


CUR = None       # the tracer of the run in progress


def _cur():
    if CUR is None:
        raise Untranslatable('symbolic value used outside a traced run')
    return CUR


class Cond:
    __slots__ = ('n',)

    def __init__(self, n):
        self.n = n

    def __bool__(self):
        return _cur().decide(self.n)


def _bin(op):
    def f(self, other):
        b = coerce(other)
        if b is None:
            return NotImplemented
        if op == 'div':
            _cur().events.append(('div', b))
        return Sym(mk(op, self.n, b))

    def r(self, other):
        a = coerce(other)
        if a is None:
            return NotImplemented
        if op == 'div':
            _cur().events.append(('div', self.n))
        return Sym(mk(op, a, self.n))
    return f, r


def _cmp(op):
    def f(self, other):
        b = coerce(other)
        if b is None:
            return NotImplemented
        return Cond(mk(op, self.n, b))
    return f


class Sym:
    """A symbolic scalar.  Everything Python can do to a number either builds a node, asks the
    tracer for a decision, or raises Untranslatable."""
    __slots__ = ('n',)

    def __init__(self, n):
        self.n = n

    __add__, __radd__ = _bin('add')
    __sub__, __rsub__ = _bin('sub')
    __mul__, __rmul__ = _bin('mul')
    __truediv__, __rtruediv__ = _bin('div')
    __lt__, __le__, __gt__, __ge__ = _cmp('lt'), _cmp('le'), _cmp('gt'), _cmp('ge')
    __eq__, __ne__ = _cmp('eq'), _cmp('ne')

    def __hash__(self):
        return id(self)

    def __neg__(self):
        return Sym(mk('neg', self.n))

    def __pos__(self):
        return self

    def __abs__(self):
        return Sym(mk('abs', self.n))

    def __pow__(self, e, mod=None):
        if mod is not None or type(e) is not int or e < 0:
            raise Untranslatable(f'power with exponent {e!r}')
        return Sym(mk('pow', self.n, e))

    def __rpow__(self, b):
        raise Untranslatable('symbolic exponent')

    def __bool__(self):
        return _cur().decide(mk('ne', self.n, const(0)))

    def _no(self, *a, **k):
        raise Untranslatable('operation outside the translated fragment '
                             '(round / float / int / floordiv / mod / index)')

    __round__ = __float__ = __int__ = __index__ = __floordiv__ = __rfloordiv__ = _no
    __mod__ = __rmod__ = __trunc__ = __floor__ = __ceil__ = __divmod__ = _no

    def __repr__(self):
        return f'Sym({self.n.id})'


class MathShim:
    """Stands in for the `math` module inside desper.math while tracing."""

    def __init__(self):
        self.pi = Sym(mk('pi'))

    def _fn(name, arity):
        def f(self, *a):
            if len(a) != arity:
                raise TypeError(f'{name} expects {arity} arguments')
            ns = [coerce(x) for x in a]
            if any(n is None for n in ns):
                raise TypeError(f'{name} of a non-number')
            return Sym(mk('fn', name, *ns))
        return f

    sqrt, sin, cos, tan, radians = (_fn('sqrt', 1), _fn('sin', 1), _fn('cos', 1), _fn('tan', 1),
                                    _fn('radians', 1))
    atan2 = _fn('atan2', 2)

    def __getattr__(self, name):
        raise Untranslatable(f'math.{name} is not covered by the shim')


class WarnShim:
    def warn(self, *a, **k):
        _cur().events.append(('warn',))

    def __getattr__(self, name):
        raise Untranslatable(f'warnings.{name} is not covered by the shim')


# --------------------------------------------------------------------------- decision trees

class Leaf:
    def __init__(self, divs, warn, exc, kind, nodes):
        self.divs, self.warn, self.exc, self.kind, self.nodes = divs, warn, exc, kind, nodes


class If:
    def __init__(self, divs, cond, t, f):
        self.divs, self.cond, self.t, self.f = divs, cond, t, f


def explore(M, call):
    """Run `call` once per decision vector; returns the list of runs (events, outcome)."""
    global CUR
    runs, stack = [], [[]]
    while stack:
        prefix = stack.pop()
        tr = Tracer(prefix)
        CUR = tr
        exc = value = None
        try:
            value = call()
        except Untranslatable:
            raise
        except RecursionError:
            raise Untranslatable('recursion limit')
        except Exception as e:          # noqa: BLE001 - the exception is the observable
            exc = type(e).__name__
        finally:
            CUR = None
        decs = [e[2] for e in tr.events if e[0] == 'dec']
        for i in range(len(prefix), len(decs)):
            stack.append(decs[:i] + [False])
        if exc is None:
            cl = math_api.classify(M, value, lambda x: coerce(x) is not None)
            if cl is None:
                raise Untranslatable(f'result {type(value).__name__} is not a scalar/vector/matrix')
            out = (None, cl[0], [coerce(x) for x in cl[1]])
        else:
            out = (exc, None, None)
        runs.append((tr.events, out))
        if len(runs) > MAX_LEAVES:
            raise Untranslatable(f'more than {MAX_LEAVES} paths')
    return runs


def build_tree(runs, pos=0, warned=False):
    ev0 = runs[0][0]
    divs, j = [], pos
    while j < len(ev0) and ev0[j][0] != 'dec':
        if ev0[j][0] == 'div':
            divs.append(ev0[j][1])
        elif ev0[j][0] == 'warn':
            warned = True
        j += 1
    for ev, _ in runs[1:]:
        if ev[pos:j] != ev0[pos:j] or (j < len(ev0)) != (j < len(ev)) or \
                (j < len(ev0) and ev[j][1] is not ev0[j][1]):
            raise Untranslatable('trace is not a function of the decisions (non-deterministic code)')
    if j >= len(ev0):
        if len(runs) != 1:
            raise Untranslatable('two runs with the same decisions')
        exc, kind, nodes = runs[0][1]
        return Leaf(divs, warned, exc, kind, nodes)
    cond = ev0[j][1]
    t = [r for r in runs if r[0][j][2]]
    f = [r for r in runs if not r[0][j][2]]
    if not t or not f:
        raise Untranslatable('decision explored on one side only')
    return If(divs, cond, build_tree(t, j + 1, warned), build_tree(f, j + 1, warned))


def prune(tree, pre, path=()):
    """Value tree without the raising leaves; `pre` collects the conditions that were assumed."""
    if isinstance(tree, Leaf):
        return None if tree.exc else tree
    t = prune(tree.t, pre, path + ((tree.cond, True),))
    f = prune(tree.f, pre, path + ((tree.cond, False),))
    if t is None and f is None:
        return None
    if t is None or f is None:
        pre.append((path, tree.cond, t is not None, first_exc(tree.f if f is None else tree.t)))
        return t if f is None else f
    return If(tree.divs, tree.cond, t, f)


def flatten(tree, i):
    """Component i of the value as one expression with local `ite` nodes (`ite c a a = a`)."""
    if isinstance(tree, Leaf):
        return tree.nodes[i]
    t, f = flatten(tree.t, i), flatten(tree.f, i)
    return t if t is f else mk('ite', tree.cond, t, f)


def first_exc(tree):
    while isinstance(tree, If):
        tree = tree.t
    return tree.exc


def leaves(tree):
    if tree is None:
        return
    if isinstance(tree, Leaf):
        yield tree
    else:
        yield from leaves(tree.t)
        yield from leaves(tree.f)


def conds(tree):
    """Decision nodes in pre-order."""
    if isinstance(tree, If):
        yield tree.cond
        yield from conds(tree.t)
        yield from conds(tree.f)


def all_nodes(roots):
    seen, out, stack = set(), [], list(roots)
    while stack:
        n = stack.pop()
        if n.id in seen:
            continue
        seen.add(n.id)
        out.append(n)
        stack.extend(a for a in n.args if isinstance(a, Node))
    return out


# --------------------------------------------------------------------------- Python result types
#
# What Python's numeric tower does to EXACT inputs (int / fractions.Fraction): an entry of a result
# is a float - i.e. the exact inputs were rounded - as soon as a float literal, a math function or
# an int / int division takes part in computing it.  For every node two boolean expressions over
# the argument tags `t[i]` (true = the i-th scalar argument is a Python int, false = a Fraction):
# F "is a float", I "is an int".  Emitted into MathExec.lean as `<fn>.floats` and compared, on every
# run, with the types the real functions return on Fractions and big ints (`calle` lines).

def b_or(a, b):
    if a is True or b is True:
        return True
    if a is False:
        return b
    if b is False:
        return a
    return a if a == b else ('or', a, b)


def b_and(a, b):
    if a is False or b is False:
        return False
    if a is True:
        return b
    if b is True:
        return a
    return a if a == b else ('and', a, b)


def b_ite(c, a, b):
    return a if a == b else ('ite', c, a, b)


def pytypes(n, varpos, memo):
    """(F, I) of a node."""
    r = memo.get(n.id)
    if r is not None:
        return r
    op, a = n.op, n.args
    if op == 'var':
        r = (False, ('t', varpos[a[0]]))
    elif op == 'const':
        r = (a[1], (not a[1]) and a[0].denominator == 1)
    elif op in ('add', 'sub', 'mul'):
        (fa, ia), (fb, ib) = pytypes(a[0], varpos, memo), pytypes(a[1], varpos, memo)
        r = (b_or(fa, fb), b_and(ia, ib))
    elif op in ('neg', 'abs', 'pow'):
        r = pytypes(a[0], varpos, memo)
    elif op == 'div':
        (fa, ia), (fb, ib) = pytypes(a[0], varpos, memo), pytypes(a[1], varpos, memo)
        r = (b_or(b_or(fa, fb), b_and(ia, ib)), False)
    elif op == 'ite':
        (fa, ia), (fb, ib) = pytypes(a[1], varpos, memo), pytypes(a[2], varpos, memo)
        r = (b_ite(a[0], fa, fb), b_ite(a[0], ia, ib))
    elif op in ('fn', 'pi'):
        r = (True, False)
    else:
        raise Untranslatable(f'no Python type for node {op}')
    memo[n.id] = r
    return r


def b_text(P, b):
    if b is True:
        return 'true'
    if b is False:
        return 'false'
    if b[0] == 't':
        return f't[{b[1]}]!'
    if b[0] == 'or':
        return f'({b_text(P, b[1])} || {b_text(P, b[2])})'
    if b[0] == 'and':
        return f'({b_text(P, b[1])} && {b_text(P, b[2])})'
    return f'(if {P.e(b[1])} then {b_text(P, b[2])} else {b_text(P, b[3])})'


def depends_on_input(n):
    return any(m.op == 'var' for m in all_nodes([n]))


# --------------------------------------------------------------------------- Lean printing

REL = {'lt': '<', 'le': '≤', 'gt': '>', 'ge': '≥', 'eq': '=', 'ne': '≠'}
ARITH = {'add': '+', 'sub': '-', 'mul': '*', 'div': '/'}
REAL_FN = {'sqrt': 'Real.sqrt', 'sin': 'Real.sin', 'cos': 'Real.cos', 'tan': 'Real.tan',
           'atan2': 'atan2', 'radians': 'radians'}
EXEC_FN = {'sqrt': 'sqrtX', 'sin': 'sinX', 'cos': 'cosX', 'tan': 'tanX', 'atan2': 'atan2X',
           'radians': 'radiansX'}


class Printer:
    """ty: 'K', 'ℝ' or 'Rat'."""

    def __init__(self, ty, roots=None):
        """roots: when given, sub-expressions used more than once below them become `let`s."""
        self.ty = ty
        self.memo = {}
        self.lets = []
        if roots is not None:
            self._share(roots)

    def _share(self, roots):
        rc = {}
        for r in roots:
            rc[r.id] = rc.get(r.id, 0) + 1
        ns = all_nodes(roots)
        for n in ns:
            for a in n.args:
                if isinstance(a, Node):
                    rc[a.id] = rc.get(a.id, 0) + 1
        shared = [n for n in ns if rc.get(n.id, 0) > 1 and n.op not in ('var', 'const', 'pi')
                  and n.op not in REL]
        for k, n in enumerate(sorted(shared, key=lambda n: n.id)):   # ids are topological
            text = self._e(n)
            self.lets.append(f'let t{k} : {self.ty} := {text}')
            self.memo[n.id] = f't{k}'

    def let_block(self, ind):
        return ''.join(' ' * ind + l + '\n' for l in self.lets)

    def lit(self, q):
        ty = self.ty
        if q.denominator == 1:
            return f'({q.numerator} : {ty})'
        return f'(({q.numerator} : {ty}) / ({q.denominator} : {ty}))'

    def e(self, n):
        s = self.memo.get(n.id)
        if s is None:
            s = self.memo[n.id] = self._e(n)
        return s

    def _e(self, n):
        op, a = n.op, n.args
        if op == 'var':
            return a[0]
        if op == 'const':
            return self.lit(a[0])
        if op in ARITH:
            return f'({self.e(a[0])} {ARITH[op]} {self.e(a[1])})'
        if op == 'neg':
            return f'(-{self.e(a[0])})'
        if op == 'pow':
            return f'({self.e(a[0])} ^ {a[1]})'
        if op == 'abs':
            return f'(absX {self.e(a[0])})' if self.ty == 'Rat' else f'|{self.e(a[0])}|'
        if op == 'pi':
            return 'piX' if self.ty == 'Rat' else 'Real.pi'
        if op == 'fn':
            name = (EXEC_FN if self.ty == 'Rat' else REAL_FN)[a[0]]
            return '(' + name + ' ' + ' '.join(self.e(x) for x in a[1:]) + ')'
        if op in REL:
            return f'{self.e(a[0])} {REL[op]} {self.e(a[1])}'
        if op == 'ite':
            return f'(if {self.e(a[0])} then {self.e(a[1])} else {self.e(a[2])})'
        raise Untranslatable(f'cannot print node {op}')


STRUCT = {'v2': 'Vec2', 'v3': 'Vec3', 'v4': 'Vec4', 'm3': 'Mat3', 'm4': 'Mat4'}


def lean_type(kind, ty):
    if kind == 's':
        return ty
    if kind in STRUCT:
        return f'{STRUCT[kind]} {ty}'
    return ' × '.join([ty] * KIND_LEN[kind])


def value_text(P, kind, nodes, ind):
    if kind == 's':
        return P.e(nodes[0])
    parts = [P.e(n) for n in nodes]
    if kind in STRUCT:
        o, c = '⟨', '⟩'
    else:
        o, c = '(', ')'
    if sum(len(p) for p in parts) < 90:
        return o + ', '.join(parts) + c
    sep = ',\n' + ' ' * (ind + 1)
    return o + sep.join(parts) + c


def tree_text(P, tree, ind, leaf_text):
    pad = ' ' * ind
    if isinstance(tree, Leaf):
        return pad + leaf_text(tree, ind)
    return (f'{pad}if {P.e(tree.cond)} then\n{tree_text(P, tree.t, ind + 2, leaf_text)}\n'
            f'{pad}else\n{tree_text(P, tree.f, ind + 2, leaf_text)}')


def features(nodes):
    f = set()
    for n in all_nodes(nodes):
        if n.op in ('lt', 'le', 'gt', 'ge') or n.op == 'abs':
            f.add('order')
        elif n.op in ('eq', 'ne'):
            f.add('eq')
        elif n.op in ('fn', 'pi'):
            f.add('real')
        elif n.op in ('add', 'sub', 'mul', 'div', 'neg', 'pow', 'const'):
            f.add('field')
    return f


def binder(feat):
    """(type name, binder text) for the generic definitions."""
    if 'real' in feat:
        return 'ℝ', ''
    if 'order' in feat and 'field' in feat:
        return 'K', '{K : Type} [Field K] [LinearOrder K] [IsStrictOrderedRing K] '
    if 'order' in feat:
        return 'K', '{K : Type} [LinearOrder K] '
    if 'eq' in feat:
        return 'K', '{K : Type} [Field K] [DecidableEq K] '
    if 'field' in feat:
        return 'K', '{K : Type} [Field K] '
    return 'K', '{K : Type} '


EXC_CODE = {'ZeroDivisionError': 1, 'AssertionError': 2}


# --------------------------------------------------------------------------- translating one entry

class Fn:
    """Result of tracing one API entry."""

    def __init__(self, entry):
        self.entry = entry
        self.name = entry.name
        self.tree = None            # full tree (with raising leaves)
        self.value = None           # pruned tree, None when every path raises
        self.pre = []
        self.error = None           # reason when untranslatable
        self.kind = None
        self.varpos = {}            # variable name -> index among the flat scalar arguments
        self.reached = set()        # (co_name, co_firstlineno) of the math.py code that ran in the trace
        self.impure = {}            # qualname -> findings of the purity audit, for the reached functions
        self.is_tr = False

    @property
    def params(self):
        return self.entry.params


class Reached:
    """Code objects of the traced module that ran inside the `with` block (sys.setprofile)."""

    def __init__(self, filename):
        self.filename = filename
        self.codes = set()

    def __enter__(self):
        def prof(frame, event, arg):
            if event == 'call' and frame.f_code.co_filename == self.filename:
                self.codes.add((frame.f_code.co_name, frame.f_code.co_firstlineno))
        self._old = sys.getprofile()
        sys.setprofile(prof)
        return self

    def __exit__(self, *a):
        sys.setprofile(self._old)


def trace_entry(M, entry):
    with Reached(M.__file__) as reached:
        fn = _trace_entry(M, entry)
    fn.reached = reached.codes
    return fn


def _trace_entry(M, entry):
    fn = Fn(entry)
    args = []
    for pname, kind in entry.params:
        names = [pname if kind == 's' else f'{pname}.{f}' for f in fields(kind)]
        for nm in names:
            fn.varpos[nm] = len(fn.varpos)
        ls = [Sym(mk('var', nm)) for nm in names]
        args.append(math_api.build(M, kind, ls))
    try:
        runs = explore(M, lambda: entry.fn(M, *args))
        fn.tree = build_tree(runs)
        fn.value = prune(fn.tree, fn.pre)
        kinds = {lf.kind for lf in leaves(fn.value)}
        if len(kinds) > 1:
            raise Untranslatable(f'paths return different kinds {sorted(kinds)}')
        fn.kind = kinds.pop() if kinds else None
        # many paths (component-wise clamp: 4^n): push the decisions into the components
        nl = sum(1 for _ in leaves(fn.value))
        if nl > FLAT_ABOVE and not any(lf.warn for lf in leaves(fn.value)):
            fn.value = Leaf([], False, None, fn.kind,
                            [flatten(fn.value, i) for i in range(KIND_LEN[fn.kind])])
        tr = 'real' in features([n for lf in leaves(fn.value) for n in lf.nodes] + list(conds(fn.value)))
        fn.is_tr = tr
    except Untranslatable as e:
        fn.error = str(e)
        fn.tree = fn.value = None
    return fn


def params_text(fn, ty):
    return ' '.join(f'({p} : {lean_type(k, ty)})' for p, k in fn.params)


def args_text(fn):
    return ''.join(' ' + p for p, _ in fn.params)


def cond_desc(P, c, pol):
    return P.e(c) if pol else f'¬({P.e(c)})'


def emit_generic(fn):
    """Text of the generic definition(s) of one function for MathGen.lean."""
    if fn.value is None:
        why = fn.error or f'every path raises {first_exc(fn.tree)}'
        return f'-- {fn.name}: not translated ({why})\n'
    roots = [n for lf in leaves(fn.value) for n in lf.nodes] + list(conds(fn.value))
    ty, bind = binder(features(roots))
    P = Printer(ty, None if fn.entry.named else roots)
    out = []
    for path, c, pol, exc in fn.pre:
        where = ' ∧ '.join(cond_desc(P, pc, pp) for pc, pp in path)
        out.append(f'-- precondition ({exc} otherwise){": under " + where if where else ""}: '
                   f'{cond_desc(P, c, pol)}')
    fc = float_contaminated(fn)
    if fc and ty != 'ℝ':
        out.append(f'-- FLOAT LITERAL on the way to entries {fc}: Python returns these as floats '
                   f'for exact (int / Fraction) arguments; the definition below reads the literal as the '
                   f'rational it denotes')
    ps = params_text(fn, ty)
    head = f'def {fn.name} {bind}{ps}'.rstrip()
    body = tree_text(P, fn.value, 2, lambda lf, ind: value_text(P, fn.kind, lf.nodes, ind))
    out.append(f'{head} : {lean_type(fn.kind, ty)} :=\n{P.let_block(2)}{body}')
    for i, c in enumerate(conds(fn.value)):
        cf = features([c])
        cty, cbind = binder(cf | ({'real'} if ty == 'ℝ' else set()))
        CP = Printer(cty)
        cps = params_text(fn, cty)
        out.append(f'def {fn.name}.cond{i}_lhs {cbind}{cps} : {cty} :=\n  {CP.e(c.args[0])}')
        out.append(f'def {fn.name}.cond{i}_rhs {cbind}{cps} : {cty} :=\n  {CP.e(c.args[1])}')
        out.append(f'def {fn.name}.cond{i} {cbind}{cps} : Prop :=\n  {CP.e(c)}')
    if any(lf.warn for lf in leaves(fn.value)):
        body = tree_text(P, fn.value, 2, lambda lf, ind: 'True' if lf.warn else 'False')
        out.append(f'/-- the call emits a warning -/\ndef {fn.name}.warns {bind}{ps} : Prop :=\n'
                   f'{P.let_block(2)}{body}')
    return '\n\n'.join(out) + '\n'


def status_text(P, tree, ind, other_excs):
    pad = ' ' * ind

    def guard(divs, inner):
        if not divs:
            return inner
        test = ' || '.join(f'decide ({P.e(d)} = (0 : Rat))' for d in dict.fromkeys(divs))
        return f'{pad}if {test} then 1 else\n{inner}'
    if isinstance(tree, Leaf):
        if tree.exc is None:
            code = 0
        elif tree.exc in EXC_CODE:
            code = EXC_CODE[tree.exc]
        else:
            if tree.exc not in other_excs:
                other_excs.append(tree.exc)
            code = 3 + other_excs.index(tree.exc)
        return guard(tree.divs, f'{pad}{code}')
    inner = (f'{pad}if {P.e(tree.cond)} then\n{status_text(P, tree.t, ind + 2, other_excs)}\n'
             f'{pad}else\n{status_text(P, tree.f, ind + 2, other_excs)}')
    return guard(tree.divs, inner)


def status_roots(tree):
    if isinstance(tree, Leaf):
        return list(tree.divs)
    return list(tree.divs) + [tree.cond] + status_roots(tree.t) + status_roots(tree.f)


def has_status(tree):
    if isinstance(tree, Leaf):
        return bool(tree.divs) or tree.exc is not None
    return bool(tree.divs) or has_status(tree.t) or has_status(tree.f)


def float_flags(fn):
    """Per leaf of the value tree: the F expression (`pytypes`) of every entry."""
    memo = {}
    return [[pytypes(n, fn.varpos, memo)[0] for n in lf.nodes] for lf in leaves(fn.value)]


def b_possible(b, tag):
    """Can the expression be true when every argument tag is `tag`?"""
    if b is True or b is False:
        return b
    if b[0] == 't':
        return tag
    if b[0] == 'or':
        return b_possible(b[1], tag) or b_possible(b[2], tag)
    if b[0] == 'and':
        return b_possible(b[1], tag) and b_possible(b[2], tag)
    return b_possible(b[2], tag) or b_possible(b[3], tag)


def float_contaminated(fn, ints=False):
    """Entries of a result that depend on the arguments AND come back as floats on some path when
    every argument is a Fraction (`ints=False`: a float literal rounds the exact input) / when
    every argument is an int (`ints=True`: additionally Python's int / int)."""
    if fn.value is None:
        return []
    memo, bad = {}, set()
    for lf in leaves(fn.value):
        for i, n in enumerate(lf.nodes):
            if b_possible(pytypes(n, fn.varpos, memo)[0], ints) and depends_on_input(n):
                bad.add(i)
    return sorted(bad)


def emit_exec(fn, other_excs):
    """(definitions, dispatch-table entry) for MathExec.lean."""
    q = '"' + fn.name + '"'
    nargs = sum(KIND_LEN[k] for _, k in fn.params)
    if fn.tree is None:
        return (f'-- {fn.name}: not translated ({fn.error})\n',
                f'  ({q}, {nargs}, fun _ _ => Res.untranslatable)')
    ps = params_text(fn, 'Rat')
    out = []
    if fn.value is not None:
        P = Printer('Rat', [n for lf in leaves(fn.value) for n in lf.nodes] + list(conds(fn.value)))
        body = tree_text(P, fn.value, 2, lambda lf, ind: value_text(P, fn.kind, lf.nodes, ind))
        out.append(f'def {fn.name} {ps} : {lean_type(fn.kind, "Rat")} :=\n{P.let_block(2)}{body}')
    if has_status(fn.tree):
        P = Printer('Rat', status_roots(fn.tree))
        out.append(f'def {fn.name}.status {ps} : Nat :=\n{P.let_block(2)}'
                   f'{status_text(P, fn.tree, 2, other_excs)}')
    warns = fn.value is not None and any(lf.warn for lf in leaves(fn.value))
    if warns:
        P = Printer('Rat', list(conds(fn.value)))
        body = tree_text(P, fn.value, 2, lambda lf, ind: 'true' if lf.warn else 'false')
        out.append(f'def {fn.name}.warns {ps} : Bool :=\n{P.let_block(2)}{body}')
    floats = fn.value is not None and any(f is not False for fl in float_flags(fn) for f in fl)
    if floats:
        P = Printer('Rat')
        memo = {}
        body = tree_text(P, fn.value, 2, lambda lf, ind: '[' + ', '.join(
            b_text(P, pytypes(n, fn.varpos, memo)[0]) for n in lf.nodes) + ']')
        out.append(f'/-- which entries Python returns as floats when the arguments are exact '
                   f'(`t[i]`: argument i is an int) -/\n'
                   f'def {fn.name}.floats (t : Array Bool) {ps} : List Bool :=\n{body}')
    # dispatch entry: arguments are read from the flat array `a`
    off, call_args = 0, []
    for _, k in fn.params:
        if k == 's':
            call_args.append(f'(a[{off}]!)')
        else:
            call_args.append(f'({k}At a {off})')
        off += KIND_LEN[k]
    ca = ''.join(' ' + c for c in call_args)
    status = f'({fn.name}.status{ca})' if has_status(fn.tree) else '0'
    warn = f'({fn.name}.warns{ca})' if warns else 'false'
    fl = f'({fn.name}.floats t{ca})' if floats else '[]'
    if fn.value is not None:
        val = f'{fn.kind}Out ({fn.name}{ca})'
        kindtag = fn.kind
    else:
        val, kindtag = '[]', 's'
    entry = f'  ({q}, {nargs}, fun a t => Res.mk {status} {warn} "{kindtag}" ({val}) {fl})'
    return '\n\n'.join(out) + '\n', entry


# --------------------------------------------------------------------------- swizzling

class Swizzle:
    """Behaviour of `__getattr__` of one vector class, learned by running it."""

    def __init__(self, cls_name):
        self.cls = cls_name
        self.letters = []        # (char, node)
        self.lens = []           # (length, kind)
        self.observed = {}       # attrs -> ('raised', name) | (kind, [nodes])
        self.mismatches = 0
        self.reached, self.impure = set(), {}


def trace_swizzle(M, cls_name):
    with Reached(M.__file__) as reached:
        sw = _trace_swizzle(M, cls_name)
    sw.reached = reached.codes
    return sw


def _trace_swizzle(M, cls_name):
    global CUR
    sw = Swizzle(cls_name)
    cls = getattr(M, cls_name)
    n = int(cls_name[-1])
    comps = [Sym(mk('var', f'self.{f}')) for f in fields(f'v{n}')]
    v = cls(*comps)
    CUR = Tracer([])
    try:
        for s in math_api.swizzle_universe():
            try:
                r = cls.__getattr__(v, s)
            except Untranslatable:
                raise
            except Exception as e:      # noqa: BLE001
                sw.observed[s] = ('raised', type(e).__name__)
                continue
            cl = math_api.classify(M, r, lambda x: coerce(x) is not None)
            if cl is None or cl[0] not in ('v2', 'v3', 'v4'):
                raise Untranslatable(f'{cls_name}.__getattr__({s!r}) returned {type(r).__name__}')
            sw.observed[s] = (cl[0], [coerce(x) for x in cl[1]])
        if CUR.events:
            raise Untranslatable(f'{cls_name}.__getattr__ branches on component values')
    finally:
        CUR = None
    for c in math_api.SWIZZLE_LETTERS:
        o = sw.observed[c + c]
        if o[0] != 'raised' and o[1][0] is o[1][1]:
            sw.letters.append((c, o[1][0]))
    if sw.letters:
        c0 = sw.letters[0][0]
        for k in range(0, math_api.SWIZZLE_MAXLEN + 1):
            o = sw.observed[c0 * k]
            if o[0] != 'raised':
                sw.lens.append((k, o[0]))
    # the emitted shape (letter table, class by length) against everything that was observed
    table, lens = dict(sw.letters), dict(sw.lens)
    for s, o in sw.observed.items():
        if len(s) in lens and all(c in table for c in s):
            pred = (lens[len(s)], [table[c] for c in s])
            ok = o[0] == pred[0] and len(o[1]) == len(pred[1]) and all(a is b for a, b in zip(o[1], pred[1]))
        else:
            ok = o == ('raised', 'AttributeError')
        if not ok:
            sw.mismatches += 1
    return sw


def emit_swizzle(sw, ty, bind):
    P = Printer(ty)
    V = sw.cls
    arms = ''.join(f"  | '{c}' => some {P.e(n)}\n" for c, n in sw.letters)
    out = [f'/-- `{V}.__getattr__`: the component a letter selects (`self[\'…\'.index(c)]`) -/\n'
           f'def {V}.swizzleComp {bind}(self : {V} {ty}) : Char → Option {ty}\n{arms}  | _ => none']
    pats = {2: ('[a, b]', '.vec2 ⟨a, b⟩'), 3: ('[a, b, c]', '.vec3 ⟨a, b, c⟩'),
            4: ('[a, b, c, d]', '.vec4 ⟨a, b, c, d⟩')}
    ctor = {'v2': 2, 'v3': 3, 'v4': 4}
    arms = ''
    for k, kind in sw.lens:
        if ctor.get(kind) != k:
            raise Untranslatable(f'{V}: attribute of length {k} gives a {kind}')
        arms += f'  | some {pats[k][0]} => {pats[k][1]}\n'
    out.append(f'/-- `{V}.__getattr__` (swizzling): vector class by length, anything else is an '
               f'AttributeError -/\n'
               f'def {V}.swizzle {bind}(self : {V} {ty}) (attrs : List Char) : Swz {ty} :=\n'
               f'  match collect (attrs.map self.swizzleComp) with\n{arms}  | _ => .attributeError')
    return '\n\n'.join(out) + '\n'


# --------------------------------------------------------------------------- file assembly

GEN_PRELUDE = '''/-
  GENERATED by harness/translate_math.py from desper/math.py — DO NOT EDIT.
  Regenerated by every `./check C18` from the tree under test; the theorems of
  DesperProofs/Props/C18.lean are re-checked against what the code says now.
  Each definition is the trace of the real Python function on symbolic scalars.
-/
import Mathlib.Algebra.Order.Field.Basic
import Mathlib.Analysis.Real.Sqrt
import Mathlib.Analysis.SpecialFunctions.Trigonometric.Basic
import Mathlib.Analysis.SpecialFunctions.Complex.Arg

set_option linter.unusedVariables false
set_option linter.unusedSectionVars false
set_option linter.style.longLine false

namespace Desper.MathGen

@[ext] structure Vec2 (K : Type) where
  x : K
  y : K

@[ext] structure Vec3 (K : Type) where
  x : K
  y : K
  z : K

@[ext] structure Vec4 (K : Type) where
  x : K
  y : K
  z : K
  w : K

/-- a 3x3 matrix as the tuple of 9 values it is written as (row after row) -/
@[ext] structure Mat3 (K : Type) where
  e0 : K
  e1 : K
  e2 : K
  e3 : K
  e4 : K
  e5 : K
  e6 : K
  e7 : K
  e8 : K

/-- a 4x4 matrix as the tuple of 16 values it is written as (row after row) -/
@[ext] structure Mat4 (K : Type) where
  e0 : K
  e1 : K
  e2 : K
  e3 : K
  e4 : K
  e5 : K
  e6 : K
  e7 : K
  e8 : K
  e9 : K
  e10 : K
  e11 : K
  e12 : K
  e13 : K
  e14 : K
  e15 : K

/-- result of a swizzled attribute access -/
inductive Swz (K : Type) where
  | vec2 (v : Vec2 K)
  | vec3 (v : Vec3 K)
  | vec4 (v : Vec4 K)
  | attributeError

/-- all components found, or `none` (the generator expression raised ValueError) -/
def collect {α : Type} : List (Option α) → Option (List α)
  | [] => some []
  | none :: _ => none
  | some a :: t => (collect t).map (a :: ·)

/-- the shim's reading of `math.atan2(y, x)` -/
noncomputable def atan2 (y x : ℝ) : ℝ := Complex.arg ⟨x, y⟩

/-- the shim's reading of `math.radians(x)` -/
noncomputable def radians (x : ℝ) : ℝ := x * (Real.pi / 180)

noncomputable section
'''

EXEC_PRELUDE = '''/-
  GENERATED by harness/translate_math.py from desper/math.py — DO NOT EDIT.
  The definitions of DesperProofs/Generated/MathGen.lean over core `Rat`, executable, plus the
  line protocol of the driver (model name `math`).  Core Lean only.

  sqrt / sin / cos / tan / atan2 / radians / pi are given a STAND-IN interpretation by rational
  functions (the same ones as harness/math_api.py `StandIn`): the translator treats them as
  uninterpreted symbols, so executing both sides under one interpretation validates the traced
  structure.  Nothing is proved about this file; it exists to validate the translator.

  protocol:  call  <fn> <rational>*      ->  r  <fn> <kind> <rational>* [warn] | r <fn> raised <Exc>
             callx <fn> <rational>*      ->  rx <fn> ...            (same, functions using the stand-ins)
             calle <fn> <int | n/d>*     ->  re <fn> <kind> <[~]rational>*   exact-domain run: a bare integer is a
                                             Python int, n/d a Fraction; `~` marks the entries Python returns as floats
             callf <fn> <float>*         ->  rf <fn>                (floats are tested on the Python side only)
             obj <id> <token>*  ->  o <id> <n>          an operand object (a Python list) that lives across calls
             set <id> <i> <token>  ->  o <id> set <i>   edited in place; `@id` among the arguments of a later call
                                                       stands for its current values; `!v` = re-entrant number object v
             swz <Vec2|Vec3|Vec4> <attrs|-> <rational>*  ->  r swz <cls> <attrs> <kind> <rational>* | ... raised AttributeError
-/
import DesperModel.Proto
set_option linter.unusedVariables false
namespace Desper.MathExec

structure Vec2 (K : Type) where
  x : K
  y : K

structure Vec3 (K : Type) where
  x : K
  y : K
  z : K

structure Vec4 (K : Type) where
  x : K
  y : K
  z : K
  w : K

structure Mat3 (K : Type) where
  e0 : K
  e1 : K
  e2 : K
  e3 : K
  e4 : K
  e5 : K
  e6 : K
  e7 : K
  e8 : K

structure Mat4 (K : Type) where
  e0 : K
  e1 : K
  e2 : K
  e3 : K
  e4 : K
  e5 : K
  e6 : K
  e7 : K
  e8 : K
  e9 : K
  e10 : K
  e11 : K
  e12 : K
  e13 : K
  e14 : K
  e15 : K

inductive Swz (K : Type) where
  | vec2 (v : Vec2 K)
  | vec3 (v : Vec3 K)
  | vec4 (v : Vec4 K)
  | attributeError

def collect {α : Type} : List (Option α) → Option (List α)
  | [] => some []
  | none :: _ => none
  | some a :: t => (collect t).map (a :: ·)

-- stand-in interpretation (see the header)
def piX : Rat := (22 : Rat) / 7
def sqrtX (x : Rat) : Rat := x * (x + 3) / 4
def sinX (x : Rat) : Rat := 2 * x / (1 + x * x)
def cosX (x : Rat) : Rat := (1 - x * x) / (1 + x * x)
def tanX (x : Rat) : Rat := x / 3 + x * x
def atan2X (y x : Rat) : Rat := (y - 2 * x) / 3 + y * x
def radiansX (x : Rat) : Rat := x * (piX / 180)
def absX (x : Rat) : Rat := if x < 0 then -x else x

def v2At (a : Array Rat) (o : Nat) : Vec2 Rat := ⟨a[o]!, a[o+1]!⟩
def v3At (a : Array Rat) (o : Nat) : Vec3 Rat := ⟨a[o]!, a[o+1]!, a[o+2]!⟩
def v4At (a : Array Rat) (o : Nat) : Vec4 Rat := ⟨a[o]!, a[o+1]!, a[o+2]!, a[o+3]!⟩
def m3At (a : Array Rat) (o : Nat) : Mat3 Rat :=
  ⟨a[o]!, a[o+1]!, a[o+2]!, a[o+3]!, a[o+4]!, a[o+5]!, a[o+6]!, a[o+7]!, a[o+8]!⟩
def m4At (a : Array Rat) (o : Nat) : Mat4 Rat :=
  ⟨a[o]!, a[o+1]!, a[o+2]!, a[o+3]!, a[o+4]!, a[o+5]!, a[o+6]!, a[o+7]!,
   a[o+8]!, a[o+9]!, a[o+10]!, a[o+11]!, a[o+12]!, a[o+13]!, a[o+14]!, a[o+15]!⟩

def sOut (x : Rat) : List Rat := [x]
def v2Out (v : Vec2 Rat) : List Rat := [v.x, v.y]
def v3Out (v : Vec3 Rat) : List Rat := [v.x, v.y, v.z]
def v4Out (v : Vec4 Rat) : List Rat := [v.x, v.y, v.z, v.w]
def t3Out (v : Rat × Rat × Rat) : List Rat := [v.1, v.2.1, v.2.2]
def t4Out (v : Rat × Rat × Rat × Rat) : List Rat := [v.1, v.2.1, v.2.2.1, v.2.2.2]
def m3Out (m : Mat3 Rat) : List Rat := [m.e0, m.e1, m.e2, m.e3, m.e4, m.e5, m.e6, m.e7, m.e8]
def m4Out (m : Mat4 Rat) : List Rat :=
  [m.e0, m.e1, m.e2, m.e3, m.e4, m.e5, m.e6, m.e7, m.e8, m.e9, m.e10, m.e11, m.e12, m.e13, m.e14, m.e15]

/-- outcome of one call: status 0 = value, 1 = ZeroDivisionError, 2 = AssertionError, 3+ = `otherExcs` -/
inductive Res where
  | mk (status : Nat) (warn : Bool) (kind : String) (vals : List Rat) (floats : List Bool)
  | untranslatable

def showRat (q : Rat) : String :=
  if q.den = 1 then toString q.num else s!"{q.num}/{q.den}"

/-- `!v` is a user number object acting as `v` (the implementation side gives it arithmetic that
    calls back into desper.math first); for the pure definitions it is the number `v` -/
def rat? (s0 : String) : Option Rat :=
  let s := if s0.startsWith "!" then (s0.drop 1).toString else s0
  match s.splitOn "/" with
  | [n] => (String.toInt? n).map fun (i : Int) => (i : Rat)
  | [n, d] =>
    match String.toInt? n, String.toNat? d with
    | some i, some k => if k = 0 then none else some ((i : Rat) / ((k : Int) : Rat))
    | _, _ => none
  | _ => none
'''


def source_hash(M):
    return hashlib.sha1(pathlib.Path(M.__file__).read_bytes()).hexdigest()


def translate(M):
    """Trace everything; returns (gen_text, exec_text, inventory)."""
    restore = math_api.install_shims(M, MathShim(), WarnShim())
    try:
        fns = [trace_entry(M, e) for e in API.values()]
        sws = []
        sw_errors = {}
        for c in math_api.SWIZZLE_CLASSES:
            try:
                sws.append(trace_swizzle(M, c))
            except Untranslatable as e:
                sw_errors[c] = str(e)
    finally:
        restore()

    # purity obligation: a single trace describes a function only if the function is pure
    audit = math_purity.Audit(pathlib.Path(M.__file__).read_text(), M.__file__)
    impure = audit.impure()

    def reached_impure(codes):
        out = {}
        for name, line in sorted(codes):
            f = audit.function_at(name, line)
            if f is not None and f.qualname in impure:
                out[f.qualname] = impure[f.qualname]
        return out
    for fn in fns:
        fn.impure = reached_impure(fn.reached)
    for sw in sws:
        sw.impure = reached_impure(sw.reached)

    rel = os.path.relpath(M.__file__, os.path.dirname(os.path.dirname(M.__file__)))
    gen = [GEN_PRELUDE, f'-- source: {rel}\n']
    for fn in fns:
        if fn.impure:
            gen.append(f'-- PURITY OBLIGATION BROKEN for {fn.name}: the trace below is one call from a fresh state, but '
                       f'{", ".join(fn.impure)} read / write state that outlives the call\n')
        gen.append(emit_generic(fn))
    for sw in sws:
        if sw.impure:
            gen.append(f'-- PURITY OBLIGATION BROKEN for {sw.cls}.swizzle: {", ".join(sw.impure)} read / write '
                       f'state that outlives the call\n')
        gen.append(emit_swizzle(sw, 'K', '{K : Type} '))
    for c, why in sw_errors.items():
        gen.append(f'-- {c}.swizzle: not translated ({why})\n')
    gen.append('end\n\nend Desper.MathGen\n')

    other_excs = []
    ex, table = [EXEC_PRELUDE, f'-- source: {rel}\n'], []
    for fn in fns:
        d, t = emit_exec(fn, other_excs)
        ex.append(d)
        table.append(t)
    for sw in sws:
        ex.append(emit_swizzle(sw, 'Rat', ''))
    ex.append('def otherExcs : List String := [' + ', '.join(f'"{e}"' for e in other_excs) + ']\n')
    ex.append('def table : List (String × Nat × (Array Rat → Array Bool → Res)) := [\n' + ',\n'.join(table) + ']\n')
    sw_arms = ''.join(
        f'  | "{sw.cls}" => if a.size = {sw.cls[-1]} then some ({sw.cls}.swizzle (v{sw.cls[-1]}At a 0) attrs) else none\n'
        for sw in sws)
    ex.append('def swizzleOf (cls : String) (attrs : List Char) (a : Array Rat) : Option (Swz Rat) :=\n'
              '  match cls with\n' + sw_arms + '  | _ => none\n')
    ex.append(EXEC_EPILOGUE)

    inv = {
        'source': M.__file__,
        'source_sha1': source_hash(M),
        'functions_traced': len(fns),
        'translated': [f.name for f in fns if f.value is not None],
        'always_raise': {f.name: first_exc(f.tree) for f in fns if f.tree is not None and f.value is None},
        'untranslatable': {f.name: f.error for f in fns if f.error},
        'transcendental': [f.name for f in fns if f.value is not None and f.is_tr],
        'paths': {f.name: sum(1 for _ in leaves(f.tree)) for f in fns
                  if f.tree is not None and isinstance(f.tree, If)},
        'preconditions': {f.name: len(f.pre) for f in fns if f.pre},
        'purity': {
            'functions_audited': len(audit.functions),
            'state_objects': sorted(audit.key_text(k) for k in audit.state),
            'impure_functions': impure,
            'module_level_constants_never_written': audit.constants(),
            # API entries whose trace ran an impure function (named = the property names the entry)
            'broken': {**{f.name: sorted(f.impure) for f in fns if f.impure},
                       **{sw.cls + '.swizzle': sorted(sw.impure) for sw in sws if sw.impure}},
            'broken_named': sorted([f.name for f in fns if f.impure and f.entry.named] +
                                   [sw.cls + '.swizzle' for sw in sws if sw.impure]),
        },
        'float_contaminated': {f.name: float_contaminated(f) for f in fns
                               if f.value is not None and not f.is_tr and float_contaminated(f)},
        'float_for_int_arguments': {f.name: float_contaminated(f, True) for f in fns
                                    if f.value is not None and not f.is_tr
                                    and float_contaminated(f, True) != float_contaminated(f)},
        'not_attempted': math_api.NOT_TRANSLATED,
        'swizzle': {sw.cls: {'letters': ''.join(c for c, _ in sw.letters),
                             'lengths': [k for k, _ in sw.lens],
                             'strings_run': len(sw.observed),
                             'shape_mismatches': sw.mismatches} for sw in sws},
        'swizzle_untranslatable': sw_errors,
    }
    return '\n'.join(gen), '\n'.join(ex), inv


EXEC_EPILOGUE = '''/-- `marks`: the exact-domain run (`calle`): entries Python returns as floats are written `~value` -/
def showVals (marks : Bool) (vals : List Rat) (floats : List Bool) : List String :=
  (List.range vals.length).map fun i =>
    (if marks && floats.getD i false then "~" else "") ++ showRat (vals.getD i 0)

def showRes (tag fn : String) : Res → String
  | .untranslatable => s!"{tag} {fn} untranslatable"
  | .mk 0 w k vals fl =>
    let body := " ".intercalate (showVals (tag = "re") vals fl)
    s!"{tag} {fn} {k} {body}" ++ (if w then " warn" else "")
  | .mk 1 _ _ _ _ => s!"{tag} {fn} raised ZeroDivisionError"
  | .mk 2 _ _ _ _ => s!"{tag} {fn} raised AssertionError"
  | .mk (n+3) _ _ _ _ => s!"{tag} {fn} raised {otherExcs.getD n "Exception"}"

def showSwz (cls attrs : String) : Swz Rat → String
  | .vec2 v => s!"r swz {cls} {attrs} v2 " ++ " ".intercalate ((v2Out v).map showRat)
  | .vec3 v => s!"r swz {cls} {attrs} v3 " ++ " ".intercalate ((v3Out v).map showRat)
  | .vec4 v => s!"r swz {cls} {attrs} v4 " ++ " ".intercalate ((v4Out v).map showRat)
  | .attributeError => s!"r swz {cls} {attrs} raised AttributeError"

/-- operand objects that live across the calls of one scenario (Python lists edited in place);
    the definitions are pure, so a reference `@id` simply stands for the object's current tokens -/
abbrev Store := List (String × Array String)

def Store.get? (st : Store) (id : String) : Option (Array String) :=
  (st.find? (fun e => e.1 = id)).map (·.2)

def Store.put (st : Store) (id : String) (v : Array String) : Store :=
  (id, v) :: st.filter (fun e => e.1 ≠ id)

/-- replace every `@id` by the tokens of the object; `none` when an object is unknown -/
def expand (st : Store) : List String → Option (List String)
  | [] => some []
  | t :: rest =>
    match expand st rest with
    | none => none
    | some r =>
      if t.startsWith "@" then
        match st.get? (t.drop 1).toString with
        | some v => some (v.toList ++ r)
        | none => none
      else some (t :: r)

def step (st : Store) (line : String) : Option (Store × String) :=
  match Proto.tokens line with
  | "callf" :: fn :: _ => some (st, s!"rf {fn}")
  | "obj" :: id :: vals =>
    if (vals.mapM rat?).isSome then some (st.put id vals.toArray, s!"o {id} {vals.length}") else none
  | ["set", id, idx, v] =>
    match st.get? id, idx.toNat?, rat? v with
    | some a, some i, some _ =>
      if i < a.size then some (st.put id (a.set! i v), s!"o {id} set {i}")
      else some (st, s!"o {id} raised IndexError")
    | none, some _, some _ => some (st, s!"o {id} raised UnknownObject")
    | _, _, _ => none
  | "swz" :: cls :: attrs :: rest =>
    match rest.mapM rat? with
    | none => none
    | some args =>
      let l := if attrs = "-" then [] else attrs.toList
      (swizzleOf cls l args.toArray).map fun r => (st, showSwz cls attrs r)
  | kind :: fn :: rest0 =>
    if kind ≠ "call" ∧ kind ≠ "callx" ∧ kind ≠ "calle" then none else
    let tag := if kind = "call" then "r" else if kind = "callx" then "rx" else "re"
    match expand st rest0 with
    | none => some (st, s!"{tag} {fn} raised UnknownObject")
    | some rest =>
    match rest.mapM rat?, table.find? (fun e => e.1 = fn) with
    | some args, some (_, n, f) =>
      -- argument tags of the exact-domain run: a bare integer is a Python int, `n/d` a Fraction
      let tags := rest.map fun s => !(s.contains '/')
      if args.length = n then some (st, showRes tag fn (f args.toArray tags.toArray))
      else none
    | _, _ => none
  | _ => none

def runLines : Store → List String → Option (List String)
  | _, [] => some []
  | st, l :: rest =>
    match step st l with
    | none => none
    | some (st', o) => (runLines st' rest).map (o :: ·)

def runScenario (lines : List String) : List String :=
  match runLines [] lines with
  | some out => out
  | none => ["bad-op"]

end Desper.MathExec
'''


def write_if_changed(path, text):
    path.parent.mkdir(parents=True, exist_ok=True)
    if path.exists() and path.read_text() == text:
        return False
    tmp = path.with_suffix(path.suffix + '.tmp')
    tmp.write_text(text)
    os.replace(tmp, path)
    return True


def load_math():
    repo = os.environ.get('DESPER_REPO', '/repo')
    if sys.path[0] != repo:
        sys.path.insert(0, repo)
    for name in list(sys.modules):
        if name == 'desper' or name.startswith('desper.'):
            f = getattr(sys.modules[name], '__file__', '') or ''
            if not f.startswith(repo.rstrip('/') + '/'):
                del sys.modules[name]
    import desper.math as M
    if not M.__file__.startswith(repo.rstrip('/') + '/'):
        raise RuntimeError(f'desper.math resolved to {M.__file__}, not under {repo}')
    return M


_LAST = {}


def run():
    """Regenerate both Lean files from the tree under test; returns the inventory."""
    M = load_math()
    gen, ex, inv = translate(M)
    inv['rewrote_MathGen'] = write_if_changed(GEN_PATH, gen)
    inv['rewrote_MathExec'] = write_if_changed(EXEC_PATH, ex)
    _LAST.clear()
    _LAST.update(inv)
    return inv


if __name__ == '__main__':
    import json
    i = run()
    json.dump({k: v for k, v in i.items() if k not in ('translated',)}, sys.stdout, indent=1)
    print()
